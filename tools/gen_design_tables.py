#!/usr/bin/env python3
"""Rewrites the generated blocks of DESIGN.md (between <!-- GEN:x --> ... <!-- /GEN:x -->) from
known_findings.json and seeded/*/meta.json."""
import glob, json, os, re
V = os.path.dirname(os.path.dirname(os.path.abspath(__file__)))
k = json.load(open(os.path.join(V, "known_findings.json")))
def cell(s, n=400):
    s = " ".join(str(s).split()).replace("|", "\\|")
    return s if len(s) <= n else s[:n - 1] + "…"
fixed = ["| property | commit | what failed |", "|---|---|---|"]
for f in k["fixed"]:
    m = re.match(r"fixed: property=(\S+) (\S+) (.*)", f, re.S)
    fixed.append("| %s | %s | %s |" % (m.group(1), m.group(2), cell(m.group(3), 600)))
find = ["| property | root-cause key | what fails (specific input) |", "|---|---|---|"]
for f in sorted(k["findings"], key=lambda f: f["property"]):
    find.append("| %s | `%s` | %s |" % (f["property"], cell(f["key"], 120), cell(f["what"], 500)))
seed = ["| seeded change | property | what was changed | needs to manifest | confirmed (builds, suite passes, demo fails only with change) | reported by |", "|---|---|---|---|---|---|"]
for mfile in sorted(glob.glob(os.path.join(V, "seeded", "*", "meta.json"))):
    m = json.load(open(mfile)); e = m.get("evaluation", {})
    det = ", ".join("%s (%s)" % (r["check"], "VIOLATION" + (" no-failing-input-found" if any("no-failing-input-found" in l for l in r["violation_lines"]) else " with replay") if r["exit"] == 1 else "missed") for r in e.get("ran", []))
    seed.append("| %s | %s | %s | %s | %s | %s |" % (os.path.basename(os.path.dirname(mfile)), m.get("property"), cell(m.get("summary"), 300),
                cell(m.get("needs_to_manifest"), 300), "yes" if e.get("confirmed") else "NO: " + cell(e.get("suite_fail_lines") or e.get("demo_with_change"), 100), det))
blocks = {"fixed": "\n".join(fixed), "findings": "\n".join(find), "seeded": "\n".join(seed)}
p = os.path.join(V, "DESIGN.md"); s = open(p).read()
for name, body in blocks.items():
    s = re.sub(r"<!-- GEN:%s -->.*?<!-- /GEN:%s -->" % (name, name), lambda m, name=name, body=body: "<!-- GEN:%s -->\n%s\n<!-- /GEN:%s -->" % (name, body, name), s, flags=re.S)
open(p, "w").write(s)
print({n: b.count("\n") - 1 for n, b in blocks.items()})
