#!/usr/bin/env python3
"""prints the prompt for a fault-seeding sub-agent for property <ID> (given ONLY the property text and a scratch worktree)"""
import json, sys
pid = sys.argv[1]
p = [json.loads(l) for l in open('/verif/properties.jsonl') if json.loads(l)['id'] == pid][0]
print(f"""You are a software engineer helping with a fault-seeding study of the open-source project wa-lang/wa (a Go code base: the Wa language compiler, its WebAssembly/native tool chain and tooling). You have your own scratch git worktree of the project at /tmp/seedwt-{pid} (work ONLY there and in your output directory /tmp/seedout-{pid}; do not read, list or modify /verif, /repo, /root or other /tmp/seed* directories — the study depends on your work being independent of the verification machinery).

The property under study:
  Title: {p['title']}
  Statement: {p['statement']}
  Quantified over: {p['quantifier']['text']}
  Code it is anchored in (relative to the worktree): {', '.join(p['anchors']['files'])}

Your task: produce TWO independent, realistic changes to the project's source (each the kind of mistake a maintainer could plausibly introduce during a refactoring, optimisation, clean-up or feature tweak — a few lines each, at DIFFERENT sites or of different nature) such that each change
  (a) BREAKS the property above (some input/history/configuration in the property's domain now misbehaves),
  (b) still compiles: `cd /tmp/seedwt-{pid} && go build ./...`,
  (c) still passes the project's existing test suite: `cd /tmp/seedwt-{pid} && go test -vet=off -count=1 ./... 2>&1 | grep -v 'no test files'` must show no FAIL (environment for every go command: `export GOFLAGS=-mod=mod GOPROXY=off GOSUMDB=off GOTOOLCHAIN=local`; there is no network),
  (d) needs something SPECIFIC to manifest — a particular boundary value, an unusual but legal input, a multi-step sequence of operations, a particular chunking/interleaving, or two cooperating sites that each look fine alone — NOT something that ordinary use or a smoke test would expose at once. Avoid changes that make everything fail.
For each change provide a DEMONSTRATION: a Go test file (placed inside the relevant package in the worktree so it can reach unexported code if needed) or a small program/script with exact run instructions, which FAILS with the change applied and PASSES on the unchanged worktree. Verify both directions yourself and say what you observed.

Write into /tmp/seedout-{pid}/ for k = 1, 2:  `patch<k>.diff` (output of `git diff` for the source change ONLY, not the demo), `demo<k>/` (the demonstration files, with a README.txt giving the exact commands and where each file must be copied inside a checkout), and `meta<k>.json` with keys: property ("{pid}"), summary (one sentence: what was changed), breaks (which clause of the property and how), needs_to_manifest (the specific input/sequence/condition), files_changed, demo_command, observed_with_change, observed_without_change, existing_tests_pass (true/false as you observed).
When you are done, leave the worktree clean (`git -C /tmp/seedwt-{pid} checkout -- . && git -C /tmp/seedwt-{pid} clean -fd`). Your final message: a short summary of the two changes and confirmation of (a)–(d) for each.""")
