(module
  (type $t (func (param $tp i32)))
  (import "env" "imp" (func $imp (param $ia i32)))
  (func $f (param $a i32))
  (func $g)
)
