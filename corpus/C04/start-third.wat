(module
  (func $a)
  (func $b (result i32) i32.const 1)
  (func $c)
  (start $c)
)
