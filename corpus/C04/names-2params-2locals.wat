(module $m
  (func $f (param $a i32) (param $b i64) (result i32)
    (local $x i32) (local $y f64)
    local.get $x)
)
