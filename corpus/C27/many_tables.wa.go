package main

type Shape interface {
	Area() int32
	Name() string
}

type Rect struct {
	w, h int32
	tag  string
}

type Sq struct{ s int32 }

func (r *Rect) Area() int32  { return r.w * r.h }
func (r *Rect) Name() string { return "rect:" + r.tag }
func (s *Sq) Area() int32    { return s.s * s.s }
func (s *Sq) Name() string   { return "sq" }

type Ints []int32

type Pair struct {
	vals Ints
	key  string
}

var table = map[string]int32{"a": 1, "b": 2, "c": 3}
type Shapes []Shape

var shapes Shapes
var zeta, alpha, mid int32 = 3, 1, 2

func zz(a int32) int32 { return a + zeta }
func aa(a int32) int32 { return a + alpha }
func mm(a int32) int32 { return a + mid }

func mk(n int32) func() int32 {
	c := n
	return func() int32 {
		c += 1
		return c
	}
}

func total(ss Shapes) int32 {
	var t int32
	for _, s := range ss {
		t += s.Area()
	}
	return t
}

func main() {
	shapes = append(shapes, &Rect{2, 3, "x"})
	shapes = append(shapes, &Sq{4})
	f := mk(10)
	p := Pair{Ints{1, 2, 3}, "k"}
	var e interface{} = p
	q := e.(Pair)
	println(total(shapes), f(), f(), zz(1), aa(1), mm(1), table["b"], len(table), q.key, len(q.vals), shapes[0].Name(), shapes[1].Name())
}
