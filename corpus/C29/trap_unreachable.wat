(module
  (func $main (export "_main")
    unreachable
  )
)
