(module
  (func $main (export "_main"
    nop
  )
