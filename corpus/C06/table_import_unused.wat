;; C06 printer:table-import-todo — Wat2Wasm accepts this module, WatStrip panics "TODO"
(module
  (import "res" "tab" (table $t 4))
  (import "env" "h" (func $h (param i32) (result i32)))
  (func $f (export "f") (param $x i32) (result i32)
    local.get $x
    call $h
  )
)
