;; C06 pass:numeric-funcidx-not-root — element entry given as function index; $dead is removed, index 1 then names $disp
(module
  (table 1 funcref)
  (type $T (func (param i32) (result i32)))
  (func $dead (param i32) (result i32)
    i32.const 1
  )
  (func $a (param i32) (result i32)
    local.get 0
    i32.const 10
    i32.add
  )
  (func $disp (export "disp") (param i32) (param i32) (result i32)
    local.get 0
    local.get 1
    call_indirect (type $T)
  )
  (elem (i32.const 0) 1)
)
