;; C06 pass:empty-export-name-not-root — export whose name is the empty string (cf. Lean exEmptyExport)
(module
  (func $f (param $x i32) (result i32)
    local.get $x
    i32.const 7
    i32.mul
  )
  (func $g (export "g") (result i32)
    i32.const 1
  )
  (export "" (func $f))
)
