;; C06 pass:import-root-dropped — import referenced only from the element segment (cf. Lean exElemImport)
(module
  (import "env" "h" (func $h (param i32) (result i32)))
  (type $T (func (param i32) (result i32)))
  (table 1 funcref)
  (elem (i32.const 0) $h)
  (func $f (export "f") (param $x i32) (result i32)
    local.get $x
    i32.const 0
    call_indirect (type $T)
  )
)
