;; C06 pass:import-root-dropped — re-exported import (cf. Lean exExportImport)
(module
  (import "env" "h" (func $h (param i32) (result i32)))
  (func $f (export "f") (param $x i32) (result i32)
    local.get $x
  )
  (export "h2" (func $h))
)
