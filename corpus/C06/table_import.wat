;; C06 printer:table-import-todo — import of kind table: printer.Fprint panics "TODO" (and Wat2Wasm omits the reftype, so on the
;; unfixed tree this module is rejected by Wat2Wasm; the unused-table variant table_import_unused.wat assembles and WatStrip panics)
(module
  (import "res" "tab" (table $t 4))
  (import "env" "h" (func $h (param i32) (result i32)))
  (type $T (func (param i32) (result i32)))
  (func $f (export "f") (param $x i32) (result i32)
    local.get $x
    i32.const 0
    call_indirect (type $T)
  )
  (elem (i32.const 0) $h)
)
