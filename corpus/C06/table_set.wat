;; C06 pass:table.set-nil-deref — table.set in a reachable function (cf. Lean exTableSet)
(module
  (type $T (func (param i32) (result i32)))
  (table $tab 2 funcref)
  (elem (i32.const 0) $a)
  (func $a (param $x i32) (result i32)
    local.get $x
    i32.const 1
    i32.add
  )
  (func $dead (param $x i32) (result i32)
    local.get $x
  )
  (func $f (export "f") (param $x i32) (result i32)
    local.get $x
    if
      i32.const 1
      i32.const 0
      table.get $tab
      table.set $tab
    end
    local.get $x
    i32.const 1
    call_indirect $tab (type $T)
  )
)
