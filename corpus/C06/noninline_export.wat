;; C06 printer:noninline-func-export-dropped — two exports of one function, written as module fields
(module
  (func $f (param $x i32) (result i32)
    local.get $x
    call $g
  )
  (func $g (param $x i32) (result i32)
    local.get $x
    i32.const 3
    i32.add
  )
  (func $dead (param $x i32) (result i32)
    local.get $x
    call $g
  )
  (export "a" (func $f))
  (export "b" (func $f))
)
