;; clean: calls in code that can never execute are still references — the stripped text keeps the `call`,
;; so its target must be kept: after a top-level `return`, a top-level `unreachable`, a `br` out of the
;; function body, and after nested `return` / `br` / `unreachable`.  Each target is referenced from nowhere else.
(module
  (func $main (export "main") (param $x i32) (result i32)
    local.get $x
    i32.const 1
    i32.add
    return
    local.get $x
    call $cleanup
  )
  (func $trap (export "trap") (param $x i32) (result i32)
    unreachable
    local.get $x
    call $after_unreachable
  )
  (func $brout (export "brout") (param $x i32) (result i32)
    local.get $x
    br 0
    local.get $x
    call $after_br
  )
  (func $nested (export "nested") (param $x i32) (result i32)
    block $b
      local.get $x
      if
        local.get $x
        return
        local.get $x
        call $after_nested_return
        drop
      else
        br $b
        local.get $x
        call $after_nested_br
        drop
      end
      loop $l
        unreachable
        local.get $x
        call $after_nested_unreachable
        drop
      end
    end
    local.get $x
    i32.const 2
    i32.mul
  )
  (func $cleanup (param $x i32) (result i32)
    local.get $x
  )
  (func $after_unreachable (param $x i32) (result i32)
    local.get $x
  )
  (func $after_br (param $x i32) (result i32)
    local.get $x
  )
  (func $after_nested_return (param $x i32) (result i32)
    local.get $x
  )
  (func $after_nested_br (param $x i32) (result i32)
    local.get $x
  )
  (func $after_nested_unreachable (param $x i32) (result i32)
    local.get $x
  )
  (func $really_dead (param $x i32) (result i32)
    local.get $x
    call $cleanup
  )
)
