;; clean: cycle a<->b, calls inside block/loop/if/else, import used by live code, import used by dead code only,
;; unreferenced import, call_indirect-only target, dead cluster calling live code
(module
  (import "env" "live" (func $live (param i32) (result i32)))
  (import "env" "deadonly" (func $deadonly (param i32) (result i32)))
  (import "env" "unused" (func $unused (param i32) (result i32)))
  (type $T (func (param i32) (result i32)))
  (table $tab 2 funcref)
  (elem (i32.const 0) $ind $live)
  (func $a (export "a") (param $x i32) (result i32)
    local.get $x
    i32.eqz
    if
      i32.const 5
      return
    end
    block $b
      loop $l
        local.get $x
        i32.const 1
        i32.and
        if
          local.get $x
          i32.const 1
          i32.sub
          call $b
          drop
        else
          local.get $x
          call $live
          drop
        end
      end
    end
    local.get $x
    local.get $x
    i32.const 1
    i32.and
    call_indirect $tab (type $T)
  )
  (func $b (param $x i32) (result i32)
    local.get $x
    i32.const 1
    i32.shr_u
    call $a
  )
  (func $ind (param $x i32) (result i32)
    local.get $x
    i32.const 100
    i32.add
  )
  (func $dead1 (param $x i32) (result i32)
    local.get $x
    call $dead2
  )
  (func $dead2 (param $x i32) (result i32)
    local.get $x
    call $deadonly
    call $a
    call $dead1
  )
)
