;; C06 printer:unnamed-func-panic — function without identifier, exported inline (cf. parser/testdata/memory32.wat)
(module
  (func (export "f") (param i32) (result i32)
    local.get 0
    i32.const 1
    i32.add
  )
)
