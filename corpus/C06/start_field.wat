;; C06 printer:start-dropped — (start $init) is not printed by WatStrip's printer
(module
  (import "env" "log" (func $log (param i32)))
  (global $g (mut i32) (i32.const 0))
  (func $init
    i32.const 42
    global.set $g
    i32.const 42
    call $log
  )
  (func $get (export "get") (result i32)
    global.get $g
  )
  (start $init)
)
