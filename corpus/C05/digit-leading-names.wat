(module
  (memory 1)
  (global $3rdparty$pkg.init$guard (mut i32) (i32.const 0))
  (global $9lives (mut i32) (i32.const 5))
  (func $3rd.init (result i32)
    i32.const 1
    global.set $3rdparty$pkg.init$guard
    global.get $3rdparty$pkg.init$guard
  )
  (func $main (export "main") (result i32)
    (local $0x i32)
    call $3rd.init
    local.set $0x
    local.get $0x
    global.get $9lives
    i32.add
  )
)
