(module $m
  (func $g (result i32) i32.const 7)
  (export "g" (func $g))
)
