(module
  (memory 1)
  (func $init i32.const 0 i32.const 1 i32.store)
  (func $main (export "main") (result i32) i32.const 0 i32.load)
  (start $init)
)
