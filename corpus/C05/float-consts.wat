;; special float constants as instruction operands and as global initialisers
(module $floats
  (global $g_f32_0 f32 (f32.const 0))
  (global $g_f32_1 (mut f32) (f32.const -0))
  (global $g_f32_2 f32 (f32.const 0.0))
  (global $g_f32_3 (mut f32) (f32.const -0.0))
  (global $g_f32_4 f32 (f32.const -0e0))
  (global $g_f32_5 (mut f32) (f32.const -0x0p+0))
  (global $g_f32_6 f32 (f32.const 1))
  (global $g_f32_7 (mut f32) (f32.const -1))
  (global $g_f32_8 f32 (f32.const 1.5))
  (global $g_f32_9 (mut f32) (f32.const -2.25))
  (global $g_f32_10 f32 (f32.const .5))
  (global $g_f32_11 (mut f32) (f32.const 5.))
  (global $g_f32_12 f32 (f32.const 1e10))
  (global $g_f32_13 (mut f32) (f32.const 1E5))
  (global $g_f32_14 f32 (f32.const 1e-10))
  (global $g_f32_15 (mut f32) (f32.const 0x1p-3))
  (global $g_f32_16 f32 (f32.const -0x1.8p1))
  (global $g_f32_17 (mut f32) (f32.const 1e-45))
  (global $g_f32_18 f32 (f32.const -1e-45))
  (global $g_f32_19 (mut f32) (f32.const 1.401298464324817e-45))
  (global $g_f32_20 f32 (f32.const 1.1754942e-38))
  (global $g_f32_21 (mut f32) (f32.const 1.1754943508222875e-38))
  (global $g_f32_22 f32 (f32.const 3.4028234663852886e+38))
  (global $g_f32_23 (mut f32) (f32.const -3.4028235e38))
  (global $g_f32_24 f32 (f32.const 16777216))
  (global $g_f32_25 (mut f32) (f32.const 16777217))
  (global $g_f32_26 f32 (f32.const 9007199254740993))
  (global $g_f32_27 (mut f32) (f32.const 123456789012345678901234567890))
  (global $g_f32_28 f32 (f32.const 0.1))
  (global $g_f32_29 (mut f32) (f32.const 0.30000000000000004))
  (global $g_f32_30 f32 (f32.const 1_000))
  (global $g_f32_31 (mut f32) (f32.const 1e-400))
  (global $g_f32_32 f32 (f32.const -1e-400))
  (global $g_f64_0 f64 (f64.const 0))
  (global $g_f64_1 (mut f64) (f64.const -0))
  (global $g_f64_2 f64 (f64.const 0.0))
  (global $g_f64_3 (mut f64) (f64.const -0.0))
  (global $g_f64_4 f64 (f64.const -0e0))
  (global $g_f64_5 (mut f64) (f64.const -0x0p+0))
  (global $g_f64_6 f64 (f64.const 1))
  (global $g_f64_7 (mut f64) (f64.const -1))
  (global $g_f64_8 f64 (f64.const 1.5))
  (global $g_f64_9 (mut f64) (f64.const -2.25))
  (global $g_f64_10 f64 (f64.const .5))
  (global $g_f64_11 (mut f64) (f64.const 5.))
  (global $g_f64_12 f64 (f64.const 1e10))
  (global $g_f64_13 (mut f64) (f64.const 1E5))
  (global $g_f64_14 f64 (f64.const 1e-10))
  (global $g_f64_15 (mut f64) (f64.const 0x1p-3))
  (global $g_f64_16 f64 (f64.const -0x1.8p1))
  (global $g_f64_17 (mut f64) (f64.const 5e-324))
  (global $g_f64_18 f64 (f64.const -5e-324))
  (global $g_f64_19 (mut f64) (f64.const 4.9406564584124654e-324))
  (global $g_f64_20 f64 (f64.const 2.2250738585072014e-308))
  (global $g_f64_21 (mut f64) (f64.const 2.225073858507201e-308))
  (global $g_f64_22 f64 (f64.const 1.7976931348623157e+308))
  (global $g_f64_23 (mut f64) (f64.const -1.7976931348623157e308))
  (global $g_f64_24 f64 (f64.const 16777217))
  (global $g_f64_25 (mut f64) (f64.const 9007199254740993))
  (global $g_f64_26 f64 (f64.const 123456789012345678901234567890))
  (global $g_f64_27 (mut f64) (f64.const 0.1))
  (global $g_f64_28 f64 (f64.const 0.30000000000000004))
  (global $g_f64_29 (mut f64) (f64.const 1_000))
  (global $g_f64_30 f64 (f64.const 1e-400))
  (global $g_f64_31 (mut f64) (f64.const -1e-400))
  (global $g_f64_32 f64 (f64.const 0x1.fffffffffffffp+1023))
  (global $g_f64_33 (mut f64) (f64.const 0x0.0000000000001p-1022))
  (func $consts_f32 (export "consts_f32") (result f32)
    f32.const 0
    f32.const -0
    f32.copysign
    f32.const 0.0
    f32.copysign
    f32.const -0.0
    f32.copysign
    f32.const -0e0
    f32.copysign
    f32.const -0x0p+0
    f32.copysign
    f32.const 1
    f32.copysign
    f32.const -1
    f32.copysign
    f32.const 1.5
    f32.copysign
    f32.const -2.25
    f32.copysign
    f32.const .5
    f32.copysign
    f32.const 5.
    f32.copysign
    f32.const 1e10
    f32.copysign
    f32.const 1E5
    f32.copysign
    f32.const 1e-10
    f32.copysign
    f32.const 0x1p-3
    f32.copysign
    f32.const -0x1.8p1
    f32.copysign
    f32.const 1e-45
    f32.copysign
    f32.const -1e-45
    f32.copysign
    f32.const 1.401298464324817e-45
    f32.copysign
    f32.const 1.1754942e-38
    f32.copysign
    f32.const 1.1754943508222875e-38
    f32.copysign
    f32.const 3.4028234663852886e+38
    f32.copysign
    f32.const -3.4028235e38
    f32.copysign
    f32.const 16777216
    f32.copysign
    f32.const 16777217
    f32.copysign
    f32.const 9007199254740993
    f32.copysign
    f32.const 123456789012345678901234567890
    f32.copysign
    f32.const 0.1
    f32.copysign
    f32.const 0.30000000000000004
    f32.copysign
    f32.const 1_000
    f32.copysign
    f32.const 1e-400
    f32.copysign
    f32.const -1e-400
    f32.copysign
  )
  (func $consts_f64 (export "consts_f64") (result f64)
    f64.const 0
    f64.const -0
    f64.copysign
    f64.const 0.0
    f64.copysign
    f64.const -0.0
    f64.copysign
    f64.const -0e0
    f64.copysign
    f64.const -0x0p+0
    f64.copysign
    f64.const 1
    f64.copysign
    f64.const -1
    f64.copysign
    f64.const 1.5
    f64.copysign
    f64.const -2.25
    f64.copysign
    f64.const .5
    f64.copysign
    f64.const 5.
    f64.copysign
    f64.const 1e10
    f64.copysign
    f64.const 1E5
    f64.copysign
    f64.const 1e-10
    f64.copysign
    f64.const 0x1p-3
    f64.copysign
    f64.const -0x1.8p1
    f64.copysign
    f64.const 5e-324
    f64.copysign
    f64.const -5e-324
    f64.copysign
    f64.const 4.9406564584124654e-324
    f64.copysign
    f64.const 2.2250738585072014e-308
    f64.copysign
    f64.const 2.225073858507201e-308
    f64.copysign
    f64.const 1.7976931348623157e+308
    f64.copysign
    f64.const -1.7976931348623157e308
    f64.copysign
    f64.const 16777217
    f64.copysign
    f64.const 9007199254740993
    f64.copysign
    f64.const 123456789012345678901234567890
    f64.copysign
    f64.const 0.1
    f64.copysign
    f64.const 0.30000000000000004
    f64.copysign
    f64.const 1_000
    f64.copysign
    f64.const 1e-400
    f64.copysign
    f64.const -1e-400
    f64.copysign
    f64.const 0x1.fffffffffffffp+1023
    f64.copysign
    f64.const 0x0.0000000000001p-1022
    f64.copysign
  )
)
