package main

type S struct {
	a int32
	b string
}

type I interface {
	M() int32
}

type A struct{ x int32 }

func (a A) M() int32 { return a.x }

var strs = [3]string{"a", "bb", "ccc"}


func main() {
	s := []string{strs[16 % 3], strs[17 % 3]}
	for _, v := range s {
		println(v)
	}
}
