package main

type S struct {
	a int32
	b string
}

type I interface {
	M() int32
}

type A struct{ x int32 }

func (a A) M() int32 { return a.x }

var strs = [3]string{"a", "bb", "ccc"}

type W struct {
	f S
	n int32
}

func main() {
	w := W{f: S{int32(3), "x"}}
	w.n = 5
	println(w.f.a, w.n)
}
