package main

type S struct {
	a int32
	b string
}

type I interface {
	M() int32
}

type A struct{ x int32 }

func (a A) M() int32 { return a.x }

var strs = [3]string{"a", "bb", "ccc"}


func main() {
	var e interface{} = []int32{int32(13), 2, 3}
	v := e.([]int32)
	println(v[0] + int32(len(v)))
}
