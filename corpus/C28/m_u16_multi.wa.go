package main

type S struct {
	a int32
	b string
}

type I interface {
	M() int32
}

type A struct{ x int32 }

func (a A) M() int32 { return a.x }

var strs = [3]string{"a", "bb", "ccc"}

func two(i int) (uint16, int32) {
	return uint16(i * 1000), 1
}

func main() {
	a, b := two(10)
	println(a, b)
}
