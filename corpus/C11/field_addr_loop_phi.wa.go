package main

type Node struct {
	val  int
	next *Node
}

// walk reads through p three times; from the second iteration on p is the
// address of a field of n.next, taken inside the loop body.
func walk(n *Node) int {
	p := &n.val
	s := 0
	for i := 0; i < 3; i++ {
		s += *p
		p = &n.next.val
	}
	return s
}

func main() {
	n := &Node{val: 1}
	n.next = &Node{val: 10}
	println(walk(n)) // 1 + 10 + 10
	m := &Node{val: 77}
	m2 := &Node{val: 78}
	println(n.next.val, m.val, m2.val) // 10 77 78
}
