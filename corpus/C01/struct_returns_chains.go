package main

// Functions returning structs / pointers; field access and method calls on
// results; structs containing structs returned by value are copies.

type Vec struct{ x, y int }
type Body struct {
	pos, vel Vec
	name     string
}
type Bodies []Body
type World struct {
	bodies Bodies
	origin Vec
}

func (v *Vec) add(o Vec)       { v.x += o.x; v.y += o.y }
func (v *Vec) scaled(k int) Vec { return Vec{v.x * k, v.y * k} }
func (b *Body) step()          { b.pos.add(b.vel) }
func (w *World) first() *Body  { return &w.bodies[0] }
func (w *World) copyOf(i int) Body { return w.bodies[i] }
func (w *World) originV() Vec  { return w.origin }
func (w *World) originP() *Vec { return &w.origin }

func plus(a, b Vec) Vec { return Vec{a.x + b.x, a.y + b.y} }
func mkBody(n string, px, py int) Body {
	return Body{Vec{px, py}, Vec{1, 1}, n}
}

func main() {
	w := &World{origin: Vec{100, 200}}
	w.bodies = append(w.bodies, mkBody("a", 0, 0), mkBody("b", 10, 10))

	w.first().step()
	w.first().step()
	println(w.bodies[0].pos.x, w.bodies[0].pos.y)

	c := w.copyOf(0)
	c.step()
	c.name = "copy"
	println(c.pos.x, w.bodies[0].pos.x, w.bodies[0].name)

	println(w.copyOf(1).pos.y, w.copyOf(1).name, w.first().vel.x)

	ov := w.originV()
	ov.x = 1
	w.originP().y = 2
	println(w.origin.x, w.origin.y, ov.x)

	s := plus(w.originV(), w.first().pos)
	println(s.x, s.y)
	println(plus(Vec{1, 2}, Vec{3, 4}).y, plus(plus(s, s), s).x)
	sc := s.scaled(3)
	println(sc.x, sc.y, s.x)

	// modifying via index vs via range copy
	for _, b := range w.bodies {
		b.step()
	}
	println(w.bodies[1].pos.x)
	for i := range w.bodies {
		w.bodies[i].step()
	}
	println(w.bodies[1].pos.x)

	// pointer into slice element, then append may move the slice
	w.bodies = w.bodies[:2:2]
	p := w.first()
	w.bodies = append(w.bodies, mkBody("c", 0, 0))
	p.name = "old-a"
	println(w.bodies[0].name, p.name, len(w.bodies))

	// struct values in nested literals and returned from closures
	mk := func(i int) Body { return Body{pos: Vec{i, i * 2}, name: "gen"} }
	bs := []Body{mk(1), mk(2)}
	bs[0].pos = bs[1].pos
	bs[1].pos.x = 99
	println(bs[0].pos.x, bs[0].pos.y, bs[1].pos.x)

	// nested struct assignment as a whole
	var b Body
	b.pos = Vec{1, 2}
	b.vel = b.pos
	b.pos.x = 50
	println(b.vel.x, b.pos.x)
	b = Body{}
	println(b.pos.x, b.vel.y, b.name == "")
}
