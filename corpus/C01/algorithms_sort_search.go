package main

// Classic algorithms exercising slices, recursion, closures and swaps.

type IS []int32

func insertion(a IS) {
	for i := 1; i < len(a); i++ {
		v := a[i]
		j := i - 1
		for ; j >= 0 && a[j] > v; j-- {
			a[j+1] = a[j]
		}
		a[j+1] = v
	}
}

func quick(a IS) {
	if len(a) < 2 {
		return
	}
	p := a[len(a)/2]
	i, j := 0, len(a)-1
	for i <= j {
		for a[i] < p {
			i++
		}
		for a[j] > p {
			j--
		}
		if i <= j {
			a[i], a[j] = a[j], a[i]
			i++
			j--
		}
	}
	quick(a[:j+1])
	quick(a[i:])
}

func merge(a IS) IS {
	if len(a) <= 1 {
		return a
	}
	m := len(a) / 2
	l, r := merge(a[:m]), merge(a[m:])
	out := make(IS, 0, len(a))
	i, j := 0, 0
	for i < len(l) && j < len(r) {
		if l[i] <= r[j] {
			out = append(out, l[i])
			i++
		} else {
			out = append(out, r[j])
			j++
		}
	}
	out = append(out, l[i:]...)
	return append(out, r[j:]...)
}

func heapsort(a IS) {
	sift := func(lo, hi int) {
		root := lo
		for {
			child := 2*root + 1
			if child >= hi {
				return
			}
			if child+1 < hi && a[child] < a[child+1] {
				child++
			}
			if a[root] >= a[child] {
				return
			}
			a[root], a[child] = a[child], a[root]
			root = child
		}
	}
	n := len(a)
	for i := n/2 - 1; i >= 0; i-- {
		sift(i, n)
	}
	for i := n - 1; i > 0; i-- {
		a[0], a[i] = a[i], a[0]
		sift(0, i)
	}
}

func bsearch(a IS, v int32) int {
	lo, hi := 0, len(a)
	for lo < hi {
		mid := lo + (hi-lo)/2
		if a[mid] < v {
			lo = mid + 1
		} else {
			hi = mid
		}
	}
	if lo < len(a) && a[lo] == v {
		return lo
	}
	return -1
}

func gen(n int) IS {
	a := make(IS, n)
	var x uint32 = 12345
	for i := range a {
		x = x*1103515245 + 12345
		a[i] = int32(x>>16) % 1000
	}
	return a
}

func check(a IS) (bool, int32) {
	var h int32
	ok := true
	for i, v := range a {
		if i > 0 && a[i-1] > v {
			ok = false
		}
		h = h*31 + v
	}
	return ok, h
}

func main() {
	for _, n := range []int{0, 1, 2, 17, 200} {
		a, b, c, d := gen(n), gen(n), gen(n), gen(n)
		insertion(a)
		quick(b)
		c = merge(c)
		heapsort(d)
		ok1, h1 := check(a)
		ok2, h2 := check(b)
		ok3, h3 := check(c)
		ok4, h4 := check(d)
		println(n, ok1, ok2, ok3, ok4, h1, h1 == h2, h2 == h3, h3 == h4)
	}
	a := gen(50)
	quick(a)
	println(bsearch(a, a[0]) >= 0, bsearch(a, a[49]) >= 0, bsearch(a, -5), bsearch(a, 5000))
	pos := bsearch(a, a[25])
	println(a[pos] == a[25], pos <= 25)
}
