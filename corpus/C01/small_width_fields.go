package main

// uint8/uint16 stored in struct fields, arrays and slices: stores truncate,
// neighbours are not disturbed, loads zero-extend.

type Packed struct {
	a uint8
	b uint16
	c uint8
	d uint32
	e uint8
	f int64
	g uint16
}
type A8 [5]uint8
type A16 [3]uint16

func main() {
	var p Packed
	p.a = 255
	p.b = 65535
	p.c = 1
	p.d = 0xffffffff
	p.e = 2
	p.f = -1
	p.g = 3
	println(p.a, p.b, p.c, p.d, p.e, p.f, p.g)
	p.b = 0
	println(p.a, p.b, p.c)
	p.a++
	p.c--
	println(p.a, p.b, p.c, p.d, p.e)
	p.d++
	println(p.c, p.d, p.e)
	p.f = 1 << 40
	println(p.e, p.f, p.g)
	p.g += 65533
	println(p.g, p.f)

	var x int32 = 0x12345678
	p.a = uint8(x)
	p.b = uint16(x)
	println(p.a, p.b, p.c)

	var a A8
	for i := range a {
		a[i] = uint8(250 + i*3)
	}
	println(a[0], a[1], a[2], a[3], a[4])
	a[2] = 0
	a[1] += 100
	println(a[0], a[1], a[2], a[3])

	var w A16
	w[0], w[1], w[2] = 1, 65535, 2
	w[1]++
	println(w[0], w[1], w[2])
	w[1]--
	w[0] -= 2
	println(w[0], w[1], w[2])

	bs := make([]uint8, 4)
	bs[1] = 0xff
	bs[2] = uint8(300 % 256)
	bs[0] = bs[1] + bs[2]
	println(bs[0], bs[1], bs[2], bs[3])
	ws := []uint16{0xffff, 0, 0xffff}
	ws[1] = ws[0] + ws[2]
	ws[0] *= 2
	println(ws[0], ws[1], ws[2])

	// copies of packed structs
	q := p
	q.a = 7
	q.g = 9
	println(p.a, p.g, q.a, q.g, q.b, q.d)
	arr := [2]Packed{p, q}
	arr[0].c = 200
	arr[1].e = 201
	println(arr[0].c, arr[0].e, arr[1].c, arr[1].e, arr[1].a)

	// pointers to narrow fields
	pa := &p.a
	pb := &p.b
	*pa = 17
	*pb = 1717
	*pa += 250
	println(p.a, p.b, p.c)

	// bools next to bytes
	type BB struct {
		f1 bool
		n  uint8
		f2 bool
	}
	bb := BB{true, 255, false}
	bb.n++
	bb.f2 = !bb.f2
	println(bb.f1, bb.n, bb.f2)

	// arithmetic promotion does not happen: stays uint8
	var u, v uint8 = 200, 100
	avg := (u + v) / 2
	avg2 := uint8((uint16(u) + uint16(v)) / 2)
	println(avg, avg2)
}
