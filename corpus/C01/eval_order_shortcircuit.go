package main

// && and || evaluate the right operand only when needed.

var trace string
var count int

func tb(name string, v bool) bool {
	trace += name
	count++
	return v
}

func flush() {
	println(trace, count)
	trace = ""
	count = 0
}

func main() {
	println(tb("a", true) && tb("b", true))
	flush()
	println(tb("a", false) && tb("b", true))
	flush()
	println(tb("a", true) || tb("b", true))
	flush()
	println(tb("a", false) || tb("b", false))
	flush()
	println(tb("a", false) || tb("b", true) && tb("c", false))
	flush()
	println((tb("a", false) || tb("b", true)) && tb("c", false))
	flush()
	println(tb("a", true) && tb("b", false) || tb("c", true) && tb("d", true))
	flush()
	println(!tb("a", true) || !tb("b", false))
	flush()

	if tb("a", true) && !tb("b", true) {
		println("then")
	} else if tb("c", false) || tb("d", true) {
		println("elseif")
	} else {
		println("else")
	}
	flush()

	// guards
	var p *int
	if p != nil && *p > 0 {
		println("deref")
	} else {
		println("guarded")
	}
	s := []int{}
	if len(s) > 0 && s[0] == 1 {
		println("idx")
	} else {
		println("empty")
	}
	x := 0
	if x != 0 && 10/x > 1 {
		println("div")
	} else {
		println("nodiv")
	}

	// loops
	i := 0
	for i < 5 && tb("l", i != 3) {
		i++
	}
	println(i)
	flush()

	n := 0
	for j := 0; j < 4; j++ {
		if j%2 == 0 || tb("o", true) {
			n++
		}
	}
	println(n)
	flush()

	// as values
	v := tb("a", false) && tb("b", true)
	w := tb("c", true) || tb("d", true)
	println(v, w)
	flush()

	// nested in arguments
	both := func(a, b bool) int {
		r := 0
		if a {
			r += 1
		}
		if b {
			r += 2
		}
		return r
	}
	println(both(tb("a", true) && tb("b", true), tb("c", false) || tb("d", false)))
	flush()
}
