package main

// Block scopes, shadowing in if/for/switch init statements, := partial
// redeclaration, closures over shadowed names.

var x = "global"

func get() (int, bool) { return 5, true }

func main() {
	println(x)
	x := 1
	println(x)
	{
		x := 2
		x++
		println(x)
		{
			x := x * 10
			println(x)
		}
		println(x)
	}
	println(x)

	if x := 100; x > 50 {
		println(x)
		x := 7
		println(x)
	} else if y := x * 2; y > 0 {
		println(y)
	} else {
		println(x, y)
	}
	println(x)

	if v, ok := get(); ok {
		x := v + x
		println(x)
	}
	println(x)

	for x := 0; x < 2; x++ {
		x := x * 5
		println(x)
	}
	println(x)

	switch x := x + 1; x {
	case 2:
		x := "two"
		println(x)
	}
	println(x)

	// partial redeclaration: a is reused, b is new
	a, err := 1, "e1"
	a, b := 2, "b"
	println(a, b, err)
	{
		a, c := 3, "c" // new a in this block
		println(a, c)
	}
	println(a)

	// closures see the variable of their scope
	f := func() int { return x }
	{
		x := 50
		g := func() int { return x }
		x++
		println(f(), g())
	}
	x = 9
	println(f())

	// parameter shadowed by local
	h := func(n int) int {
		if n > 0 {
			n := n * 2
			return n
		}
		return n
	}
	println(h(4), h(-4))

	// shadowing a function and a type name locally
	get := func() int { return 77 }
	println(get())
	type int32 string
	var s int32 = "not a number"
	println(s)

	// loop body scope is fresh every iteration
	total := 0
	for i := 0; i < 3; i++ {
		var fresh int
		fresh += i
		total += fresh
	}
	println(total)

	// label names live in their own namespace
x:
	for i := 0; i < 2; i++ {
		for {
			continue x
		}
	}
	println(x)
}
