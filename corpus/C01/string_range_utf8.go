package main

// range over strings with multi-byte (valid) UTF-8: byte offsets and
// code points.  (Invalid UTF-8 is a known finding and lives elsewhere.)

func main() {
	s := "aé世𝄞z"
	println(len(s))
	for i, r := range s {
		println(i, int(r))
	}
	n := 0
	for range s {
		n++
	}
	println(n)
	for i := range s {
		println(i, s[i])
	}

	// bytes
	for i := 0; i < len(s); i++ {
		println(i, s[i])
	}

	// 1,2,3,4 byte boundaries
	for _, cp := range []rune{0x7f, 0x80, 0x7ff, 0x800, 0xffff, 0x10000, 0x10ffff} {
		t := string(cp)
		back := []rune(t)
		println(int(cp), len(t), t[0], len(back), int(back[0]))
	}

	// empty string
	for i, r := range "" {
		println("never", i, int(r))
	}

	// break/continue inside
	cnt := 0
	for i, r := range "héllo wörld" {
		if r == ' ' {
			continue
		}
		if r == 'r' {
			println("r at", i)
			break
		}
		cnt++
	}
	println(cnt)

	// range over substring starting at a rune boundary
	sub := s[3:]
	for i, r := range sub {
		println(i, int(r))
	}

	// rune literal kinds
	println(int('a'), int('\n'), int('\x41'), int('é'), int('世'), int('\''), int('\\'))
}
