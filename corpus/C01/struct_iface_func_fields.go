package main

// Structs whose fields are interfaces, funcs, slices, maps and strings:
// literal overwrite zeroes them, copies share references, comparison with nil.

type Namer interface{ Name() string }
type N struct{ s string }

func (n *N) Name() string { return n.s }

type SS []string

type Rec struct {
	id   int
	who  Namer
	any  interface{}
	fn   func(int) int
	tags SS
	attr map[string]int
	note string
	next *Rec
}

func describe(r *Rec) {
	who := "-"
	if r.who != nil {
		who = r.who.Name()
	}
	fn := -1
	if r.fn != nil {
		fn = r.fn(r.id)
	}
	println(r.id, who, r.any == nil, fn, len(r.tags), len(r.attr), r.note == "", r.next == nil)
}

func main() {
	var z Rec
	describe(&z)

	full := Rec{
		id:   7,
		who:  &N{"seven"},
		any:  "payload",
		fn:   func(x int) int { return x * x },
		tags: SS{"a", "b"},
		attr: map[string]int{"k": 1},
		note: "n",
		next: &z,
	}
	describe(&full)

	// copy shares references
	cp := full
	cp.tags[0] = "changed"
	cp.attr["k"] = 2
	cp.who.(*N).s = "renamed"
	cp.note = "copy"
	cp.id = 8
	println(full.tags[0], full.attr["k"], full.who.Name(), full.note, full.id, cp.fn(cp.id))

	// overwrite with partial literal zeroes all other fields
	full = Rec{id: 9}
	describe(&full)
	describe(&cp)

	// fields set one by one, then cleared
	var r Rec
	r.who = &N{"r"}
	r.any = 5
	r.fn = func(x int) int { return x + 1 }
	r.tags = append(r.tags, "t")
	r.attr = map[string]int{}
	r.attr["z"] = 26
	r.next = &r
	describe(&r)
	println(r.next.next.next == &r, r.any.(int), r.next.attr["z"])
	r.who, r.any, r.fn, r.tags, r.next = nil, nil, nil, nil, nil
	describe(&r)

	// slices of such structs: zeroed elements, element copy
	rs := make([]Rec, 2)
	describe(&rs[1])
	rs[0] = cp
	rs[1] = rs[0]
	rs[1].note = "second"
	println(rs[0].note, rs[1].note, rs[1].who.Name(), len(rs[1].tags))
	rs = append(rs[:1], Rec{id: 3})
	describe(&rs[1])

	// returned by value from a function
	mk := func(id int) Rec { return Rec{id: id, note: "mk", any: id} }
	a, b := mk(1), mk(2)
	println(a.any.(int), b.any.(int), a.note == b.note, a.any == b.any)
}
