package main

// Array and slice literals: keyed, partial, [...], nested, of structs.

type P struct{ x, y int }

func main() {
	a := [5]int{1, 2, 3}
	println(a[0], a[1], a[2], a[3], a[4], len(a))

	b := [...]int{4, 5, 6, 7}
	println(len(b), b[3])

	c := [6]int{1: 10, 4: 40}
	println(c[0], c[1], c[2], c[3], c[4], c[5])

	d := [...]int{2: 5, 6, 0: 1}
	println(len(d), d[0], d[1], d[2], d[3])

	e := []int{3: 9}
	println(len(e), cap(e), e[0], e[3])

	f := []string{"a", 2: "c", "d"}
	println(len(f), f[0], f[1] == "", f[2], f[3])

	g := [2][3]int{{1, 2, 3}, {4, 5}}
	println(g[0][2], g[1][0], g[1][2])

	h := [][]int{{1}, {2, 3}, {}, nil}
	println(len(h), len(h[0]), len(h[1]), len(h[2]), len(h[3]), h[2] == nil, h[3] == nil)

	ps := []P{{1, 2}, {x: 3}, {y: 4}, {}}
	for _, p := range ps {
		println(p.x, p.y)
	}

	pp := []*P{{1, 2}, {y: 5}}
	println(pp[0].x, pp[1].y)

	arrp := [2]*P{{7, 8}}
	println(arrp[0].y, arrp[1] == nil)

	// array literal assigned over non-zero storage
	var arr [3]P
	arr[0] = P{1, 1}
	arr[1] = P{2, 2}
	arr[2] = P{3, 3}
	arr = [3]P{1: {x: 9}}
	println(arr[0].x, arr[0].y, arr[1].x, arr[1].y, arr[2].x, arr[2].y)

	// literal reading its own destination
	arr2 := [3]int{1, 2, 3}
	arr2 = [3]int{arr2[2], arr2[1], arr2[0]}
	println(arr2[0], arr2[1], arr2[2])

	sl := []int{1, 2, 3}
	sl = []int{sl[2], sl[0]}
	println(len(sl), sl[0], sl[1])

	// literals in a loop are distinct
	var rows [][]int
	for i := 0; i < 3; i++ {
		rows = append(rows, []int{i, i * i})
	}
	rows[0][0] = 50
	for _, r := range rows {
		println(r[0], r[1])
	}

	// array literal indexed directly
	println([3]int{7, 8, 9}[1], []string{"x", "y"}[1], len([]int{1, 2, 3}[1:]))

	// byte and bool arrays
	bs := [4]byte{1, 255}
	fl := [3]bool{1: true}
	println(bs[0], bs[1], bs[2], fl[0], fl[1], fl[2])

	// const keyed
	const k = 2
	ck := [4]int{k: 5, k + 1: 6}
	println(ck[1], ck[2], ck[3])
}
