package main

// Type switches: single types, several types per case, nil case, default,
// interface cases, bound variable typing, no-variable form.

type P struct{ x int }
type Str interface{ Str() string }
type Num interface{ Num() int }

type A struct{ s string }

func (a *A) Str() string { return "A:" + a.s }

type B struct{ n int }

func (b *B) Num() int    { return b.n }
func (b *B) Str() string { return "B" }

func classify(e interface{}) string {
	switch v := e.(type) {
	case nil:
		return "nil"
	case int32:
		if v > 10 {
			return "big int32"
		}
		return "int32"
	case int64, uint64:
		_ = v
		return "64-bit"
	case uint8, uint16, uint32:
		return "small unsigned"
	case string:
		return "string:" + v
	case bool:
		if v {
			return "true"
		}
		return "false"
	case float32, float64:
		return "float"
	case P:
		return "P value"
	case *P:
		v.x++
		return "*P"
	case []int:
		return "slice"
	case map[string]int:
		return "map"
	case func() int:
		return "func"
	case Num:
		return "Num"
	case Str:
		return v.Str()
	default:
		return "other"
	}
}

func noVar(e interface{}) int {
	switch e.(type) {
	case int32, int64:
		return 1
	case string:
		return 2
	case nil:
		return 3
	}
	return 0
}

func ifaceFirst(e interface{}) string {
	switch v := e.(type) {
	case Str:
		return "Str:" + v.Str()
	case *B:
		return "unreachable for *B"
	case Num:
		return "Num"
	}
	return "none"
}

func main() {
	p := &P{1}
	var vals []interface{}
	vals = []interface{}{nil, int32(5), int32(50), int64(1), uint64(1), uint8(1), uint16(1), uint32(1),
		"s", true, false, float32(1), 1.5, P{1}, p, []int{1}, map[string]int{}, func() int { return 1 },
		&A{"a"}, &B{2}, []string{}, &vals}
	for i, v := range vals {
		println(i, classify(v))
	}
	println(p.x)
	println(noVar(int32(1)), noVar(int64(1)), noVar("s"), noVar(nil), noVar(1.5))
	println(ifaceFirst(&A{"x"}), ifaceFirst(&B{1}), ifaceFirst(5))

	// switch on a non-empty interface
	var s Str = &B{3}
	switch v := s.(type) {
	case *A:
		println("A", v.s)
	case *B:
		println("B", v.n)
	}
	switch s.(type) {
	case Num:
		println("also Num")
	default:
		println("not Num")
	}

	// with init statement and shadowing
	switch x := interface{}(int32(7)); y := x.(type) {
	case int32:
		println(y + 1)
	default:
		_ = y
	}
}
