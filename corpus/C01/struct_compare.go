package main

// Struct equality: field-wise, including strings, pointers, nested
// structs and interfaces.

type In struct {
	a int
	s string
}
type S struct {
	n  int
	in In
	p  *int
	b  bool
	i6 int64
}
type E struct {
	e interface{}
	k uint8
}

func main() {
	x, y := 1, 1
	a := S{1, In{2, "s"}, &x, true, 1 << 40}
	b := S{1, In{2, "s"}, &x, true, 1 << 40}
	println(a == b, a != b)
	b.p = &y
	println(a == b)
	b.p = &x
	b.in.s = "t"
	println(a == b)
	b.in.s = "s"
	b.i6++
	println(a == b)
	b.i6--
	println(a == b)
	b.b = false
	println(a == b, a != b)

	// built strings compare by content
	s1 := "ab"
	s2 := "a"
	s2 += "b"
	println(In{1, s1} == In{1, s2})

	println(In{} == In{}, In{1, ""} == In{}, In{0, "x"} != In{})

	e1 := E{1, 2}
	e2 := E{1, 2}
	e3 := E{"1", 2}
	e4 := E{int64(1), 2} // (int vs int32 dynamic types are identical in Wa: defects/iface_int_int32_identity.go)
	e5 := E{nil, 2}
	println(e1 == e2, e1 == e3, e1 == e4, e1 == e5, e5 == E{k: 2})

	// struct in interface
	var i1 interface{} = In{1, "q"}
	var i2 interface{} = In{1, "q"}
	var i3 interface{} = In{2, "q"}
	println(i1 == i2, i1 == i3, i1 != i3)

	// pointer to struct compare identity
	pa, pb := &a, &a
	c := a
	pc := &c
	println(pa == pb, pa == pc, *pa == *pc)

	// struct as map key
	m := map[In]int{}
	m[In{1, "a"}] = 1
	m[In{1, "b"}] = 2
	m[In{1, s2[:1]}] += 10
	println(len(m), m[In{1, "a"}], m[In{1, "b"}])
}
