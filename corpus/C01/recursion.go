package main

// Recursion: deep, mutual, multiple results, through slices and pointers.

type Node struct {
	v           int
	left, right *Node
}

func insert(n *Node, v int) *Node {
	if n == nil {
		return &Node{v: v}
	}
	if v < n.v {
		n.left = insert(n.left, v)
	} else {
		n.right = insert(n.right, v)
	}
	return n
}

func inorder(n *Node, visit func(int)) {
	if n == nil {
		return
	}
	inorder(n.left, visit)
	visit(n.v)
	inorder(n.right, visit)
}

func height(n *Node) int {
	if n == nil {
		return 0
	}
	l, r := height(n.left), height(n.right)
	if l > r {
		return l + 1
	}
	return r + 1
}

func depth(n int) int {
	if n == 0 {
		return 0
	}
	return depth(n-1) + 1
}

func isEven(n int) bool {
	if n == 0 {
		return true
	}
	return isOdd(n - 1)
}

func isOdd(n int) bool {
	if n == 0 {
		return false
	}
	return isEven(n - 1)
}

func ack(m, n int) int {
	if m == 0 {
		return n + 1
	}
	if n == 0 {
		return ack(m-1, 1)
	}
	return ack(m-1, ack(m, n-1))
}

func fibPair(n int) (int64, int64) {
	if n == 0 {
		return 0, 1
	}
	a, b := fibPair(n - 1)
	return b, a + b
}

type IS []int

func perms(a IS, k int, out *int) {
	if k == len(a) {
		h := 0
		for _, v := range a {
			h = h*10 + v
		}
		*out = (*out*31 + h) % 1000003
		return
	}
	for i := k; i < len(a); i++ {
		a[k], a[i] = a[i], a[k]
		perms(a, k+1, out)
		a[k], a[i] = a[i], a[k]
	}
}

func hanoi(n int, from, to, via string, moves *int, last *string) {
	if n == 0 {
		return
	}
	hanoi(n-1, from, via, to, moves, last)
	*moves++
	*last = from + to
	hanoi(n-1, via, to, from, moves, last)
}

func sumSlice(s IS) int {
	if len(s) == 0 {
		return 0
	}
	return s[0] + sumSlice(s[1:])
}

func main() {
	var root *Node
	for _, v := range []int{50, 30, 70, 20, 40, 60, 80, 35, 45, 65} {
		root = insert(root, v)
	}
	s := ""
	cnt := 0
	inorder(root, func(v int) {
		cnt++
		s += string(rune('0'+v/10)) + string(rune('0'+v%10)) + " "
	})
	println(s, cnt, height(root))

	println(depth(5000))
	println(isEven(1000), isOdd(1000), isEven(777))
	println(ack(2, 3), ack(3, 3))
	a, b := fibPair(80)
	println(a, b)
	h := 0
	perms(IS{1, 2, 3, 4, 5}, 0, &h)
	println(h)
	moves, last := 0, ""
	hanoi(10, "A", "C", "B", &moves, &last)
	println(moves, last)
	println(sumSlice(IS{1, 2, 3, 4, 5, 6, 7, 8, 9, 10}))
}
