package main

// Named results: bare return, zero initialisation, use as ordinary variables.

func zeroes() (a int, b string, c bool, d int64) {
	return
}

func sumTo(n int) (s int) {
	for i := 1; i <= n; i++ {
		s += i
	}
	return
}

func minmax(x, y, z int) (lo, hi int) {
	lo, hi = x, x
	if y < lo {
		lo = y
	}
	if z < lo {
		lo = z
	}
	if y > hi {
		hi = y
	}
	if z > hi {
		hi = z
	}
	return
}

func early(n int) (r int, ok bool) {
	if n < 0 {
		return
	}
	r = n * 2
	if n > 100 {
		r = 100
		return
	}
	ok = true
	return
}

func mixed(n int) (r int, s string) {
	r = n
	s = "init"
	if n == 1 {
		return 10, "one"
	}
	if n == 2 {
		r = 20
		return
	}
	if n == 3 {
		s = "three"
		return r + 1, s + "!"
	}
	return
}

func loopRet(n int) (i int, found bool) {
	for i = 0; i < 10; i++ {
		if i*i >= n {
			found = true
			return
		}
	}
	return
}

func main() {
	a, b, c, d := zeroes()
	println(a, b == "", len(b), c, d)
	println(sumTo(0), sumTo(1), sumTo(10), sumTo(100))
	lo, hi := minmax(3, 1, 2)
	println(lo, hi)
	lo, hi = minmax(-5, 7, 0)
	println(lo, hi)
	for _, n := range []int{-1, 0, 5, 101} {
		r, ok := early(n)
		println(n, r, ok)
	}
	for n := 0; n < 5; n++ {
		r, s := mixed(n)
		println(n, r, s)
	}
	i, f := loopRet(17)
	println(i, f)
	i, f = loopRet(1000)
	println(i, f)
}
