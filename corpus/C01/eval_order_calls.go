package main

// Function calls in one expression/statement are evaluated in lexical
// left-to-right order.

var trace string

func t(name string, v int) int {
	trace += name
	return v
}

func ts(name string, v string) string {
	trace += name
	return v
}

func tb(name string, v bool) bool {
	trace += name
	return v
}

func add3(a, b, c int) int { return a + b + c }

type IS []int

func getS(name string, s IS) IS {
	trace += name
	return s
}

func getM(name string, m map[int]int) map[int]int {
	trace += name
	return m
}

type P struct{ x, y, z int }

func flush() {
	println(trace)
	trace = ""
}

func main() {
	r := t("a", 1) + t("b", 2)*t("c", 3)
	println(r)
	flush()

	r = add3(t("a", 1), t("b", 2), t("c", 3))
	println(r)
	flush()

	r = t("a", 10) - (t("b", 3) - t("c", 1))
	println(r)
	flush()

	s := IS{0, 0, 0, 0}
	getS("s", s)[t("i", 1)] = t("v", 5)
	println(s[1])
	flush()

	m := map[int]int{}
	getM("m", m)[t("k", 3)] = t("v", 9)
	println(m[3])
	flush()

	p := P{t("x", 1), t("y", 2), t("z", 3)}
	println(p.x, p.y, p.z)
	flush()

	q := P{z: t("z", 3), x: t("x", 1)}
	println(q.x, q.y, q.z)
	flush()

	arr := [3]int{t("0", 5), t("1", 6), t("2", 7)}
	println(arr[0], arr[1], arr[2])
	flush()

	sl := []int{2: t("a", 1), 0: t("b", 2)}
	println(sl[0], sl[1], sl[2])
	flush()

	str := ts("a", "x") + ts("b", "y") + ts("c", "z")
	println(str)
	flush()

	a, b := t("p", 1), t("q", 2)
	println(a, b)
	flush()

	s[t("i", 0)], s[t("j", 1)] = t("v", 7), t("w", 8)
	println(s[0], s[1])
	flush()

	println(t("x", 1), t("y", 2), t("z", 3))
	flush()

	ok := tb("a", true) == tb("b", false)
	println(ok)
	flush()

	r = getS("s", s)[t("i", 1)] + getS("t", s)[t("j", 0)]
	println(r)
	flush()

	f := func(name string) func(int) int {
		trace += name
		return func(v int) int { return v * 2 }
	}
	r = f("f")(t("a", 4)) + f("g")(t("b", 5))
	println(r)
	flush()
}
