package main

// String indexing, slicing, concatenation, comparison, len.

func main() {
	s := "hello, world"
	println(len(s), s[0], s[4], s[len(s)-1])
	println(s[:5], s[7:], s[3:8], s[:], s[5:5] == "", len(s[12:]))

	// concatenation
	a, b := "foo", "bar"
	c := a + b
	println(c, len(c))
	c += "!"
	c = "<" + c + ">"
	println(c)
	e := ""
	for i := 0; i < 5; i++ {
		e += "ab"
	}
	println(e, len(e))
	println("" + "" == "", a+"" == a)

	// strings are immutable values: slices of them do not change
	t := s[0:5]
	s = "changed"
	println(t, s)

	// comparison
	println("a" < "b", "a" < "a", "a" <= "a", "ab" < "abc", "abc" < "abd", "b" > "abc")
	println("" < "a", "" == "", "A" < "a", "Z" < "a", "10" < "9")
	x, y := "same", "sa"
	y += "me"
	println(x == y, x != y, x <= y, x >= y, x < y)

	// comparison chain used for sorting
	words := []string{"pear", "apple", "fig", "banana", "apple2", ""}
	for i := 1; i < len(words); i++ {
		for j := i; j > 0 && words[j] < words[j-1]; j-- {
			words[j], words[j-1] = words[j-1], words[j]
		}
	}
	for _, w := range words {
		println("[" + w + "]")
	}

	// bytes of strings
	sum := 0
	for i := 0; i < len(t); i++ {
		sum += int(t[i])
	}
	println(sum)

	// escapes
	esc := "tab\tnl\\n\"q\"\x41\101A"
	println(len(esc), esc[3], esc[len(esc)-1])
	raw := `raw\n"x"`
	println(len(raw), raw)

	// string in switch
	for _, w := range []string{"a", "bb", "", "zz"} {
		switch w {
		case "a":
			println("is a")
		case "bb", "cc":
			println("is bb/cc")
		case "":
			println("is empty")
		default:
			println("other", w)
		}
	}

	// strings as function values
	rep := func(s string, n int) string {
		r := ""
		for i := 0; i < n; i++ {
			r += s
		}
		return r
	}
	println(rep("xy", 3), len(rep("", 10)), rep("q", 0) == "")

	// substrings compare equal to literals
	h := "hello"
	println(h[1:3] == "el", h[:0] == "", h[2:] == "llo")
}
