package main

// Variadic functions: zero args, many args, slice..., nil..., aliasing of
// the passed slice, variadic of interfaces and strings, with leading params.

func sum(vs ...int) int {
	t := 0
	for _, v := range vs {
		t += v
	}
	return t
}

func info(vs ...int) (int, bool) { return len(vs), vs == nil }

func join(sep string, parts ...string) string {
	r := ""
	for i, p := range parts {
		if i > 0 {
			r += sep
		}
		r += p
	}
	return r
}

func modify(vs ...int) {
	if len(vs) > 0 {
		vs[0] = 99
	}
}

func count(args ...interface{}) (ints, strs, others int) {
	for _, a := range args {
		switch a.(type) {
		case int32:
			ints++
		case string:
			strs++
		default:
			others++
		}
	}
	return
}

func forward(vs ...int) int { return sum(vs...) + len(vs) }

type IS []int

func appendAll(dst IS, vs ...int) []int { return append(dst, vs...) }

type T struct{ base int }

func (t *T) addAll(vs ...int) int { return t.base + sum(vs...) }

func first(def int, vs ...int) int {
	if len(vs) == 0 {
		return def
	}
	return vs[0]
}

func main() {
	println(sum(), sum(1), sum(1, 2, 3), sum([]int{4, 5, 6}...))
	n, isNil := info()
	println(n, isNil)
	n, isNil = info(nil...)
	println(n, isNil)
	n, isNil = info([]int{}...)
	println(n, isNil)
	n, isNil = info(1, 2)
	println(n, isNil)

	println(join(", "), join(", ", "a"), join("-", "a", "b", "c"))
	words := []string{"x", "y"}
	println(join("+", words...))

	// slice... passes the slice itself; explicit args make a fresh one
	s := []int{1, 2, 3}
	modify(s...)
	println(s[0])
	a, b := 1, 2
	modify(a, b)
	println(a, b)
	modify()

	i, st, o := count(int32(1), "a", 2.5, int32(2), nil, "b", true)
	println(i, st, o)
	i, st, o = count()
	println(i, st, o)
	args := []interface{}{"only", "strings"}
	i, st, o = count(args...)
	println(i, st, o)

	println(forward(), forward(1, 2, 3))
	d := appendAll(nil, 1, 2)
	d = appendAll(d)
	d = appendAll(d, d...)
	println(len(d), d[3])

	t := &T{100}
	println(t.addAll(), t.addAll(1, 2), t.addAll(s...))
	f := t.addAll
	println(f(5))

	println(first(7), first(7, 8), first(7, 8, 9))

	// variadic closure
	maxOf := func(vs ...int) int {
		m := vs[0]
		for _, v := range vs[1:] {
			if v > m {
				m = v
			}
		}
		return m
	}
	println(maxOf(3, 9, 2), maxOf(s...))

	// evaluation order of variadic arguments
	tr := ""
	e := func(name string, v int) int { tr += name; return v }
	println(sum(e("a", 1), e("b", 2), e("c", 3)), tr)
}
