package main

// nil interface vs interface holding a nil pointer; interface equality.
// (int vs int32 inside interfaces, interfaces holding nil pointers and calls on nil
// receivers are avoided: see defects/.)

type I interface{ M() int }
type T struct{ v int }

func (t *T) M() int { return t.v }

type U struct{ v int }

func (u *U) M() int { return u.v }

func retNilIface() I { return nil }
func retMaybe(ok bool) I {
	if ok {
		return &T{5}
	}
	return nil
}

type K struct {
	a int
	s string
}

func main() {
	var i I
	println(i == nil)
	i = retNilIface()
	println(i == nil)
	i = retMaybe(true)
	println(i == nil, i.M())
	i = retMaybe(false)
	println(i == nil)

	var e interface{}
	println(e == nil)
	e = &T{1}
	println(e == nil, e == (*T)(nil), e == (*U)(nil))
	e = nil
	println(e == nil)

	// equality: same dynamic type and equal values
	t1, t2 := &T{1}, &T{1}
	var a, b I = t1, t1
	println(a == b)
	b = t2
	println(a == b, a != b)
	var u I = &U{1}
	println(a == u)

	var x, y interface{}
	x, y = int32(1), int32(1)
	println(x == y)
	y = int64(1)
	println(x == y)
	y = uint32(1)
	println(x == y)
	x, y = "ab", "a"+"b"
	println(x == y)
	s := "a"
	s += "b"
	y = s
	println(x == y)
	x, y = true, true
	println(x == y)
	x, y = K{1, "k"}, K{1, "k"}
	println(x == y)
	y = K{2, "k"}
	println(x == y)
	x, y = 1.5, 1.5
	println(x == y)
	x, y = nil, nil
	println(x == y)
	y = 0
	println(x == y)

	// interface compared with concrete value
	var z interface{} = int32(3)
	println(z == int32(3), z == int32(4), z == "3")
	var ip I = t1
	println(ip == t1, ip == t2)

	// interface holding interface value keeps the inner dynamic type
	var inner I = t1
	var outer interface{} = inner
	println(outer == interface{}(t1), outer.(*T) == t1)

	// in data structures
	es := []interface{}{1, "a", nil, t1}
	cnt := 0
	for _, v := range es {
		if v == nil {
			cnt++
		}
	}
	println(cnt, es[3] == interface{}(t1), es[0] == es[1])
}
