// DEFECT CANDIDATE: string([]byte(nil)) (conversion of the constant nil slice) panics the compiler.
//
// Wa output:
//   <nil> not a String          (Go panic inside the compiler, STATUS: panic)
// Go output:
//   0
//
// Root cause: /repo/internal/ssa/emit.go emitConv: `if _, ok := ut_dst.(*types.Basic); ok || c.IsNil()`
// turns the nil constant into NewConst(nil, string); /repo/internal/backends/compiler_wat/compile_func.go
// (case types.String: constant.StringVal(v.Value)) then panics in internal/constant/value.go:483.
// Repair: /verif/proposed_fixes/C01-string-of-nil-slice.diff (treat a nil value as "").
package main

func main() {
	println(len(string([]byte(nil))))
}
