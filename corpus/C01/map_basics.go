package main

// Map insert, update, lookup, comma-ok, zero-valued elements, len, delete
// (delete only of absent keys, minimum/maximum keys or from tiny maps:
// general delete is a known finding).

func main() {
	m := make(map[string]int)
	println(len(m))
	m["a"] = 1
	m["b"] = 2
	m["a"] = 10
	println(len(m), m["a"], m["b"], m["c"])

	v, ok := m["a"]
	println(v, ok)
	v, ok = m["zz"]
	println(v, ok)
	_, ok = m["b"]
	println(ok)

	// zero-valued element is present
	m["zero"] = 0
	v, ok = m["zero"]
	println(v, ok, len(m))

	// reading a missing key does not insert
	_ = m["ghost"]
	println(len(m))

	// compound assignment on elements, including missing ones
	m["cnt"]++
	m["cnt"]++
	m["cnt"] += 5
	m["neg"]--
	m["mul"] *= 3
	println(m["cnt"], m["neg"], m["mul"], len(m))

	// delete absent
	delete(m, "nothere")
	println(len(m))

	// tiny map delete
	t := map[int]int{1: 1}
	delete(t, 1)
	println(len(t), t[1])
	t[1] = 5
	t[2] = 6
	delete(t, 2)
	_, ok = t[2]
	println(len(t), t[1], ok)
	delete(t, 1)
	delete(t, 1)
	println(len(t))

	// delete min / max of integer keys
	im := map[int]int{}
	for i := 1; i <= 8; i++ {
		im[i] = i * i
	}
	delete(im, 1)
	delete(im, 8)
	_, ok1 := im[1]
	_, ok8 := im[8]
	println(len(im), ok1, ok8, im[2], im[7])

	// maps are references
	a := map[string]int{"k": 1}
	b := a
	b["k"] = 2
	b["n"] = 3
	println(a["k"], a["n"], len(a))
	func(mm map[string]int) { mm["f"] = 4 }(a)
	println(b["f"])

	// map of slices: append through lookup
	ms := map[string][]int{}
	ms["x"] = append(ms["x"], 1)
	ms["x"] = append(ms["x"], 2)
	ms["y"] = append(ms["y"], 3)
	println(len(ms), len(ms["x"]), len(ms["y"]), len(ms["z"]), ms["x"][1])

	// map of maps
	mm := map[string]map[string]int{}
	if len(mm["o"]) == 0 { // (map == nil: known finding nil_map_zero_value)
		mm["o"] = map[string]int{}
	}
	mm["o"]["i"] = 7
	println(mm["o"]["i"], mm["o"]["j"], len(mm["o"]))

	// map of struct values: replace whole value
	type P struct{ x, y int }
	mp := map[string]P{}
	mp["p"] = P{1, 2}
	p := mp["p"]
	p.x = 10
	println(mp["p"].x, p.x)
	mp["p"] = p
	println(mp["p"].x, mp["q"].y)

	// map of pointers: modify in place
	pp := map[string]*P{"p": {1, 2}}
	pp["p"].x = 50
	println(pp["p"].x)

	// large-ish map
	big := map[int]int{}
	for i := 0; i < 500; i++ {
		big[i*7%501] = i
	}
	s := 0
	for i := 0; i < 501; i++ {
		if v, ok := big[i]; ok {
			s += v
		}
	}
	println(len(big), s)
}
