package main

// Switch statements: tag, tagless, init statement, multiple values, default
// in any position, no-match, evaluation order of case expressions.

var trace string

func t(name string, v int) int {
	trace += name
	return v
}

func grade(n int) string {
	switch {
	case n >= 90:
		return "A"
	case n >= 80:
		return "B"
	case n >= 70:
		return "C"
	}
	return "F"
}

func kind(c byte) string {
	switch c {
	case ' ', '\t', '\n':
		return "space"
	case '0', '1', '2', '3', '4', '5', '6', '7', '8', '9':
		return "digit"
	default:
		if c >= 'a' && c <= 'z' {
			return "lower"
		}
		return "other"
	}
}

func defaultFirst(n int) string {
	switch n {
	default:
		return "default"
	case 1:
		return "one"
	case 2:
		return "two"
	}
}

func defaultMiddle(n int) string {
	r := ""
	switch n {
	case 1:
		r = "one"
	default:
		r = "default"
	case 2:
		r = "two"
	}
	return r
}

func main() {
	println(grade(95), grade(85), grade(75), grade(10), grade(90), grade(89))
	println(kind(' '), kind('7'), kind('q'), kind('Q'), kind('\n'))
	println(defaultFirst(1), defaultFirst(2), defaultFirst(3))
	println(defaultMiddle(1), defaultMiddle(2), defaultMiddle(3))

	// case expressions are evaluated top-down, left to right, until a match
	switch t("tag", 3) {
	case t("a", 1), t("b", 2):
		println("12")
	case t("c", 3), t("d", 4):
		println("34")
	case t("e", 5):
		println("5")
	}
	println(trace)
	trace = ""
	switch t("tag", 9) {
	case t("a", 1):
	case t("b", 2):
	default:
		println("none")
	}
	println(trace)

	// init statement; variable scoped to the switch
	switch x := 5 * 2; {
	case x > 5:
		println("big", x)
	default:
		println("small", x)
	}
	switch y := "k"; y + y {
	case "kk":
		println("kk")
	}

	// no match, no default
	r := "unchanged"
	switch 7 {
	case 1, 2, 3:
		r = "changed"
	}
	println(r)

	// switch on types of values: bool, string, int64, named
	type Color uint8
	const (
		Red Color = iota
		Green
		Blue
	)
	for _, c := range []Color{Red, Blue, Green, 7} {
		switch c {
		case Red:
			println("red")
		case Green, Blue:
			println("green/blue", c)
		default:
			println("?", c)
		}
	}
	var b64 int64 = 1 << 40
	switch b64 {
	case 1 << 8:
		println("2^8")
	case 1 << 40:
		println("2^40")
	}
	switch true {
	case false:
		println("false")
	case 1 < 2:
		println("true")
	}

	// empty case bodies, break inside case
	out := 0
	for i := 0; i < 6; i++ {
		switch i {
		case 0, 1:
		case 2:
			if i == 2 {
				break
			}
			out += 100
		case 3:
			out += 3
		default:
			out += 10
		}
	}
	println(out)

	// nested switch
	for i := 0; i < 2; i++ {
		for j := 0; j < 2; j++ {
			switch i {
			case 0:
				switch j {
				case 0:
					println("00")
				default:
					println("0x")
				}
			case 1:
				switch {
				case j == 0:
					println("10")
				default:
					println("1x")
				}
			}
		}
	}

	// switch with no tag and no cases matching falls out
	switch {
	}
	println("end")
}
