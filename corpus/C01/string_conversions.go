package main

// string <-> []byte, []rune, from integer code points; copies not aliases.

func main() {
	s := "héllo, 世界!"
	println(len(s))

	b := []byte(s)
	println(len(b), b[0], b[1], b[2], b[len(b)-1])
	b[0] = 'H'
	println(s[0], string(b[:1]))
	s2 := string(b)
	b[0] = 'J'
	println(s2[0], b[0])

	r := []rune(s)
	println(len(r))
	for i := 0; i < len(r); i++ {
		println(i, int(r[i]))
	}
	r[1] = 'e'
	s3 := string(r)
	println(s3, len(s3))

	// rune -> string
	println(string(rune(65)), string(rune(0x4e16)), len(string(rune(0x4e16))), len(string(rune(0xe9))))
	var rr rune = 'x'
	println(string(rr) + string(rr+1))

	// build from bytes
	buf := make([]byte, 0, 8)
	for c := byte('a'); c < 'f'; c++ {
		buf = append(buf, c)
	}
	println(string(buf), len(buf))
	println(string(buf[1:3]))
	println(string([]byte{}), len(string([]byte{})))

	// empty conversions
	eb := []byte("")
	er := []rune("")
	println(len(eb), len(er))

	// round trip preserves multi-byte
	rt := string([]rune(string([]byte(s))))
	println(rt == s)

	// byte values
	hi := []byte("\xff\x00\x80")
	println(len(hi), hi[0], hi[1], hi[2])

	// rune arithmetic
	up := []rune("abcxyz")
	for i := range up {
		up[i] = up[i] - 'a' + 'A'
	}
	println(string(up))

	// digits
	n := 0
	for _, c := range "12345" {
		n = n*10 + int(c-'0')
	}
	println(n)
	var ds []byte
	for v := 9075; v > 0; v /= 10 {
		ds = append(ds, byte('0'+v%10))
	}
	for i, j := 0, len(ds)-1; i < j; i, j = i+1, j-1 {
		ds[i], ds[j] = ds[j], ds[i]
	}
	println(string(ds))

	// string(byteslice) as map key and comparison
	m := map[string]int{"ab": 1}
	println(m[string([]byte{'a', 'b'})], string([]byte{'a'}) == "a", string([]byte{'a'}) < "b")
}
