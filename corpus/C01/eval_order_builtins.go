package main

// Evaluation order of call arguments to append/copy/len/make/delete and of
// receiver expressions in method calls.

var trace string

type IS []int

func t(name string, v int) int {
	trace += name
	return v
}

func sl(name string, s IS) IS {
	trace += name
	return s
}

func mp(name string, m map[int]int) map[int]int {
	trace += name
	return m
}

type T struct{ n int }

func (p *T) add(a, b int) *T {
	p.n += a*10 + b
	return p
}

func obj(name string, p *T) *T {
	trace += name
	return p
}

func flush() {
	println(trace)
	trace = ""
}

func main() {
	s := IS{1}
	s = append(sl("s", s), t("a", 2), t("b", 3))
	println(len(s), s[1], s[2])
	flush()

	s = append(sl("x", s), sl("y", IS{7, 8})...)
	println(len(s), s[4])
	flush()

	dst := make(IS, 3)
	n := copy(sl("d", dst), sl("s", s))
	println(n, dst[2])
	flush()

	n = copy(sl("d", dst)[t("i", 1):], sl("s", s)[t("j", 3):])
	println(n, dst[1], dst[2])
	flush()

	println(len(sl("l", s)) + cap(sl("c", s[:2:3])))
	flush()

	m := make(IS, t("len", 2), t("cap", 5))
	println(len(m), cap(m))
	flush()

	mm := map[int]int{1: 1, 2: 2}
	delete(mp("m", mm), t("k", 1))
	println(len(mm))
	flush()

	v, ok := mp("m", mm)[t("k", 2)]
	println(v, ok)
	flush()

	// receiver, then arguments; chained calls left to right
	o := &T{}
	obj("o", o).add(t("a", 1), t("b", 2)).add(t("c", 3), t("d", 4))
	println(o.n)
	flush()

	// method value binds the receiver first; arguments later
	f := obj("r", o).add
	trace += "|"
	f(t("a", 0), t("b", 1))
	println(o.n)
	flush()

	// function value expression evaluated before arguments
	pick := func(name string) func(int, int) int {
		trace += name
		return func(a, b int) int { return a - b }
	}
	println(pick("f")(t("a", 9), t("b", 4)))
	flush()

	// nested calls: inner arguments complete before the outer call runs
	outer := func(a, b int) int { trace += "O"; return a + b }
	inner := func(name string, a int) int { trace += name; return a }
	println(outer(inner("i", t("x", 1)), inner("j", t("y", 2))))
	flush()

	// conversions and unary operators do not reorder
	println(-t("a", 1) + int(int64(t("b", 2))) - ^t("c", 3))
	flush()

	// string concatenation and comparison operands
	str := func(name string) string { trace += name; return name }
	println(str("p")+str("q") < str("r")+str("s"))
	flush()

	// if/switch/for init and condition order
	for i := t("init", 0); i < t("c", 2); i += t("p", 1) {
		trace += "B"
	}
	flush()
	if x := t("i", 1); x < t("c", 5) {
		trace += "T"
	}
	flush()
}
