package main

// Maps obtained from functions, struct fields (nil map reads via zero
// struct), maps with function and slice values.

type Reg struct {
	name string
	m    map[string]int
}

func (r *Reg) get(k string) (int, bool) {
	v, ok := r.m[k]
	return v, ok
}

func (r *Reg) set(k string, v int) {
	if len(r.m) == 0 {
		r.m = map[string]int{}
	}
	r.m[k] = v
}

func build(n int) map[int]string {
	m := make(map[int]string, n)
	for i := 0; i < n; i++ {
		m[i] = string(rune('a' + i))
	}
	return m
}

type SS []string

func count(words SS) map[string]int {
	c := map[string]int{}
	for _, w := range words {
		c[w]++
	}
	return c
}

func main() {
	var r Reg
	println(len(r.m)) // (map == nil is a known finding: nil_map_zero_value)
	v, ok := r.get("x")
	println(v, ok)
	println(r.m["direct"])
	r.set("x", 5)
	v, ok = r.get("x")
	println(v, ok, len(r.m))

	pr := &Reg{name: "p"}
	println(len(pr.m), pr.m["q"])
	for k, v := range pr.m {
		println("never", k, v)
	}
	delete(pr.m, "q")
	pr.set("q", 1)
	println(pr.m["q"])

	b := build(5)
	println(len(b), b[0], b[4], b[5] == "")

	c := count([]string{"a", "b", "a", "c", "a", "b"})
	println(c["a"], c["b"], c["c"], c["d"], len(c))

	// map of funcs
	ops := map[string]func(int, int) int{
		"add": func(a, b int) int { return a + b },
		"mul": func(a, b int) int { return a * b },
	}
	println(ops["add"](3, 4), ops["mul"](3, 4), ops["none"] == nil)
	if f, ok := ops["sub"]; !ok {
		println("no sub", f == nil)
	}
	ops["sub"] = func(a, b int) int { return a - b }
	println(ops["sub"](3, 4), len(ops))

	// map holding closures over distinct state
	counters := map[string]func() int{}
	for _, name := range []string{"x", "y"} {
		n := 0
		step := len(name)
		if name == "y" {
			step = 10
		}
		counters[name] = func() int { n += step; return n }
	}
	counters["x"]()
	counters["x"]()
	counters["y"]()
	println(counters["x"](), counters["y"]())

	// map in slice / slice of maps
	sm := make([]map[string]int, 3)
	println(len(sm[0]), len(sm[1]), sm[2]["k"])
	sm[1] = map[string]int{"k": 1}
	println(sm[1]["k"])

	// zero map from a zero struct, then replaced
	e := Reg{}.m
	println(len(e), e["k"])
	e = map[string]int{"k": 2}
	println(len(e), e["k"])
}
