package main

// Slice expressions on slices, arrays, pointers to arrays; len/cap rules.

func lc(tag string, s []int) {
	println(tag, len(s), cap(s))
}

func main() {
	arr := [8]int{0, 1, 2, 3, 4, 5, 6, 7}
	s := arr[:]
	lc("all", s)
	lc("2:", arr[2:])
	lc(":3", arr[:3])
	lc("2:5", arr[2:5])
	lc("2:5:6", arr[2:5:6])
	lc(":0", arr[:0])
	lc("8:", arr[8:])
	lc("3:3", arr[3:3])
	lc("0:0:0", arr[0:0:0])

	t := s[2:5]
	lc("t", t)
	u := t[1:4] // beyond len, within cap
	lc("u", u)
	println(u[0], u[2])
	v := t[:cap(t)]
	lc("v", v)
	println(v[5])
	w := t[1:2:3]
	lc("w", w)

	// writes through any alias hit the array
	t[0] = 20
	u[0] = 30
	println(arr[2], arr[3], s[2], s[3])
	arr[4] = 40
	println(t[2], u[1])

	// pointer to array
	p := &arr
	ps := p[1:3]
	ps[0] = 10
	println(arr[1], len(ps), cap(ps))

	// re-slicing to zero and back
	z := s[:0]
	lc("z", z)
	z = z[:4]
	println(z[3])
	z = z[4:]
	lc("z", z)
	z = z[:0]
	z = append(z, 77)
	println(arr[4])

	// variable bounds
	for i := 0; i <= 3; i++ {
		x := s[i : 8-i]
		lc("x", x)
		if len(x) > 0 {
			println(x[0], x[len(x)-1])
		}
	}

	// slices of slices of slices
	a := []int{0, 1, 2, 3, 4, 5, 6, 7, 8, 9}
	b := a[2:8]
	c := b[1:4]
	d := c[1:2]
	println(d[0], len(d), cap(d))
	d = d[:cap(d)]
	println(d[len(d)-1])

	// nil slicing
	var n []int
	n2 := n[:]
	n3 := n[0:0]
	println(n2 == nil, n3 == nil, len(n2), cap(n3))

	// nil vs empty
	e := []int{}
	m := make([]int, 0)
	println(n == nil, e == nil, m == nil, len(e), len(m))
	e2 := a[:0]
	println(e2 == nil, len(e2), cap(e2))

	// 2D
	grid := [][]int{{1, 2, 3}, {4, 5, 6}, {7, 8, 9}}
	col := grid[1:]
	col[0][0] = 44
	r := grid[2][1:]
	r[0] = 88
	println(grid[1][0], grid[2][1], len(col), len(r))
}
