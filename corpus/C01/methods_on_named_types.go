package main

// Pointer-receiver methods on named non-struct types (slice, map, int,
// func) and on struct elements of arrays/slices/maps of pointers.

type Stack []int

func (s *Stack) Push(v int) { *s = append(*s, v) }
func (s *Stack) Pop() int {
	old := *s
	v := old[len(old)-1]
	*s = old[:len(old)-1]
	return v
}
func (s *Stack) Len() int { return len(*s) }

type Counter int32

func (c *Counter) Inc() Counter { *c++; return *c }
func (c *Counter) Add(d int32)  { *c += Counter(d) }

type Set map[string]bool

func (s *Set) Add(k string)      { (*s)[k] = true }
func (s *Set) Has(k string) bool { return (*s)[k] }

type Acc struct{ total int }

func (a *Acc) Add(v int) *Acc { a.total += v; return a }

type Temp float64

func (t *Temp) Scale(f float64) { *t = Temp(float64(*t) * f) }

func main() {
	var st Stack
	st.Push(1)
	st.Push(2)
	st.Push(3)
	println(st.Len(), st.Pop(), st.Pop(), st.Len())
	ps := &st
	ps.Push(9)
	println(st[1], len(st))

	var c Counter
	c.Inc()
	c.Inc()
	c.Add(10)
	println(int32(c))
	println(int32(c.Inc()))
	pc := &c
	pc.Add(-3)
	println(int32(c))

	s := Set{}
	s.Add("a")
	s.Add("b")
	println(s.Has("a"), s.Has("z"), len(s))

	// chained calls returning the receiver
	a := &Acc{}
	a.Add(1).Add(2).Add(3)
	println(a.total)
	var v Acc
	v.Add(5).Add(5)
	println(v.total)

	// methods on elements: addressable slice/array elements
	accs := []Acc{{1}, {2}}
	accs[0].Add(10)
	for i := range accs {
		accs[i].Add(100)
	}
	println(accs[0].total, accs[1].total)
	arr := [2]Acc{}
	arr[1].Add(7)
	println(arr[0].total, arr[1].total)

	// range copy: method on the copy does not touch the element
	for _, e := range accs {
		e.Add(1000)
	}
	println(accs[0].total)

	// map of pointers
	m := map[string]*Acc{"x": {}}
	m["x"].Add(3).Add(4)
	println(m["x"].total)

	// counters in a slice
	cs := make([]Counter, 3)
	cs[1].Inc()
	cs[1].Inc()
	cs[2].Add(5)
	println(int32(cs[0]), int32(cs[1]), int32(cs[2]))

	// struct with named-type fields
	type Box struct {
		st Stack
		n  Counter
	}
	var b Box
	b.st.Push(4)
	b.st.Push(5)
	b.n.Inc()
	println(b.st.Len(), int32(b.n), b.st.Pop())

	var t Temp = 10
	t.Scale(2.5)
	println(int(t))

	// method value of named slice type
	push := st.Push
	push(77)
	println(st[len(st)-1])
}
