// DEFECT CANDIDATE: slice expression x[low:high] evaluates `high` before `low`.
//
// Wa output:
//   hl
//   3
// Go output:
//   lh
//   3
//
// Go spec (Order of evaluation): function calls in an expression are evaluated in
// lexical left-to-right order, so t("l") must run before t("h").
//
// Root cause: /repo/internal/ssa/builder.go, (*builder).expr0, case *ast.SliceExpr:
// the `if e.High != nil { high = b.expr(fn, e.High) }` block comes BEFORE the
// `if e.Low != nil { low = b.expr(fn, e.Low) }` block (inherited from an old
// x/tools go/ssa; upstream has since swapped them).  Applies to slices, arrays,
// strings and 3-index slices alike.
// Repair: /verif/proposed_fixes/C01-slice-expr-high-before-low.diff (swap the two blocks).
package main

var trace string

func t(name string, v int) int {
	trace += name
	return v
}

func main() {
	s := []int{1, 2, 3, 4, 5}
	r := s[t("l", 1):t("h", 4)]
	println(trace)
	println(len(r))
}
