package main

// Arrays are values: assignment, parameter passing, return, range and
// struct embedding all copy.

type A [4]int
type M [2][2]int
type H struct {
	a A
	n int
}

func modify(a A) A {
	a[0] = 100
	return a
}

func modifyP(a *A) {
	a[0] = 200
}

func sum(a A) int {
	s := 0
	for _, v := range a {
		s += v
	}
	return s
}

func main() {
	a := A{1, 2, 3, 4}
	b := a
	b[1] = 20
	println(a[1], b[1])

	c := modify(a)
	println(a[0], c[0])
	modifyP(&a)
	println(a[0])

	// range over array copies it: modifications in the body are not seen by v
	r := A{1, 2, 3, 4}
	for i, v := range r {
		if i == 0 {
			r[1] = 50
			r[3] = 70
		}
		println(i, v)
	}
	println(r[1], r[3])

	// range over pointer to array does NOT copy
	r2 := A{1, 2, 3, 4}
	for i, v := range &r2 {
		if i == 0 {
			r2[1] = 50
		}
		println(i, v)
	}

	// range over slice of array does not copy
	r3 := A{1, 2, 3, 4}
	for i, v := range r3[:] {
		if i == 0 {
			r3[2] = 60
		}
		println(i, v)
	}

	// nested arrays
	m := M{{1, 2}, {3, 4}}
	n := m
	n[1][0] = 30
	row := m[0]
	row[0] = 10
	println(m[0][0], m[1][0], n[1][0], row[0])

	// arrays in structs
	h := H{A{1, 2, 3, 4}, 5}
	h2 := h
	h2.a[2] = 33
	println(h.a[2], h2.a[2])
	ph := &h
	ph.a[3] = 44
	println(h.a[3], h2.a[3])

	// arrays in slices and maps
	sa := []A{{1}, {2}}
	x := sa[0]
	x[0] = 9
	sa[1][0] = 8
	println(sa[0][0], sa[1][0], x[0])
	// (arrays as map values / in interfaces abort the Wa compiler: known finding array_eq)
	ma := map[string]*A{"k": {1, 2, 3, 4}}
	y := *ma["k"]
	y[0] = 7
	println(ma["k"][0], y[0], sum(*ma["k"]))

	// array of arrays assignment of a row
	var g [3]A
	g[1] = a
	a[1] = -1
	println(g[1][0], g[1][1], g[0][0])

	// pointer to array: shared
	pa := &a
	pb := pa
	pb[2] = 300
	println(a[2], pa[2], len(pa))

	// copy out of a function result
	ret := func() A { return a }
	e2 := ret()
	a[3] = 400
	println(e2[3], a[3], ret()[3])
}
