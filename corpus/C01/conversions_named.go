package main

// Conversions between named types with identical underlying types:
// structs, slices, maps, funcs, pointers, strings.

type Meters int32
type Feet int32
type Pt struct{ x, y int }
type Vec struct{ x, y int }
type Ints []int
type Nums []int
type Name string
type Handler func(int) int
type Table map[string]int

func (p *Pt) norm1() int  { return p.x + p.y }
func (v *Vec) dot(o Vec) int { return v.x*o.x + v.y*o.y }
func (n *Name) shout() string { return string(*n) + "!" }
func (l *Ints) sum() int {
	s := 0
	for _, v := range *l {
		s += v
	}
	return s
}

func main() {
	m := Meters(100)
	f := Feet(m) * 3
	println(int32(m), int32(f), int32(Meters(f)/3) == int32(m))

	p := Pt{3, 4}
	v := Vec(p)
	v.x = 30
	println(p.x, v.x, v.dot(Vec(p)), p.norm1())
	back := Pt(v)
	println(back.norm1())
	pv := (*Vec)(&p)
	pv.y = 40
	println(p.y)
	anon := struct{ x, y int }{1, 2}
	p = anon
	v = Vec(anon)
	println(p.x, v.y)

	is := Ints{1, 2, 3}
	ns := Nums(is)
	ns[0] = 10
	println(is[0], is.sum())
	plain := []int(ns)
	plain[1] = 20
	var is2 Ints = plain
	println(is2.sum(), len(ns))

	n := Name("bob")
	println(n.shout(), string(n)+"?", len(n), n[0], n == "bob", n < "cat")
	s := "lit"
	n2 := Name(s + "eral")
	println(string(n2), n2[1:4] == "ite")
	bs := []byte(n2)
	println(len(bs), string(bs[:3]))

	var h Handler = func(x int) int { return x * 2 }
	plainF := (func(int) int)(h)
	h2 := Handler(plainF)
	println(h(1), plainF(2), h2(3))

	t := Table{"a": 1}
	mm := map[string]int(t)
	mm["b"] = 2
	println(len(t), t["b"])

	// (a named pointer type `type PPt *Pt` aborts the Wa compiler: defects/named_pointer_type.go)
	pp := (*Vec)(&p)
	pp.x = 77
	raw := (*Pt)(pp)
	println(p.x, raw.norm1())

	// numeric named types in expressions need explicit conversion
	type Scale float64
	sc := Scale(1.5)
	w := float64(sc) * 4
	println(int(w), int(sc*2), int(Scale(m)*sc))

	// constants convert implicitly
	var mt Meters = 5
	mt += 10
	mt *= 2
	println(int32(mt), mt > 20, mt == 30)

	// named bool / byte
	type Flag bool
	type B byte
	fl := Flag(3 > 2)
	if fl {
		println("flag", bool(fl) == true, !fl == false)
	}
	by := B(250)
	by += 10
	println(byte(by), int(by))
}
