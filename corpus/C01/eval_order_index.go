package main

// Index expressions, slice expressions and operands with side effects
// (only calls: the order of plain variable reads against calls is not
// specified by Go and is avoided here).

var trace string

func t(name string, v int) int {
	trace += name
	return v
}

func flush() {
	println(trace)
	trace = ""
}

type IS []int
type Grid [3][3]int

func mk(name string) IS {
	trace += name
	return IS{1, 2, 3, 4, 5, 6}
}

func main() {
	// (only one of low/high is a call: see defects/slice_expr_high_before_low.go)
	s := mk("s")[t("l", 1):4]
	println(len(s), s[0], s[2])
	flush()
	s = mk("s")[1:t("h", 4)]
	println(len(s), s[0], s[2])
	flush()

	s3 := mk("s")[1:t("h", 3):t("m", 5)]
	println(len(s3), cap(s3), s3[0])
	flush()

	var g Grid
	g[t("i", 1)][t("j", 2)] = t("v", 9)
	println(g[1][2])
	flush()

	g[t("a", 0)][t("b", 0)], g[t("c", 2)][t("d", 2)] = t("e", 3), t("f", 4)
	println(g[0][0], g[2][2])
	flush()

	str := "hello world"
	sub := str[t("l", 2):7]
	println(sub)
	flush()
	println(str[t("i", 4)])
	flush()

	m := map[string]IS{"a": {1, 2}, "b": {3, 4}}
	m["a"][t("i", 1)] += t("v", 10)
	println(m["a"][1])
	flush()

	arr := [4]int{}
	arr[t("i", 2)] += t("v", 5)
	arr[t("i", 2)] *= t("v", 3)
	println(arr[2])
	flush()

	pp := []*[2]int{{1, 2}, {3, 4}}
	pp[t("i", 1)][t("j", 0)] = t("v", 8)
	println(pp[1][0], pp[1][1])
	flush()

	idx := []int{2, 0, 1}
	vals := []int{10, 20, 30}
	println(vals[idx[t("a", 0)]], vals[idx[t("b", 1)]], vals[idx[t("c", 2)]])
	flush()

	// x op= f() where x is indexed by a call
	cnt := []int{0, 0}
	for i := 0; i < 4; i++ {
		cnt[t("k", i%2)] += t("v", i)
	}
	println(cnt[0], cnt[1])
	flush()
}
