package main

// append within capacity shares storage; append beyond capacity copies.
// Capacities are fixed with 3-index slices so both outcomes are defined.

func show(tag string, s []int) {
	println(tag, len(s), s == nil)
	for i, v := range s {
		println(" ", i, v)
	}
}

func main() {
	base := make([]int, 3, 10)
	base[0], base[1], base[2] = 1, 2, 3

	a := append(base, 4) // in place
	b := append(base, 5) // in place: overwrites a[3]
	println(a[3], b[3], len(a), len(b), len(base), cap(a), cap(b))
	a[0] = 100
	println(base[0], b[0])

	// capacity exhausted: copy
	full := base[:3:3]
	c := append(full, 6)
	c[0] = 200
	println(full[0], c[0], base[0], len(c), cap(full))

	// appending to a sub-slice overwrites the parent's tail
	parent := []int{1, 2, 3, 4, 5}
	parent = parent[:5:5]
	child := parent[1:3]
	println(len(child), cap(child))
	child = append(child, 99)
	println(parent[3], child[2])
	child = append(child, 98)
	println(parent[4], child[3], len(child), cap(child))
	child = append(child, 97) // now beyond cap 4: new storage
	child[0] = -1
	println(parent[1], child[0], len(child))

	// limited capacity protects the parent
	parent2 := []int{1, 2, 3, 4, 5}
	lim := parent2[1:3:3]
	lim = append(lim, 99)
	println(parent2[3], lim[2])

	// append multiple, append slice..., append to nil
	var n []int
	n = append(n, 1)
	n = append(n, 2, 3)
	n = append(n, []int{4, 5}...)
	n = append(n, n...)
	show("n", n)

	// append nothing
	m := append([]int(nil))
	println(m == nil, len(m))
	e := append([]int{})
	println(e == nil, len(e))
	k := append([]int(nil), []int{}...)
	println(len(k))

	// self-append of a sub-slice into the same storage
	buf := make([]int, 4, 8)
	buf[0], buf[1], buf[2], buf[3] = 1, 2, 3, 4
	// (source AFTER the destination only: defects/append_overlap_forward_copy.go)
	buf = append(buf[:1], buf[2:4]...)
	show("buf", buf)

	// growth loop keeps contents
	var g []int
	for i := 0; i < 100; i++ {
		g = append(g, i*i)
	}
	sum := 0
	for _, v := range g {
		sum += v
	}
	println(len(g), sum, g[99])

	// old slice header is unaffected by later appends
	h := make([]int, 0, 2)
	h1 := append(h, 1)
	h2 := append(h1, 2)
	h3 := append(h2, 3)
	h3[0] = 50
	println(len(h), len(h1), len(h2), len(h3), h1[0], h2[0], h3[0])

	// append strings & structs
	var ss []string
	ss = append(ss, "a", "b")
	ss = append(ss[:1:1], "c")
	println(len(ss), ss[0], ss[1])
	type P struct{ x, y int }
	var ps []P
	ps = append(ps, P{1, 2}, P{3, 4})
	q := ps[0]
	ps[0].x = 9
	println(q.x, ps[0].x, len(ps))

	// append bytes of string
	bs := append([]byte("ab"), "cd"...)
	println(len(bs), bs[0], bs[3])
}
