package main

// f(g()) forwarding of multiple results, return g(), multi-results into
// variadics, method calls on results.

type P struct{ x, y int }

func (p *P) sum() int { return p.x + p.y }

func two() (int, int)             { return 3, 4 }
func three() (int, string, bool)  { return 1, "s", true }
func add(a, b int) int            { return a + b }
func show(n int, s string, b bool) { println(n, s, b) }
func pass() (int, int)            { return two() }
func swap(a, b int) (int, int)    { return b, a }
func sum(vs ...int) int {
	t := 0
	for _, v := range vs {
		t = t*10 + v
	}
	return t
}
func lead(s string, vs ...int) int { return len(s)*1000 + sum(vs...) }
func mkP() P                      { return P{5, 6} }
func mkPP() *P                    { return &P{7, 8} }
func pairP() (P, *P)              { return P{1, 2}, &P{3, 4} }
func nested() (func() (int, int), int) {
	return func() (int, int) { return 8, 9 }, 1
}

func main() {
	println(add(two()))
	show(three())
	a, b := pass()
	println(a, b)
	println(swap(two()))
	println(swap(swap(two())))
	println(sum(two()))
	println(add(swap(pass())))

	// results of struct type: field access and method calls
	println(mkP().x, mkPP().y, mkPP().sum())
	v := mkP()
	println(v.sum())
	p, q := pairP()
	println(p.sum(), q.sum())

	f, n := nested()
	x, y := f()
	println(x, y, n)
	println(add(f()))

	// multi-value in return with conversion to interface results
	g := func() (interface{}, interface{}) { return two() }
	i1, i2 := g()
	println(i1.(int), i2.(int))

	// call chains
	h := func(k int) func(int) (int, int) {
		return func(m int) (int, int) { return k + m, k * m }
	}
	println(add(h(3)(4)))
	println(swap(h(2)(5)))

	// result used as index / in composite literal / in condition
	arr := []int{10, 20, 30, 40, 50}
	println(arr[add(two())-4], P{add(1, 2), add(3, 4)}.y)
	if s, d := swap(1, 2); s > d {
		println("swapped", s, d)
	}

	// deferred call with multi-result argument source evaluated at defer time
	k := 1
	get := func() (int, int) { return k, k * 2 }
	func() {
		defer func(a, b int) { println("deferred", a, b) }(get())
		k = 100
	}()
}
