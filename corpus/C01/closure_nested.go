package main

// Closures returning closures, three levels of capture, recursion
// through a variable, closures stored in structs.

type Op struct {
	name string
	fn   func(int) int
}

func compose(f, g func(int) int) func(int) int {
	return func(x int) int { return g(f(x)) }
}

func curry(a int) func(int) func(int) int {
	return func(b int) func(int) int {
		return func(c int) int {
			a++
			b += 10
			return a*10000 + b*100 + c
		}
	}
}

func gen() func() func() int {
	outer := 0
	return func() func() int {
		outer++
		inner := outer * 100
		return func() int {
			inner++
			outer++
			return inner + outer
		}
	}
}

func main() {
	inc := func(x int) int { return x + 1 }
	dbl := func(x int) int { return x * 2 }
	println(compose(inc, dbl)(5), compose(dbl, inc)(5), compose(compose(inc, inc), dbl)(1))

	c := curry(1)
	c5 := c(5)
	println(c5(1), c5(2))
	c7 := c(7)
	println(c7(3), c5(4))

	g := gen()
	a := g()
	b := g()
	println(a(), a(), b(), a())

	// recursion through a variable
	var fib func(int) int
	fib = func(n int) int {
		if n < 2 {
			return n
		}
		return fib(n-1) + fib(n-2)
	}
	println(fib(15))

	var even, odd func(int) bool
	even = func(n int) bool {
		if n == 0 {
			return true
		}
		return odd(n - 1)
	}
	odd = func(n int) bool {
		if n == 0 {
			return false
		}
		return even(n - 1)
	}
	println(even(10), odd(10), even(7))

	// rebinding the variable changes what recursion calls
	var f func(int) int
	f = func(n int) int {
		if n == 0 {
			return 0
		}
		return 1 + f(n-1)
	}
	old := f
	f = func(n int) int { return 100 }
	println(old(3), f(3))

	// closures in structs and slices of structs
	ops := []Op{{"inc", inc}, {"dbl", dbl}}
	k := 3
	ops = append(ops, Op{"addk", func(x int) int { return x + k }})
	k = 30
	for _, o := range ops {
		println(o.name, o.fn(10))
	}

	// three-level capture with mutation at each level
	l1 := 1
	f1 := func() func() int {
		l2 := 10
		return func() int {
			l3 := 100
			func() {
				l1++
				l2++
				l3++
			}()
			return l1 + l2 + l3
		}
	}
	ff := f1()
	println(ff(), ff(), l1)
	println(f1()(), l1)
}
