package main

// defer: LIFO order, arguments evaluated at the defer statement, loops,
// closures see later values, deferred method values.

var trace string

func note(s string) { trace += s }
func noteInt(tag string, v int) {
	trace += tag
	trace += string(rune('0' + v))
}

func flush() {
	println(trace)
	trace = ""
}

type T struct{ n int }

func (t *T) show(tag string) { noteInt(tag, t.n) }

func lifo() {
	defer note("1")
	defer note("2")
	defer note("3")
	note("body;")
}

func argTime() {
	x := 1
	defer noteInt("arg", x)
	defer func() { noteInt("clo", x) }()
	defer func(v int) { noteInt("par", v) }(x)
	x = 7
}

func inLoop() {
	for i := 0; i < 4; i++ {
		defer noteInt("i", i)
	}
	note("end;")
}

func conditional(b bool) {
	if b {
		defer note("cond;")
	}
	note("body;")
}

func methods() {
	t := &T{1}
	defer t.show("m")
	f := t.show
	defer f("v")
	t.n = 5
	t = &T{9}
	defer t.show("n")
}

func earlyReturn(n int) int {
	defer note("d1;")
	if n > 0 {
		defer note("d2;")
		return n
	}
	defer note("d3;")
	return -1
}

func nestedCalls() {
	defer func() {
		note("outer;")
		defer note("inner-deferred;")
		note("outer-end;")
	}()
	func() {
		defer note("lit;")
	}()
	note("body;")
}

func argCalls() {
	val := func(s string) string { note("eval-" + s + ";"); return s }
	defer note(val("a"))
	defer note(val("b"))
	note("body;")
}

func main() {
	lifo()
	flush()
	argTime()
	flush()
	inLoop()
	flush()
	conditional(true)
	conditional(false)
	flush()
	methods()
	flush()
	println(earlyReturn(1), earlyReturn(0))
	flush()
	nestedCalls()
	flush()
	argCalls()
	flush()
}
