package main

// Slicing arrays that live in variables, struct fields and parameters:
// who aliases what.

type A4 [4]int
type H struct {
	arr A4
	n   int
}
type IS []int

func sliceParam(a A4) IS {
	s := a[:] // slices the COPY
	s[0] = 99
	return s
}

func slicePtr(a *A4) IS {
	s := a[:]
	s[0] = 99
	return s
}

func (h *H) view() IS { return h.arr[1:3] }

func main() {
	a := A4{1, 2, 3, 4}
	s := sliceParam(a)
	println(a[0], s[0])
	s2 := slicePtr(&a)
	s2[1] = 88
	println(a[0], a[1])

	// array variable sliced, then array assigned as a whole
	b := A4{1, 2, 3, 4}
	sb := b[:]
	b = A4{5, 6, 7, 8}
	println(sb[0], sb[3])
	c := b
	sb[0] = 50
	println(b[0], c[0])

	// struct field arrays
	h := H{arr: A4{1, 2, 3, 4}}
	v := h.view()
	v[0] = 20
	println(h.arr[1], len(v), cap(v))
	h2 := h
	v[1] = 30
	println(h.arr[2], h2.arr[2])
	ph := &h
	pv := ph.view()
	pv[0] = 21
	println(h.arr[1], v[0])
	h = H{}
	println(v[0], pv[1])

	// array inside slice element
	hs := []H{{arr: A4{1, 1, 1, 1}}, {arr: A4{2, 2, 2, 2}}}
	e := hs[1].arr[:]
	e[0] = 22
	println(hs[1].arr[0])
	hs2 := append(hs[:2:2], H{})
	e[1] = 23
	println(hs[1].arr[1], hs2[1].arr[1])

	// array of arrays: row slices
	var g [3]A4
	r1 := g[1][:]
	r1[2] = 7
	g2 := g
	r1[3] = 8
	println(g[1][2], g[1][3], g2[1][2], g2[1][3])

	// new array via pointer
	p := new(A4)
	q := p[:2]
	q = append(q, 5)
	println(p[2], len(q), cap(q))
	*p = A4{}
	println(q[2])

	// copy between array slices of the same array
	w := A4{1, 2, 3, 4}
	copy(w[1:], w[:3])
	println(w[0], w[1], w[2], w[3])
	copy(w[:], IS{9, 9})
	println(w[0], w[1], w[2])

	// array returned from function is a temporary copy
	f := func() A4 { return w }
	t := f()
	t[0] = -1
	println(w[0], t[0], f()[0])
}
