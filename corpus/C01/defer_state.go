package main

// defer used for cleanup patterns: stack depth tracking, restoring
// globals, modifying results in recursion, defers in closures called in loops.

var depth int
var maxDepth int
var log string

func enter() { depth++; if depth > maxDepth { maxDepth = depth } }
func leave() { depth-- }

func walk(n int) int {
	enter()
	defer leave()
	if n == 0 {
		return 0
	}
	return 1 + walk(n-1)
}

var mode = "normal"

func withMode(m string, f func()) {
	old := mode
	mode = m
	defer func() { mode = old }()
	f()
}

func fact(n int) (r int) {
	defer func() { r *= n }()
	if n <= 1 {
		return 1
	}
	return fact(n - 1)
}

func collect() (out string) {
	for i := 0; i < 3; i++ {
		func() {
			defer func() { out += "}" }()
			out += "{"
			out += string(rune('a' + i))
		}()
	}
	return out + "."
}

type IS []int
type Stack struct{ items IS }

func (s *Stack) push(v int) { s.items = append(s.items, v) }
func (s *Stack) pop() int {
	v := s.items[len(s.items)-1]
	s.items = s.items[:len(s.items)-1]
	return v
}

func useStack() (sum int) {
	s := &Stack{}
	for i := 1; i <= 3; i++ {
		s.push(i)
		defer func() { sum = sum*10 + s.pop() }()
	}
	return 0
}

func deferInDefer() (r int) {
	defer func() {
		r += 1
		defer func() { r *= 2 }()
		r += 1
	}()
	return 10
}

func main() {
	println(walk(50), depth, maxDepth)

	println(mode)
	withMode("a", func() {
		log += mode
		withMode("b", func() { log += mode })
		log += mode
	})
	println(mode, log)

	println(fact(1), fact(5), fact(10))
	println(collect())
	println(useStack())
	println(deferInDefer())
}
