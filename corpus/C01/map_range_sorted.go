package main

// Iteration over maps: every pair exactly once; output sorted by hand.
// Mutation during iteration: deleting the current tiny-map key, updating
// existing keys.

type IS []int
type SS []string

func sortInts(a IS) {
	for i := 1; i < len(a); i++ {
		for j := i; j > 0 && a[j] < a[j-1]; j-- {
			a[j], a[j-1] = a[j-1], a[j]
		}
	}
}

func sortStrs(a SS) {
	for i := 1; i < len(a); i++ {
		for j := i; j > 0 && a[j] < a[j-1]; j-- {
			a[j], a[j-1] = a[j-1], a[j]
		}
	}
}

func main() {
	m := map[string]int{"d": 4, "a": 1, "c": 3, "b": 2, "e": 5}
	var keys []string
	sum := 0
	for k, v := range m {
		keys = append(keys, k)
		sum += v
	}
	sortStrs(keys)
	for _, k := range keys {
		println(k, m[k])
	}
	println(len(keys), sum)

	// key only, value only, no variables
	n := 0
	for k := range m {
		n += len(k)
	}
	vs := 0
	for _, v := range m {
		vs += v * v
	}
	cnt := 0
	for range m {
		cnt++
	}
	println(n, vs, cnt)

	// update values of existing keys while ranging
	for k, v := range m {
		m[k] = v * 10
	}
	println(m["a"], m["e"])

	// empty map and nil-like empty map
	em := map[int]int{}
	for k, v := range em {
		println("never", k, v)
	}

	// int keys: collect and sort
	im := map[int]int{}
	for i := 0; i < 20; i++ {
		im[(i*37)%101] = i
	}
	var ik []int
	for k, v := range im {
		_ = v
		ik = append(ik, k)
	}
	sortInts(ik)
	for _, k := range ik {
		println(k, im[k])
	}

	// break inside range
	seen := 0
	for k, v := range im {
		_, _ = k, v
		seen++
		if seen == 3 {
			break
		}
	}
	println(seen)

	// struct values
	type P struct{ x, y int }
	pm := map[string]P{"p": {1, 2}, "q": {3, 4}}
	tx, ty := 0, 0
	for _, p := range pm {
		p.x = 100 // copy
		tx += p.x
		ty += p.y
	}
	println(tx, ty, pm["p"].x)

	// nested range
	mm := map[string]map[string]int{"x": {"a": 1, "b": 2}, "y": {"c": 3}}
	tot := 0
	for _, inner := range mm {
		for _, v := range inner {
			tot += v
		}
	}
	println(tot)

	// clearing a one-element map during range
	one := map[string]int{"only": 1}
	for k := range one {
		delete(one, k)
	}
	println(len(one))
}
