package main

// copy(): return value, partial, overlapping in both directions, from string.

func dump(tag string, s []int) {
	x := 0
	for _, v := range s {
		x = x*10 + v
	}
	println(tag, len(s), x)
}

func main() {
	src := []int{1, 2, 3, 4, 5}
	dst := make([]int, 3)
	n := copy(dst, src)
	dump("dst", dst)
	println(n)

	big := make([]int, 7)
	n = copy(big, src)
	dump("big", big)
	println(n)

	n = copy(big[5:], src)
	dump("big", big)
	println(n)

	// overlap forward (dst after src)
	a := []int{1, 2, 3, 4, 5, 6}
	n = copy(a[2:], a[:4])
	dump("fwd", a)
	println(n)

	// overlap backward (dst before src)
	b := []int{1, 2, 3, 4, 5, 6}
	n = copy(b[:4], b[2:])
	dump("bwd", b)
	println(n)

	// overlap by one
	c := []int{1, 2, 3, 4, 5, 6}
	copy(c[1:], c)
	dump("by1", c)
	d := []int{1, 2, 3, 4, 5, 6}
	copy(d, d[1:])
	dump("by-1", d)

	// self copy
	copy(d, d)
	dump("self", d)

	// empty / nil
	var nl []int
	println(copy(nl, src), copy(dst, nl), copy(dst[:0], src), copy(dst, src[:0]))

	// from string
	bs := make([]byte, 5)
	n = copy(bs, "hello world")
	println(n, bs[0], bs[4], string(bs))
	n = copy(bs[1:], "xy")
	println(n, string(bs))

	// strings / structs
	ss := []string{"a", "b", "c"}
	ts := make([]string, 2)
	copy(ts, ss[1:])
	println(ts[0], ts[1])
	copy(ss, ss[1:])
	println(ss[0], ss[1], ss[2])

	type P struct {
		x int
		s string
	}
	ps := []P{{1, "a"}, {2, "b"}, {3, "c"}}
	copy(ps[1:], ps)
	println(ps[0].x, ps[1].x, ps[2].x, ps[2].s)

	// copy is shallow for inner slices
	in := [][]int{{1}, {2}}
	out := make([][]int, 2)
	copy(out, in)
	out[0][0] = 9
	println(in[0][0])

	// insert / delete idioms
	s := []int{1, 2, 3, 4, 5}
	s = append(s[:1], s[2:]...) // delete index 1
	dump("del", s)
	s = append(s, 0)
	copy(s[2:], s[1:])
	s[1] = 9 // insert 9 at 1
	dump("ins", s)
}
