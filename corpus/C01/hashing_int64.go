package main

// 32/64-bit mixing functions: multiplication wrap, xor-shift, rotations.

func fnv32(s string) uint32 {
	h := uint32(2166136261)
	for i := 0; i < len(s); i++ {
		h ^= uint32(s[i])
		h *= 16777619
	}
	return h
}

func fnv64(s string) uint64 {
	h := uint64(14695981039346656037)
	for i := 0; i < len(s); i++ {
		h ^= uint64(s[i])
		h *= 1099511628211
	}
	return h
}

func xorshift64(x uint64) uint64 {
	x ^= x << 13
	x ^= x >> 7
	x ^= x << 17
	return x
}

func splitmix(x uint64) uint64 {
	x += 0x9e3779b97f4a7c15
	z := x
	z = (z ^ (z >> 30)) * 0xbf58476d1ce4e5b9
	z = (z ^ (z >> 27)) * 0x94d049bb133111eb
	return z ^ (z >> 31)
}

func murmurMix(k uint32) uint32 {
	k *= 0xcc9e2d51
	k = k<<15 | k>>17
	k *= 0x1b873593
	return k
}

func lcg(seed int64, n int) int64 {
	for i := 0; i < n; i++ {
		seed = seed*6364136223846793005 + 1442695040888963407
	}
	return seed
}

func adler(s string) uint32 {
	a, b := uint32(1), uint32(0)
	for i := 0; i < len(s); i++ {
		a = (a + uint32(s[i])) % 65521
		b = (b + a) % 65521
	}
	return b<<16 | a
}

func crc8(data string) uint8 {
	var crc uint8
	for i := 0; i < len(data); i++ {
		crc ^= data[i]
		for b := 0; b < 8; b++ {
			if crc&0x80 != 0 {
				crc = crc<<1 ^ 0x07
			} else {
				crc <<= 1
			}
		}
	}
	return crc
}

func mulhi(a, b uint32) uint32 { return uint32(uint64(a) * uint64(b) >> 32) }

func main() {
	for _, s := range []string{"", "a", "hello", "The quick brown fox"} {
		println(fnv32(s), fnv64(s), adler(s), crc8(s))
	}
	x := uint64(88172645463325252)
	for i := 0; i < 5; i++ {
		x = xorshift64(x)
		println(x, int64(x), uint32(x), uint16(x>>20))
	}
	println(splitmix(0), splitmix(1), splitmix(1<<63))
	println(murmurMix(0), murmurMix(1), murmurMix(0xffffffff))
	println(lcg(1, 1), lcg(1, 10), lcg(-1, 1000))
	println(mulhi(0xffffffff, 0xffffffff), mulhi(0x80000000, 2), mulhi(12345, 67890))

	// signed 64-bit mixing
	var h int64 = 17
	for i := int64(0); i < 50; i++ {
		h = h*31 + i*i - (h >> 7)
	}
	println(h)

	// 64-bit comparisons across the sign boundary
	var big uint64 = 1 << 63
	var sbig int64 = -1 << 63
	println(big > 1, big-1 < big, sbig < 0, sbig-1 > 0, uint64(sbig) == big, int64(big) == sbig)
}
