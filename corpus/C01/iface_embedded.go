package main

// Embedded interfaces, interfaces embedding several others, assignment of
// concrete pointers to each level, assertions between levels (dynamic).

type Reader interface{ Read() string }
type Writer interface{ Write(s string) int }
type Closer interface{ Close() bool }

type ReadWriter interface {
	Reader
	Writer
}

type ReadWriteCloser interface {
	ReadWriter
	Closer
}

type Sizer interface {
	Reader
	Size() int
}

type Buf struct {
	data   string
	closed bool
}

func (b *Buf) Read() string {
	d := b.data
	b.data = ""
	return d
}
func (b *Buf) Write(s string) int { b.data += s; return len(s) }
func (b *Buf) Close() bool        { was := b.closed; b.closed = true; return !was }
func (b *Buf) Size() int          { return len(b.data) }

type OnlyRead struct{ s string }

func (o *OnlyRead) Read() string { return o.s }

func copyAll(dst Writer, src Reader) int { return dst.Write(src.Read()) }

func useRWC(x ReadWriteCloser) string {
	x.Write("abc")
	x.Write("def")
	r := x.Read()
	if x.Close() {
		r += "|closed"
	}
	if !x.Close() {
		r += "|already"
	}
	return r
}

func levels(e interface{}) string {
	r := ""
	if _, ok := e.(Reader); ok {
		r += "R"
	}
	if _, ok := e.(Writer); ok {
		r += "W"
	}
	if _, ok := e.(ReadWriter); ok {
		r += "+RW"
	}
	if _, ok := e.(ReadWriteCloser); ok {
		r += "+RWC"
	}
	if _, ok := e.(Sizer); ok {
		r += "+S"
	}
	return r
}

func main() {
	b := &Buf{}
	println(useRWC(b))

	src := &OnlyRead{"payload"}
	dst := &Buf{}
	println(copyAll(dst, src), dst.Size())
	println(copyAll(dst, dst), dst.data)

	println(levels(b), levels(src), levels(5))

	var rwc ReadWriteCloser = &Buf{data: "x"}
	// widening through assertion (static iface->iface conversion is a known finding)
	rw := rwc.(ReadWriter)
	rw.Write("y")
	r := rwc.(Reader)
	println(r.Read())
	sz := rwc.(Sizer)
	rw.Write("123")
	println(sz.Size())

	// narrowing dynamically
	var rd Reader = src
	_, ok := rd.(ReadWriter)
	println(ok)
	rd = b
	full, ok := rd.(ReadWriteCloser)
	println(ok, full.Close())

	// interface values in a slice with different dynamic types
	rs := []Reader{&OnlyRead{"1"}, &Buf{data: "2"}, &OnlyRead{"3"}}
	out := ""
	for _, x := range rs {
		out += x.Read()
		if w, ok := x.(Writer); ok {
			w.Write("again")
			out += x.Read()
		}
	}
	println(out)
}
