package main

// Pointers: to locals that escape, to array elements, struct fields, slice
// elements; pointer to pointer; aliasing; new().

type P struct{ x, y int }
type L struct {
	v    int
	next *L
}

func escape() *int {
	v := 42
	return &v
}

func escapeEach(n int) []*int {
	var out []*int
	for i := 0; i < n; i++ {
		v := i * i
		out = append(out, &v)
	}
	return out
}

func setVia(p *int, v int) { *p = v }

func swap(a, b *int) { *a, *b = *b, *a }

func retarget(pp **int, q *int) { *pp = q }

func main() {
	p1, p2 := escape(), escape()
	*p1 = 1
	println(*p1, *p2, p1 == p2)

	ps := escapeEach(4)
	*ps[1] = 100
	println(*ps[0], *ps[1], *ps[2], *ps[3])

	// pointers to array elements and struct fields
	arr := [3]int{1, 2, 3}
	pe := &arr[1]
	*pe = 20
	arr[1]++
	println(arr[1], *pe)
	s := P{1, 2}
	px, py := &s.x, &s.y
	*px, *py = 10, 20
	s.x++
	println(s.x, s.y, *px)
	swap(&s.x, &s.y)
	println(s.x, s.y)
	swap(&arr[0], &arr[2])
	println(arr[0], arr[2])

	// copies do not follow the pointer
	s2 := s
	*px = 99
	println(s.x, s2.x)
	arr2 := arr
	*pe = 77
	println(arr[1], arr2[1])

	// pointers to slice elements survive until reallocation
	sl := make([]int, 2, 2)
	q := &sl[0]
	*q = 5
	println(sl[0])
	sl2 := append(sl, 1) // reallocates: q still points into the old array
	*q = 6
	println(sl[0], sl2[0])

	// pointer to pointer
	a, b := 1, 2
	pa := &a
	ppa := &pa
	**ppa = 10
	retarget(ppa, &b)
	*pa = 20
	println(a, b, *pa, **ppa, pa == &b)

	// pointer comparison
	pb := &b
	println(pa == pb, pa != &a, &arr[0] == &arr[0], &s.x == px, &s.x == &s.y)

	// pointer to struct: auto-deref, copy via *
	sp := &P{1, 2}
	sp.x = 5
	(*sp).y = 6
	cp := *sp
	cp.x = 50
	println(sp.x, sp.y, cp.x)
	sp2 := sp
	sp2.x = 500
	println(sp.x)

	// new
	np := new(P)
	np.x = 3
	ni := new(int)
	*ni += 4
	nn := new(*int)
	*nn = ni
	**nn *= 2
	println(np.x, np.y, *ni)

	// linked list built back to front and reversed in place
	var head *L
	for i := 5; i >= 1; i-- {
		head = &L{i, head}
	}
	var prev *L
	for cur := head; cur != nil; {
		next := cur.next
		cur.next = prev
		prev, cur = cur, next
	}
	sum := 0
	for n := prev; n != nil; n = n.next {
		sum = sum*10 + n.v
	}
	println(sum)

	// pointer stored in map and struct, modified through both
	m := map[string]*P{"k": sp}
	type H struct{ p *P }
	h := H{sp}
	m["k"].y = 60
	h.p.y++
	println(sp.y)

	// setVia on every lvalue kind
	setVia(&a, 1)
	setVia(&arr[2], 2)
	setVia(&s.y, 3)
	setVia(&sl[1], 4)
	setVia(&sp.x, 5)
	setVia(pa, 6)
	println(a, arr[2], s.y, sl[1], sp.x, b)
}
