package main

// Compound assignment and ++/-- on every kind of lvalue; the operand
// expression (index, pointer) is evaluated exactly once.

type P struct {
	x   int
	arr A3
	in  struct{ v int }
}
type A3 [3]int

var g int
var calls int

func idx(i int) int {
	calls++
	return i
}

func ptr(p *P) *P {
	calls++
	return p
}

func main() {
	// locals
	x := 10
	x += 5
	x -= 3
	x *= 4
	x /= 6
	x %= 5
	x <<= 3
	x >>= 1
	x |= 0x10
	x &= 0x1c
	x ^= 0xff
	x &^= 0x0f
	x++
	x--
	println(x)

	// globals
	g += 7
	g *= 3
	g++
	println(g)

	// array / slice elements, index evaluated once
	arr := [4]int{1, 2, 3, 4}
	arr[idx(1)] += 10
	arr[idx(2)] *= 5
	arr[idx(3)]++
	arr[idx(0)]--
	println(arr[0], arr[1], arr[2], arr[3], calls)
	calls = 0
	sl := []int{1, 2, 3}
	sl[idx(0)] <<= 4
	sl[idx(1)] |= 8
	sl[idx(2)] %= 2
	println(sl[0], sl[1], sl[2], calls)

	// struct fields, nested, through pointer
	calls = 0
	p := P{x: 1}
	p.x += 9
	p.arr[1] += 4
	p.arr[idx(2)]++
	p.in.v -= 3
	pp := &p
	pp.x *= 2
	pp.arr[0]--
	ptr(pp).x += 100
	ptr(pp).arr[idx(1)] *= 10
	println(p.x, p.arr[0], p.arr[1], p.arr[2], p.in.v, calls)

	// pointer deref
	v := 5
	pv := &v
	*pv += 5
	*pv *= *pv
	(*pv)++
	println(v)

	// map elements
	calls = 0
	m := map[int]int{1: 1}
	m[idx(1)] += 10
	m[idx(2)] += 20
	m[idx(2)]++
	m[3]--
	println(m[1], m[2], m[3], len(m), calls)
	ms := map[string]string{}
	ms["k"] += "a"
	ms["k"] += "b"
	println(ms["k"])

	// map of struct pointers / slice of structs
	mp := map[string]*P{"p": {x: 1}}
	mp["p"].x += 5
	mp["p"].arr[2] += 6
	println(mp["p"].x, mp["p"].arr[2])
	ps := []P{{x: 1}, {x: 2}}
	ps[1].x *= 50
	ps[0].arr[0] += 3
	println(ps[0].x, ps[1].x, ps[0].arr[0])

	// 2D
	var grid [3][3]int
	for i := 0; i < 3; i++ {
		for j := 0; j < 3; j++ {
			grid[i][j] += i*3 + j
			grid[j][i] *= 2
		}
	}
	println(grid[0][0], grid[1][2], grid[2][1], grid[2][2])

	// other types
	var u8 uint8 = 250
	u8 += 10
	u8 <<= 1
	var i64 int64 = 1
	i64 <<= 40
	i64 += i64
	var s string
	s += "a"
	s += s
	var f float64 = 1
	f /= 4
	f += 0.25
	println(u8, i64, s, f == 0.5)

	// x op= expression involving x
	y := 3
	y += y * y
	y -= y / 4
	println(y)
}
