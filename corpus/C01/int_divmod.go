package main

// Division and modulo: truncation toward zero, sign of remainder, unsigned
// at large values.  (MinInt / -1 is a known finding: avoided.)

func dm32(a, b int32) {
	println(a, b, a/b, a%b, (a/b)*b+a%b == a)
}

func dm64(a, b int64) {
	println(a, b, a/b, a%b, (a/b)*b+a%b == a)
}

func main() {
	dm32(7, 2)
	dm32(-7, 2)
	dm32(7, -2)
	dm32(-7, -2)
	dm32(6, 3)
	dm32(-6, 3)
	dm32(0, 5)
	dm32(1, 5)
	dm32(-1, 5)
	dm32(2147483647, 2)
	dm32(-2147483648, 2)
	dm32(-2147483648, 2147483647)
	dm32(2147483647, -2147483648)
	dm32(-2147483647, -1)

	dm64(7, 2)
	dm64(-7, 2)
	dm64(7, -2)
	dm64(-7, -2)
	dm64(9223372036854775807, 10)
	dm64(-9223372036854775807, 10)
	dm64(-9223372036854775808, 3)
	dm64(1<<40, -(1 << 20))
	dm64(-9223372036854775807, -1)

	var a8, b8 uint8 = 255, 7
	println(a8/b8, a8%b8)
	var a16, b16 uint16 = 65535, 256
	println(a16/b16, a16%b16)
	var au, bu uint32 = 4294967295, 3
	println(au/bu, au%bu, au/4294967295, au%4294967294)
	var aw, bw uint64 = 18446744073709551615, 10
	println(aw/bw, aw%bw, aw/(1<<63), aw%(1<<63))

	// int
	n, d := -17, 5
	println(n/d, n%d, n/-d, n%-d, -n/d, -n%d)

	// constants
	println(-7/2, -7%2, 7/-2, 7%-2)

	// compound
	x := int32(100)
	x /= 7
	println(x)
	x %= 5
	println(x)
	x = -100
	x /= 7
	x %= 5
	println(x)

	// powers of two (often strength-reduced)
	for _, v := range []int32{-9, -8, -7, -1, 0, 1, 7, 8, 9} {
		println(v, v/8, v%8, v/4, v%4, v/2, v%2, v>>1, v>>3)
	}

	// digit extraction
	v := int64(9876543210)
	s := 0
	for v > 0 {
		s = s*7 + int(v%10)
		v /= 10
	}
	println(s)

	// gcd
	g, h := int32(1071), int32(462)
	for h != 0 {
		g, h = h, g%h
	}
	println(g)
}
