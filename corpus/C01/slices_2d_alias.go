package main

// Slices of slices: shared rows, independent rows, jagged, rows carved out
// of one backing array, transposition.

type Row []int
type Grid []Row

func mk(r, c int) Grid {
	g := make(Grid, r)
	for i := range g {
		g[i] = make(Row, c)
	}
	return g
}

func mkFlat(r, c int) (Grid, Row) {
	flat := make(Row, r*c)
	g := make(Grid, r)
	for i := range g {
		g[i] = flat[i*c : (i+1)*c : (i+1)*c]
	}
	return g, flat
}

func dump(g Grid) {
	for _, row := range g {
		h := 0
		for _, v := range row {
			h = h*10 + v
		}
		println(len(row), h)
	}
}

func main() {
	g := mk(2, 3)
	g[0][1] = 5
	g[1][2] = 7
	dump(g)

	// shared row
	sh := make(Grid, 3)
	row := Row{1, 2}
	for i := range sh {
		sh[i] = row
	}
	sh[0][0] = 9
	dump(sh)

	// copy of the outer slice shares the rows
	c := make(Grid, len(g))
	copy(c, g)
	c[0][0] = 1
	c[1] = Row{8, 8}
	dump(g)
	dump(c)

	// rows carved from one array: append to a row must not spill (cap limited)
	fg, flat := mkFlat(2, 2)
	fg[0][1] = 3
	fg[0] = append(fg[0], 4)
	fg[0][0] = 6
	println(flat[0], flat[1], flat[2], flat[3], len(fg[0]))

	// jagged
	tri := make(Grid, 4)
	for i := range tri {
		tri[i] = make(Row, i+1)
		tri[i][0], tri[i][i] = 1, 1
		for j := 1; j < i; j++ {
			tri[i][j] = tri[i-1][j-1] + tri[i-1][j]
		}
	}
	dump(tri)

	// transpose
	m := Grid{{1, 2, 3}, {4, 5, 6}}
	t := mk(3, 2)
	for i, r := range m {
		for j, v := range r {
			t[j][i] = v
		}
	}
	dump(t)

	// append rows; growing the outer slice keeps row identity
	var rows Grid
	first := Row{1}
	rows = append(rows, first)
	for i := 0; i < 10; i++ {
		rows = append(rows, Row{i})
	}
	first[0] = 42
	println(rows[0][0], len(rows))

	// swap rows
	m[0], m[1] = m[1], m[0]
	dump(m)

	// nil rows
	sparse := make(Grid, 3)
	sparse[1] = Row{1}
	println(sparse[0] == nil, len(sparse[0]), len(sparse[1]), sparse[2] == nil)
	sparse[0] = append(sparse[0], 5, 6)
	println(len(sparse[0]), sparse[0][1])

	// 3 levels
	cube := [][][]int{{{1, 2}, {3}}, {{4}}}
	cube[0][1] = append(cube[0][1], 9)
	println(len(cube), len(cube[0]), len(cube[0][1]), cube[0][1][1], cube[1][0][0])
}
