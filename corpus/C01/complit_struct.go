package main

// Struct composite literals: positional, keyed, partial, nested, pointers.

type In struct{ a, b int }
type Out struct {
	n    int
	in   In
	s    string
	p    *In
	flag bool
}
type Deep struct {
	o Out
	k int64
}

func show(o Out) {
	pa, pb := -1, -1
	if o.p != nil {
		pa, pb = o.p.a, o.p.b
	}
	println(o.n, o.in.a, o.in.b, o.s, pa, pb, o.flag)
}

func main() {
	show(Out{})
	show(Out{1, In{2, 3}, "x", &In{4, 5}, true})
	show(Out{n: 1})
	show(Out{s: "only-s"})
	show(Out{in: In{a: 7}})
	show(Out{in: In{b: 8}, flag: true})
	show(Out{p: &In{b: 9}})
	show(Out{p: &In{}})

	d := Deep{o: Out{in: In{1, 2}, s: "deep"}, k: 1 << 40}
	println(d.o.in.a, d.o.in.b, d.o.s, d.k, d.o.n)

	pd := &Deep{k: 5}
	pd.o.in.b = 6
	println(pd.o.in.a, pd.o.in.b, pd.k)

	// literal assigned over existing non-zero storage: omitted fields are zeroed
	o := Out{1, In{2, 3}, "x", &In{4, 5}, true}
	o = Out{n: 10}
	show(o)
	o.in = In{b: 1}
	show(o)
	o.in = In{a: 2}
	show(o)

	// in a loop: a fresh value every iteration
	var ptrs []*In
	for i := 0; i < 3; i++ {
		v := In{a: i}
		v.b = i * 10
		ptrs = append(ptrs, &v)
	}
	for _, p := range ptrs {
		println(p.a, p.b)
	}
	var ptrs2 []*In
	for i := 0; i < 3; i++ {
		ptrs2 = append(ptrs2, &In{i, i + 1})
	}
	ptrs2[0].a = 100
	for _, p := range ptrs2 {
		println(p.a, p.b)
	}

	// literal using its own destination's old value
	v := In{1, 2}
	v = In{v.b, v.a}
	println(v.a, v.b)
	v = In{a: v.a + v.b}
	println(v.a, v.b)

	// anonymous struct
	anon := struct {
		x int
		y string
	}{3, "anon"}
	println(anon.x, anon.y)
}
