package main

// Deferred closures observe and modify named results after the return
// operands were assigned.

func double() (r int) {
	defer func() { r *= 2 }()
	return 21
}

func addAfter() (r int) {
	defer func() { r += 1 }()
	defer func() { r *= 10 }()
	r = 5
	return r + 1
}

func bareDefer() (r int) {
	defer func() { r = r + 100 }()
	r = 7
	return
}

func overwrite() (a, b int) {
	defer func() { a, b = b, a }()
	return 1, 2
}

func seen() (r int, log string) {
	defer func() {
		if r == 3 {
			log = log + "saw3"
		}
	}()
	log = "start;"
	return 3, log + "ret;"
}

func localNotResult() int {
	r := 1
	defer func() { r = 99 }()
	return r
}

func loopDefers() (r int) {
	for i := 1; i <= 4; i++ {
		j := i
		defer func() { r = r*10 + j }()
	}
	return 0
}

func argEval() (r int) {
	r = 1
	defer add(&r, r) // second argument evaluated now: 1
	r = 50
	return r
}

func add(p *int, d int) { *p += d }

func nested() (r int) {
	defer func() {
		defer func() { r++ }()
		r *= 3
	}()
	return 4
}

func main() {
	println(double())
	println(addAfter())
	println(bareDefer())
	a, b := overwrite()
	println(a, b)
	r, l := seen()
	println(r, l)
	println(localNotResult())
	println(loopDefers())
	println(argEval())
	println(nested())
}
