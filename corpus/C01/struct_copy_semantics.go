package main

// Struct assignment copies every field, including nested structs and
// arrays, but shares slices, maps and pointers.

type A2 [2]int
type IS []int
type In struct {
	v   int
	arr A2
}
type S struct {
	n  int
	in In
	sl IS
	m  map[string]int
	p  *In
	s  string
}

func byValue(s S) S {
	s.n = 100
	s.in.v = 100
	s.in.arr[0] = 100
	s.sl[0] = 100
	s.m["k"] = 100
	s.p.v = 100
	s.s = "changed"
	return s
}

func byPtr(s *S) {
	s.n = 200
	s.in.arr[1] = 200
}

func mk() S {
	return S{1, In{2, A2{3, 4}}, []int{5, 6}, map[string]int{"k": 7}, &In{8, A2{9, 10}}, "orig"}
}

func show(tag string, s *S) {
	println(tag, s.n, s.in.v, s.in.arr[0], s.in.arr[1], s.sl[0], s.m["k"], s.p.v, s.s)
}

func main() {
	a := mk()
	b := a
	b.n = 11
	b.in.v = 12
	b.in.arr[0] = 13
	b.sl[0] = 15
	b.m["k"] = 17
	b.p.v = 18
	b.s = "b"
	show("a", &a)
	show("b", &b)

	c := mk()
	d := byValue(c)
	show("c", &c)
	show("d", &d)
	byPtr(&c)
	show("c", &c)

	// copy out of / into slice elements
	ss := []S{mk(), mk()}
	e := ss[0]
	e.n = 50
	e.in.arr[1] = 51
	println(ss[0].n, ss[0].in.arr[1], e.n, e.in.arr[1])
	ss[1] = e
	e.n = 60
	println(ss[1].n, e.n)

	// range copies the element
	for _, v := range ss {
		v.n = 999
		v.in.v = 999
	}
	println(ss[0].n, ss[0].in.v)
	for i := range ss {
		ss[i].n = 70 + i
	}
	println(ss[0].n, ss[1].n)

	// copy out of map
	// copy out of map (value type without arrays: known finding array_eq)
	type V struct {
		in struct{ v int }
		s  string
	}
	ms := map[int]V{1: {s: "v"}}
	f := ms[1]
	f.in.v = 80
	println(ms[1].in.v, f.in.v)
	ms[1] = f
	println(ms[1].in.v, ms[1].s)

	// pointer deref copy
	p := &a
	g := *p
	g.n = 90
	println(a.n, g.n)
	*p = mk()
	println(a.n, a.s, g.n)

	// nested struct copy
	in := a.in
	in.arr[0] = 91
	println(a.in.arr[0], in.arr[0])
	a.in = in
	println(a.in.arr[0])

	// self assignment via pointer
	*p = *p
	show("a", &a)
}
