package main

// Package-level arrays, structs, slices, maps and pointers mutated from
// functions, methods and closures.

type Cfg struct {
	name  string
	level int
	tags  SS
	lim   A2
}
type SS []string
type A2 [2]int

var counter int
var table [5]int
var cfg Cfg
var cfgPtr = &cfg
var list []int
var index = map[string]int{}
var hooks []func() int
var grid [3][3]uint8
var total int64
var name = "init"
var flags struct {
	a, b bool
	n    int
}

func bump() int {
	counter++
	return counter
}

func fill() {
	for i := range table {
		table[i] = i * i
	}
}

func (c *Cfg) raise() { c.level++ }

func record(k string) {
	index[k] = len(list)
	list = append(list, bump())
}

func snapshot() [5]int { return table }

func main() {
	println(counter, table[4], cfg.level, len(list), len(index), len(hooks), total, name)
	bump()
	bump()
	fill()
	println(counter, table[4])

	snap := snapshot()
	table[4] = -1
	println(snap[4], table[4])

	cfg.name = "c"
	cfg.raise()
	cfgPtr.raise()
	cfgPtr.tags = append(cfgPtr.tags, "t1")
	cfg.tags = append(cfg.tags, "t2")
	cfg.lim[1] = 9
	println(cfg.name, cfg.level, len(cfgPtr.tags), cfgPtr.tags[1], cfgPtr.lim[1])

	copyCfg := cfg
	copyCfg.level = 100
	copyCfg.lim[1] = 100
	println(cfg.level, cfg.lim[1])
	cfg = Cfg{name: "reset"}
	println(cfg.name, cfg.level, len(cfg.tags), cfg.lim[1], cfgPtr.name)

	record("a")
	record("b")
	record("a")
	println(len(list), index["a"], index["b"], list[2])

	for i := 0; i < 3; i++ {
		k := i
		hooks = append(hooks, func() int { counter += k; return counter })
	}
	s := 0
	for _, h := range hooks {
		s += h()
	}
	println(s, counter)

	for i := 0; i < 3; i++ {
		for j := 0; j < 3; j++ {
			grid[i][j] = uint8(i*100 + j*50)
		}
	}
	g := grid
	g[2][2] = 1
	println(grid[2][2], grid[1][1], g[2][2])

	total = 1 << 40
	total += int64(counter)
	println(total)

	name += "+main"
	func() { name += "+closure" }()
	println(name)

	flags.a = true
	flags.n = 3
	f := flags
	f.b = true
	println(flags.a, flags.b, flags.n, f.b)

	// pointer to global element
	pe := &table[2]
	*pe = 222
	pl := &list[0]
	*pl = 111
	println(table[2], list[0])
}
