package main

// Map literals, nested literals in maps, struct values in maps.

type P struct{ x, y int }

func main() {
	m := map[string]int{"one": 1, "two": 2, "three": 3}
	println(len(m), m["one"], m["two"], m["three"], m["four"])

	e := map[int]string{}
	println(len(e), e[1] == "")

	mp := map[string]P{"a": {1, 2}, "b": {x: 3}}
	println(mp["a"].x, mp["a"].y, mp["b"].x, mp["b"].y, mp["c"].x)

	mpp := map[string]*P{"a": {1, 2}, "n": nil}
	println(mpp["a"].y, mpp["n"] == nil, mpp["zz"] == nil, len(mpp))

	ms := map[int][]int{1: {1}, 2: {1, 2}, 3: nil}
	println(len(ms[1]), len(ms[2]), len(ms[3]), len(ms[4]))

	mm := map[string]map[string]int{"x": {"a": 1}, "y": {}}
	println(mm["x"]["a"], len(mm["y"]), len(mm))

	kp := map[P]string{{1, 2}: "p12", {3, 4}: "p34"}
	println(kp[P{1, 2}], kp[P{3, 4}], kp[P{5, 6}] == "")

	// literal in a loop: each iteration a new map
	var maps []map[int]int
	for i := 0; i < 3; i++ {
		maps = append(maps, map[int]int{i: i * 10})
	}
	maps[0][0] = 99
	for i, mi := range maps {
		println(len(mi), mi[i])
	}

	// computed keys and values
	k := 5
	cm := map[int]int{k: k * k, k + 1: (k + 1) * (k + 1)}
	println(cm[5], cm[6])

	// map inside struct literal
	type H struct {
		name string
		tags map[string]bool
	}
	h := H{"h", map[string]bool{"a": true}}
	println(h.name, h.tags["a"], h.tags["b"])
	h2 := H{name: "nomap"}
	println(h2.name, len(h2.tags))

	// bool / byte keys
	bm := map[bool]int{true: 1, false: 0}
	println(bm[true], bm[false])
	by := map[byte]int{'a': 1, 'b': 2}
	println(by['a'], by['b'], by['c'])
}
