package main

// Return operands that read named results in every permutation.

type P struct{ x, y int }

func swap2(a, b int) (x, y int) {
	x, y = a, b
	return y, x
}

func rot3l(a, b, c int) (x, y, z int) {
	x, y, z = a, b, c
	return y, z, x
}

func rot3r(a, b, c int) (x, y, z int) {
	x, y, z = a, b, c
	return z, x, y
}

func rev4(a, b, c, d int) (w, x, y, z int) {
	w, x, y, z = a, b, c, d
	return z, y, x, w
}

func chain(a, b int) (x, y int) {
	x, y = a, b
	return x + y, x - y
}

func strs(a, b string) (s, t string) {
	s, t = a, b
	return t + s, s + t
}

func mixedKinds(a int, b string) (n int, s string, m int) {
	n, s, m = a, b, len(b)
	return m, s + s, n
}

func structs(a, b P) (p, q P) {
	p, q = a, b
	return q, p
}

func fields(a P) (p P, s int) {
	p = a
	s = 100
	return P{p.y, p.x}, p.x + p.y + s
}

func int64s(a, b int64) (hi, lo int64) {
	hi, lo = a, b
	if hi < lo {
		return lo, hi
	}
	return
}

func dup(a int) (x, y int) {
	x = a
	y = -a
	return y, y
}

func main() {
	x, y := swap2(1, 2)
	println(x, y)
	a, b, c := rot3l(1, 2, 3)
	println(a, b, c)
	a, b, c = rot3r(1, 2, 3)
	println(a, b, c)
	w, x, y, z := rev4(1, 2, 3, 4)
	println(w, x, y, z)
	x, y = chain(10, 3)
	println(x, y)
	s, t := strs("ab", "cd")
	println(s, t)
	n, s2, m := mixedKinds(7, "xyz")
	println(n, s2, m)
	p, q := structs(P{1, 2}, P{3, 4})
	println(p.x, p.y, q.x, q.y)
	p, n = fields(P{5, 6})
	println(p.x, p.y, n)
	h, l := int64s(5, 5000000000)
	println(h, l)
	h, l = int64s(5000000000, 5)
	println(h, l)
	x, y = dup(4)
	println(x, y)
}
