package main

// Embedded structs: promoted fields and methods, shadowing, embedded
// pointers, multi-level embedding, method sets through interfaces.

type Base struct {
	id   int
	name string
}

func (b *Base) Id() int          { return b.id }
func (b *Base) SetId(v int)      { b.id = v }
func (b *Base) Describe() string { return "base:" + b.name }

type Mid struct {
	Base
	level int
}

func (m *Mid) Describe() string { return "mid>" + m.Base.Describe() }

type Top struct {
	Mid
	name string // shadows Base.name
}

type PtrEmb struct {
	*Base
	extra int
}

type Ider interface {
	Id() int
	SetId(int)
}

type Describer interface{ Describe() string }

func bump(i Ider) { i.SetId(i.Id() + 1) }

func main() {
	m := Mid{Base{1, "b"}, 2}
	println(m.id, m.name, m.level, m.Base.id)
	m.id = 10
	m.SetId(m.Id() + 1)
	println(m.Id(), m.Base.Id(), m.Describe(), m.Base.Describe())

	t := Top{Mid{Base{5, "deep"}, 1}, "top"}
	println(t.name, t.Mid.name, t.Base.name, t.Mid.Base.name, t.id, t.level)
	println(t.Describe(), t.Mid.Describe(), t.Base.Describe())
	t.SetId(6)
	println(t.id, t.Mid.Base.id)

	// interfaces satisfied by promotion
	var i Ider = &m
	bump(i)
	println(m.id)
	i = &t
	bump(i)
	println(t.id)
	var d Describer = &t
	println(d.Describe())
	d = &m
	println(d.Describe())
	d = &m.Base
	println(d.Describe())

	// embedded pointer shares the base
	b := &Base{100, "shared"}
	p1 := PtrEmb{b, 1}
	p2 := PtrEmb{b, 2}
	p1.SetId(101)
	println(p2.Id(), b.id, p1.name)
	p2.name = "renamed"
	println(p1.Describe())
	var ip Ider = &p1
	bump(ip)
	println(b.id)

	// copying a struct with an embedded value copies it
	m2 := m
	m2.SetId(999)
	println(m.id, m2.id)

	// composite literal with keyed embedded field
	k := Top{Mid: Mid{Base: Base{id: 7}}, name: "k"}
	println(k.id, k.name, k.Base.name == "")

	// method value through promotion
	f := t.Id
	t.SetId(50)
	println(f(), t.Id())

	// pointer to embedded field
	pb := &t.Base
	pb.id = 60
	println(t.id)
}
