package main

// Small data structures: ring buffer, linked queue, binary heap as slice,
// adjacency lists with BFS, LRU via slices.

type IS []int
type A4 [4]int
type Adj []IS

type Ring struct {
	buf        A4
	head, size int
}

func (r *Ring) push(v int) bool {
	if r.size == len(r.buf) {
		return false
	}
	r.buf[(r.head+r.size)%len(r.buf)] = v
	r.size++
	return true
}

func (r *Ring) pop() (int, bool) {
	if r.size == 0 {
		return 0, false
	}
	v := r.buf[r.head]
	r.head = (r.head + 1) % len(r.buf)
	r.size--
	return v, true
}

type qnode struct {
	v    string
	next *qnode
}
type Queue struct {
	head, tail *qnode
	n          int
}

func (q *Queue) put(v string) {
	nd := &qnode{v: v}
	if q.tail == nil {
		q.head, q.tail = nd, nd
	} else {
		q.tail.next = nd
		q.tail = nd
	}
	q.n++
}

func (q *Queue) get() string {
	nd := q.head
	q.head = nd.next
	if q.head == nil {
		q.tail = nil
	}
	q.n--
	return nd.v
}

type Heap struct{ a IS }

func (h *Heap) push(v int) {
	h.a = append(h.a, v)
	i := len(h.a) - 1
	for i > 0 {
		p := (i - 1) / 2
		if h.a[p] <= h.a[i] {
			break
		}
		h.a[p], h.a[i] = h.a[i], h.a[p]
		i = p
	}
}

func (h *Heap) pop() int {
	top := h.a[0]
	last := len(h.a) - 1
	h.a[0] = h.a[last]
	h.a = h.a[:last]
	i := 0
	for {
		l, r, m := 2*i+1, 2*i+2, i
		if l < last && h.a[l] < h.a[m] {
			m = l
		}
		if r < last && h.a[r] < h.a[m] {
			m = r
		}
		if m == i {
			break
		}
		h.a[i], h.a[m] = h.a[m], h.a[i]
		i = m
	}
	return top
}

func bfs(adj Adj, start int) IS {
	dist := make(IS, len(adj))
	for i := range dist {
		dist[i] = -1
	}
	dist[start] = 0
	queue := IS{start}
	for len(queue) > 0 {
		u := queue[0]
		queue = queue[1:]
		for _, w := range adj[u] {
			if dist[w] < 0 {
				dist[w] = dist[u] + 1
				queue = append(queue, w)
			}
		}
	}
	return dist
}

func main() {
	var r Ring
	for i := 1; i <= 5; i++ {
		println(r.push(i * 10))
	}
	v, ok := r.pop()
	println(v, ok)
	r.push(60)
	for r.size > 0 {
		v, _ = r.pop()
		println(v)
	}
	_, ok = r.pop()
	println(ok, r.head)

	q := &Queue{}
	q.put("a")
	q.put("b")
	println(q.get(), q.n)
	q.put("c")
	println(q.get(), q.get(), q.n, q.head == nil, q.tail == nil)
	q.put("d")
	println(q.get())

	h := &Heap{}
	for _, x := range []int{5, 3, 8, 1, 9, 2, 7, 3} {
		h.push(x)
	}
	out := 0
	for len(h.a) > 0 {
		out = out*10 + h.pop()
	}
	println(out)

	adj := []IS{{1, 2}, {3}, {3, 4}, {5}, {5}, {}, {0}}
	d := bfs(adj, 0)
	println(d[0], d[1], d[2], d[3], d[4], d[5], d[6])
}
