package main

// Method values bind the receiver at evaluation time; pointer receivers only.

type Acc struct {
	sum  int
	name string
}

func (a *Acc) Add(n int) int {
	a.sum += n
	return a.sum
}

func (a *Acc) Name() string { return a.name }

func (a *Acc) Reset() { a.sum = 0 }

type Op func(int) int

func apply(f Op, vs ...int) int {
	r := 0
	for _, v := range vs {
		r = f(v)
	}
	return r
}

type Holder struct {
	cb   func(int) int
	name func() string
}

func main() {
	a := &Acc{name: "a"}
	add := a.Add
	add(1)
	add(2)
	r3 := add(3)
	println(a.sum, r3)

	// addressable value: &v is taken implicitly
	var v Acc
	v.name = "v"
	vadd := v.Add
	vadd(5)
	println(v.sum, v.Name())

	// bound receiver is the pointer at evaluation time
	b := &Acc{name: "b"}
	p := a
	nameOf := p.Name
	p = b
	println(nameOf(), p.Name())

	// method value as argument, field, map value, slice element
	r3 = apply(a.Add, 1, 2, 3)
	println(r3, a.sum)
	h := Holder{cb: b.Add, name: b.Name}
	h.cb(7)
	println(h.name(), b.sum)
	m := map[string]func(int) int{"a": a.Add, "b": b.Add}
	m["a"](100)
	m["b"](200)
	println(a.sum, b.sum)
	fs := []func(){a.Reset, b.Reset}
	for _, f := range fs {
		f()
	}
	println(a.sum, b.sum)

	// method value from slice element and struct field
	accs := []Acc{{name: "x"}, {name: "y"}}
	f0 := accs[0].Add
	f0(4)
	println(accs[0].sum, accs[1].sum)
	type W struct{ in Acc }
	w := W{Acc{name: "w"}}
	fw := w.in.Add
	fw(9)
	println(w.in.sum, w.in.Name())

	// comparing with nil and calling through a variable of func type
	var g func(int) int
	println(g == nil)
	g = a.Add
	println(g != nil, g(1))

	// closure wrapping a method call vs method value
	c := &Acc{}
	wrap := func(n int) int { return c.Add(n) }
	bound := c.Add
	c = &Acc{sum: 1000}
	println(wrap(1), bound(1))
}
