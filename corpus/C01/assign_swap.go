package main

// Parallel assignment: all right-hand operands (and index/pointer operands
// on the left) are evaluated before any assignment happens.

type P struct{ x, y int }
type IS []int

func main() {
	a, b := 1, 2
	a, b = b, a
	println(a, b)

	a, b, c := 1, 2, 3
	a, b, c = c, a, b
	println(a, b, c)
	a, b, c = b, c, a
	println(a, b, c)

	// fibonacci step
	x, y := 0, 1
	for i := 0; i < 10; i++ {
		x, y = y, x+y
	}
	println(x, y)

	// slice elements
	s := []int{10, 20, 30, 40}
	s[0], s[3] = s[3], s[0]
	s[1], s[2] = s[2], s[1]
	println(s[0], s[1], s[2], s[3])

	// index evaluated before assignment
	i := 0
	i, s[i] = 2, 99
	println(i, s[0], s[2])
	i = 1
	s[i], i = 77, 3
	println(i, s[1], s[3])

	// array elements
	arr := [3]int{1, 2, 3}
	arr[0], arr[1], arr[2] = arr[2], arr[0], arr[1]
	println(arr[0], arr[1], arr[2])

	// struct fields
	p := P{1, 2}
	p.x, p.y = p.y, p.x
	println(p.x, p.y)
	q := P{3, 4}
	p, q = q, p
	println(p.x, p.y, q.x, q.y)
	p.x, q.x = q.x, p.x
	println(p.x, p.y, q.x, q.y)

	// through pointers
	m, n := 5, 6
	pm, pn := &m, &n
	*pm, *pn = *pn, *pm
	println(m, n)
	pm, pn = pn, pm
	*pm = 100
	println(m, n)

	// map elements
	mp := map[string]int{"a": 1, "b": 2}
	mp["a"], mp["b"] = mp["b"], mp["a"]
	println(mp["a"], mp["b"])
	mp["c"], mp["a"] = mp["a"]+mp["b"], mp["c"]
	println(mp["a"], mp["b"], mp["c"])

	// strings
	u, v := "left", "right"
	u, v = v, u
	println(u, v)

	// reverse in place
	r := []int{1, 2, 3, 4, 5, 6, 7}
	for l, h := 0, len(r)-1; l < h; l, h = l+1, h-1 {
		r[l], r[h] = r[h], r[l]
	}
	for _, e := range r {
		println(e)
	}

	// pointer retargeting in the same statement
	pp := &P{1, 2}
	qq := &P{3, 4}
	pp, pp.x = qq, 50 // pp.x refers to the OLD pp
	println(pp.x, pp.y, qq.x)
}
