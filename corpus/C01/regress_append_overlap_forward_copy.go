// DEFECT CANDIDATE: append(x, y...) that stays within cap(x) copies y element by element in
// ascending order; when y overlaps the destination x[len(x):] from below, elements are
// overwritten before they are read (Go specifies memmove semantics; copy() is right).
//
// Wa output:
//   5 1 2 2 2 2
// Go output:
//   5 1 2 2 3 4
//
// Root cause: /repo/internal/backends/compiler_wat/wir/value_slice.go (*Slice).genAppendFunc,
// the "if_new_len_le_cap" branch: `loop1` does `*dest = *src; src += size; dest += size` upwards
// without checking whether src < dest < src + n*size.
// Repair: copy downwards when src < dest (see /verif/proposed_fixes/C01-append-overlap.diff if present).
package main

func main() {
	buf := make([]int, 4, 8)
	buf[0], buf[1], buf[2], buf[3] = 1, 2, 3, 4
	buf = append(buf[:2], buf[1:4]...)
	println(len(buf), buf[0], buf[1], buf[2], buf[3], buf[4])
}
