package main

// Package-level variables are initialised in dependency order, then
// init() functions run in source order, then main.

var trace string

func mark(name string, v int) int {
	trace += name + ";"
	return v
}

var a = mark("a", b+1) // depends on b
var b = mark("b", c*2) // depends on c
var c = mark("c", 5)
var d = mark("d", 1) // independent: after a (source order among ready ones)
var e, f = mark("e", 1), mark("f", d+1)

var table = makeTable()
var tableSize = len(table)

func makeTable() []int {
	trace += "table;"
	t := make([]int, base)
	for i := range t {
		t[i] = i * base
	}
	return t
}

var base = mark("base", 4)

var fromFunc = compute()

func compute() int { return helper() + 1 }
func helper() int  { return late * 2 }

var late = mark("late", 21)

var str = "x" + suffix
var suffix = "-suffix"

type Cfg struct {
	name string
	n    int
}

var cfg = Cfg{"cfg", a + b}
var pcfg = &cfg
var arr = [3]int{a, b, c}
var lookup = map[string]int{"a": a, "b": b}
var fn = func() int { return a * 100 }

var initRan int

func init() {
	trace += "init1;"
	initRan++
	cfg.n++
}

func init() {
	trace += "init2;"
	initRan += 10
}

func main() {
	println(trace)
	println(a, b, c, d, e, f)
	println(tableSize, table[3], base)
	println(fromFunc, late)
	println(str)
	println(cfg.name, cfg.n, pcfg.n, pcfg == &cfg)
	println(arr[0], arr[1], arr[2], lookup["a"], lookup["b"], fn())
	println(initRan)
}
