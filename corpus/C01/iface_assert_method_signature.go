package main

// A dynamic type assertion to an interface type must look at the whole
// method signature, not only at the method name.

type Shape interface {
	Area() int
}

type Scaler interface {
	Area(scale int) int
}

type Square struct{ s int }

func (q *Square) Area() int { return q.s * q.s }

// Plate has a method called Area too, but with another signature:
// it implements Scaler, not Shape.
type Plate struct{ w, h int }

func (p *Plate) Area(scale int) int { return p.w * p.h * scale }

type Point struct{ x, y int }

func describe(v interface{}) {
	if s, ok := v.(Shape); ok {
		println("shape", s.Area())
	} else if c, ok := v.(Scaler); ok {
		println("scaler", c.Area(10))
	} else {
		println("neither")
	}
}

func kind(v interface{}) int {
	switch v.(type) {
	case Shape:
		return 1
	case Scaler:
		return 2
	}
	return 0
}

func main() {
	println(kind(&Square{3}), kind(&Plate{2, 3}), kind(&Point{1, 2}), kind(7))
	describe(&Square{3})
	describe(&Point{1, 2})
	describe(&Plate{2, 3})
	println("done")
}
