package main

// Shadowing of named results in inner scopes; results used as loop
// variables, as closure captures and through pointers.

func shadow(n int) (r int) {
	r = 1
	if n > 0 {
		r := 100
		r++
		_ = r
	}
	{
		r := 5
		_ = r
	}
	return r + n
}

func shadowReturn(n int) (r int, s string) {
	r, s = 1, "outer"
	for i := 0; i < n; i++ {
		r, s := i*10, "inner"
		if i == 2 {
			return r, s
		}
	}
	return
}

func ptrTo() (r int) {
	p := &r
	*p = 8
	return *p + r
}

func captured() (r int) {
	f := func() { r += 3 }
	f()
	f()
	return r * 2
}

func paramAndResult(a int) (b int) {
	b = a
	a = 100
	return a + b
}

func resultAsRange() (i int, v int32) {
	for i, v = range []int32{5, 6, 7} {
		if v == 6 {
			return
		}
	}
	return -1, -1
}

func recur(n int) (acc int) {
	if n == 0 {
		return
	}
	acc = recur(n-1) + n
	return
}

func multi() (a, b, c int) {
	a = 1
	b = a + 1
	c = b + 1
	a, b, c = c, a, b
	return a + 10, b + 10, c + 10
}

func main() {
	println(shadow(0), shadow(3))
	r, s := shadowReturn(2)
	println(r, s)
	r, s = shadowReturn(5)
	println(r, s)
	println(ptrTo())
	println(captured())
	println(paramAndResult(4))
	i, v := resultAsRange()
	println(i, v)
	println(recur(10))
	a, b, c := multi()
	println(a, b, c)
}
