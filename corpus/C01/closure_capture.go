package main

// Closures capture variables by reference; loop variables are copied
// explicitly (Wa follows pre-1.22 loop semantics: known difference).

type FS []func() int

func counter() func() int {
	c := 0
	return func() int {
		c++
		return c
	}
}

func pair() (func(), func() int) {
	v := 0
	return func() { v += 10 }, func() int { return v }
}

func adder(base int) func(int) int {
	return func(d int) int {
		base += d
		return base
	}
}

func main() {
	c1, c2 := counter(), counter()
	c1()
	c1()
	println(c1(), c2())

	inc, get := pair()
	inc()
	inc()
	println(get())

	a := adder(100)
	a(1)
	println(a(2), a(0))

	// modifications after creation are visible
	x := 1
	f := func() int { return x * 2 }
	x = 21
	println(f())
	g := func() { x++ }
	g()
	g()
	println(x, f())

	// capture of several kinds
	s := []int{1, 2, 3}
	m := map[string]int{"k": 1}
	str := "s"
	type P struct{ a, b int }
	p := P{1, 2}
	arr := [2]int{5, 6}
	h := func() {
		s[0] = 10
		s = append(s, 4)
		m["k"]++
		str += "!"
		p.a = 50
		arr[1] = 60
	}
	h()
	h()
	println(len(s), s[0], m["k"], str, p.a, arr[1])

	// loop variable copies
	var fs FS
	for i := 0; i < 4; i++ {
		j := i
		fs = append(fs, func() int { return j * j })
	}
	for _, fn := range fs {
		println(fn())
	}
	var gs FS
	for _, v := range []int{7, 8, 9} {
		v2 := v
		gs = append(gs, func() int { v2++; return v2 })
	}
	println(gs[0](), gs[0](), gs[1](), gs[2]())

	// via parameter
	var hs FS
	for i := 0; i < 3; i++ {
		hs = append(hs, func(n int) func() int {
			return func() int { return n + 100 }
		}(i))
	}
	println(hs[0](), hs[1](), hs[2]())

	// shared variable declared outside the loop
	var shared FS
	k := 0
	for k = 0; k < 3; k++ {
		shared = append(shared, func() int { return k })
	}
	println(shared[0](), shared[2]())

	// closure over parameter and named result
	acc := func(n int) (r int) {
		add := func() { r += n; n-- }
		for n > 0 {
			add()
		}
		return
	}
	println(acc(4), acc(10))

	// immediately invoked
	println(func(a, b int) int { return a*10 + b }(4, 2))
}
