package main

// Function values in struct fields, map values, slice elements, as
// arguments and results; nil function values; named function types.

type BinOp func(int, int) int
type Pred func(int) bool
type SS []string
type IS []int

type Op struct {
	sym string
	fn  BinOp
}

type Machine struct {
	ops   map[string]BinOp
	trace SS
	hook  func(string)
}

func add(a, b int) int { return a + b }
func sub(a, b int) int { return a - b }

func pick(neg bool) BinOp {
	if neg {
		return sub
	}
	return add
}

func fold(vs IS, init int, f BinOp) int {
	acc := init
	for _, v := range vs {
		acc = f(acc, v)
	}
	return acc
}

func filter(vs IS, p Pred) []int {
	var out []int
	for _, v := range vs {
		if p(v) {
			out = append(out, v)
		}
	}
	return out
}

func not(p Pred) Pred { return func(v int) bool { return !p(v) } }

func (m *Machine) run(sym string, a, b int) int {
	if m.hook != nil {
		m.hook(sym)
	}
	if f, ok := m.ops[sym]; ok {
		return f(a, b)
	}
	return -1
}

func main() {
	ops := []Op{{"+", add}, {"-", sub}, {"*", func(a, b int) int { return a * b }}}
	for _, o := range ops {
		println(o.sym, o.fn(7, 3))
	}

	var f BinOp
	println(f == nil)
	f = add
	println(f != nil, f(1, 2))
	f = pick(true)
	println(f(1, 2), pick(false)(1, 2))

	vs := []int{1, 2, 3, 4, 5, 6}
	println(fold(vs, 0, add), fold(vs, 100, sub), fold(vs, 1, func(a, b int) int { return a * b }))
	even := func(v int) bool { return v%2 == 0 }
	ev := filter(vs, even)
	od := filter(vs, not(even))
	println(len(ev), ev[0], ev[2], len(od), od[0], od[2])

	m := &Machine{ops: map[string]BinOp{"+": add}}
	println(m.run("+", 2, 3), m.run("?", 2, 3))
	m.hook = func(s string) { m.trace = append(m.trace, s) }
	m.ops["-"] = sub
	m.ops["max"] = func(a, b int) int {
		if a > b {
			return a
		}
		return b
	}
	println(m.run("-", 2, 3), m.run("max", 2, 3), m.run("none", 0, 0), len(m.trace), m.trace[1])

	// function value called through several layers
	apply := func(g func(BinOp) int, h BinOp) int { return g(h) }
	println(apply(func(b BinOp) int { return b(10, 4) }, sub))

	// array of funcs, index computed
	table := [3]func(int) int{
		func(x int) int { return x + 1 },
		func(x int) int { return x * 2 },
		func(x int) int { return x * x },
	}
	v := 3
	for i := 0; i < 6; i++ {
		v = table[i%3](v)
	}
	println(v)

	// reassigning a func variable inside itself's call chain
	var step func() int
	n := 0
	step = func() int {
		n++
		step = func() int { n += 10; return n }
		return n
	}
	println(step(), step(), step())

	// function returning multiple funcs
	mk := func() (func(), func() int) {
		c := 0
		return func() { c++ }, func() int { return c }
	}
	inc, get := mk()
	inc()
	inc()
	println(get())

	// func values compared with nil in a struct
	var o Op
	println(o.fn == nil, ops[0].fn != nil)
}
