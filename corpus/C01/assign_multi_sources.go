package main

// Multi-value sources: function calls, map lookups, type assertions.

func two() (int, string) { return 7, "seven" }
func three() (int, int, int) { return 1, 2, 3 }

type T struct {
	n int
	s string
}

func main() {
	var t T
	t.n, t.s = two()
	println(t.n, t.s)

	arr := [3]int{}
	arr[2], arr[1], arr[0] = three()
	println(arr[0], arr[1], arr[2])

	s := make([]int, 3)
	i := 0
	s[i], i, s[2] = three()
	println(s[0], s[1], s[2], i)

	m := map[string]int{"k": 5}
	var v int
	var ok bool
	v, ok = m["k"]
	println(v, ok)
	v, ok = m["zz"]
	println(v, ok)
	m["r"], ok = m["k"]
	println(m["r"], ok)

	var e interface{} = 42
	v, ok = e.(int)
	println(v, ok)
	var str string
	str, ok = e.(string)
	println(len(str), ok)
	e = "hello"
	str, ok = e.(string)
	println(str, ok)

	// blank identifier
	_, str = two()
	println(str)
	v, _ = two()
	println(v)
	_, v, _ = three()
	println(v)

	// pointers as destination
	x, y := 0, ""
	px, py := &x, &y
	*px, *py = two()
	println(x, y)

	// map destination
	ms := map[int]string{}
	var k int
	k, ms[9] = two()
	println(k, ms[9], len(ms))

	// redeclaration with :=
	a, b := two()
	a, c := 9, 10
	println(a, b, c)
}
