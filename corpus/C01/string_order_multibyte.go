package main

// Ordering of strings with valid multi-byte UTF-8 (byte-wise order equals
// code point order for valid UTF-8), prefix relations, empty strings.

type SS []string

func sortS(a SS) {
	for i := 1; i < len(a); i++ {
		for j := i; j > 0 && a[j] < a[j-1]; j-- {
			a[j], a[j-1] = a[j-1], a[j]
		}
	}
}

func cmp(a, b string) int {
	switch {
	case a < b:
		return -1
	case a > b:
		return 1
	}
	return 0
}

func main() {
	words := SS{"zebra", "éclair", "eclair", "世界", "世", "", "a", "ab", "aB", "Z", "é", "e", "ß", "ss", "𝄞", "~", "日本", "日本語"}
	sortS(words)
	for i, w := range words {
		println(i, len(w), w)
	}

	pairs := [][2]string{{"", ""}, {"", "a"}, {"a", ""}, {"abc", "abc"}, {"abc", "abd"}, {"abc", "ab"},
		{"é", "e"}, {"é", "f"}, {"é", "z"}, {"世", "é"}, {"𝄞", "世"}, {"日本", "日本語"}, {"~", "é"}}
	for _, p := range pairs {
		a, b := p[0], p[1]
		println(cmp(a, b), cmp(b, a), a == b, a != b, a <= b, a >= b)
	}

	// equality of strings built in different ways
	x := "日" + "本"
	y := string([]rune{0x65e5, 0x672c})
	z := string([]byte{0xe6, 0x97, 0xa5, 0xe6, 0x9c, 0xac})
	println(x == y, y == z, x == "日本", len(x), cmp(x, z))

	// min / max over a list
	mn, mx := words[0], words[0]
	for _, w := range words {
		if w < mn {
			mn = w
		}
		if w > mx {
			mx = w
		}
	}
	println(mn == "", mx)

	// as map keys after sorting
	m := map[string]int{}
	for i, w := range words {
		m[w] = i
	}
	println(len(m), m["世界"], m["𝄞"], m[""])

	// switch on multi-byte strings
	sw := SS{"é", "世界", "x"}
	for _, w := range sw {
		switch w {
		case "é":
			println("e-acute")
		case "世界":
			println("world")
		default:
			println("other")
		}
	}
}
