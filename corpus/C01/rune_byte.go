package main

// Rune and byte handling: classification, case mapping, arithmetic,
// encoding by hand, comparison.

func isDigit(c byte) bool  { return c >= '0' && c <= '9' }
func isLetter(c byte) bool { return c >= 'a' && c <= 'z' || c >= 'A' && c <= 'Z' }
func upper(c byte) byte {
	if c >= 'a' && c <= 'z' {
		return c - 'a' + 'A'
	}
	return c
}

func encode(r rune) []byte {
	switch {
	case r < 0x80:
		return []byte{byte(r)}
	case r < 0x800:
		return []byte{0xc0 | byte(r>>6), 0x80 | byte(r)&0x3f}
	case r < 0x10000:
		return []byte{0xe0 | byte(r>>12), 0x80 | byte(r>>6)&0x3f, 0x80 | byte(r)&0x3f}
	}
	return []byte{0xf0 | byte(r>>18), 0x80 | byte(r>>12)&0x3f, 0x80 | byte(r>>6)&0x3f, 0x80 | byte(r)&0x3f}
}

func atoi(s string) (n int, ok bool) {
	if s == "" {
		return 0, false
	}
	neg := false
	i := 0
	if s[0] == '-' {
		neg = true
		i = 1
	}
	for ; i < len(s); i++ {
		if !isDigit(s[i]) {
			return 0, false
		}
		n = n*10 + int(s[i]-'0')
	}
	if neg {
		n = -n
	}
	return n, true
}

func main() {
	s := "Hello, World 42!"
	d, l, o := 0, 0, 0
	up := make([]byte, 0, len(s))
	for i := 0; i < len(s); i++ {
		c := s[i]
		switch {
		case isDigit(c):
			d++
		case isLetter(c):
			l++
		default:
			o++
		}
		up = append(up, upper(c))
	}
	println(d, l, o, string(up))

	for _, r := range []rune{'A', 'é', '世', 0x1F600} {
		e := encode(r)
		same := string(e) == string(r)
		println(int(r), len(e), e[0], same)
	}

	for _, t := range []string{"123", "-45", "", "12a", "0", "-"} {
		n, ok := atoi(t)
		println(n, ok)
	}

	// byte arithmetic wraps, rune arithmetic does not (int32)
	var b byte = 'z'
	b += 10
	var r rune = 'z'
	r += 10
	println(b, int(r))
	b = 0
	b--
	println(b)

	// comparisons
	println('a' < 'b', 'Z' < 'a', byte('a') == 97, rune(97) == 'a', '世' > 'z')

	// hex digits
	hex := "0123456789abcdef"
	v := uint32(0xCAFE42)
	out := []byte{}
	for sh := 20; sh >= 0; sh -= 4 {
		out = append(out, hex[(v>>uint32(sh))&15])
	}
	println(string(out))

	// caesar on runes
	msg := []rune("attack at dawn")
	for i, c := range msg {
		if c >= 'a' && c <= 'z' {
			msg[i] = 'a' + (c-'a'+13)%26
		}
	}
	println(string(msg))

	// count runes vs bytes
	u := "naïve café 世界"
	rc := 0
	for range u {
		rc++
	}
	println(len(u), rc, len([]rune(u)))

	// reverse by runes
	rs := []rune(u)
	for i, j := 0, len(rs)-1; i < j; i, j = i+1, j-1 {
		rs[i], rs[j] = rs[j], rs[i]
	}
	println(string(rs))

	// byte slices compared by hand
	x, y := []byte("abc"), []byte("abd")
	eq := len(x) == len(y)
	for i := 0; eq && i < len(x); i++ {
		eq = x[i] == y[i]
	}
	println(eq)
}
