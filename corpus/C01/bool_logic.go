package main

// Boolean values: operators, comparison results stored and combined,
// bool as map value/struct field, De Morgan checks.

type Flags struct{ a, b, c bool }

func xor(a, b bool) bool { return a != b }

func toInt(b bool) int {
	if b {
		return 1
	}
	return 0
}

func main() {
	vals := []bool{false, true}
	for _, a := range vals {
		for _, b := range vals {
			println(a, b, a && b, a || b, !a, a == b, a != b, xor(a, b))
			println(!(a && b) == (!a || !b), !(a || b) == (!a && !b))
		}
	}

	// comparisons produce bools that can be stored
	x, y := 3, 5
	lt := x < y
	ge := x >= y
	eq := x == y
	println(lt, ge, eq, lt && !ge, lt == !ge)

	// bools from different types
	s, t := "a", "b"
	var p, q *int
	var e interface{}
	f := 1.5
	println(s < t, s == t, p == q, p == nil, e == nil, f > 1, f != f)

	// struct of bools
	fl := Flags{true, false, true}
	fl.b = fl.a && fl.c
	fl.c = !fl.c
	println(fl.a, fl.b, fl.c, fl == Flags{true, true, false})

	// map and slice of bools
	seen := map[int]bool{}
	for _, v := range []int{1, 2, 1, 3, 2} {
		if seen[v] {
			println("dup", v)
		}
		seen[v] = true
	}
	println(len(seen), seen[1], seen[9])
	bs := make([]bool, 4)
	bs[1] = true
	bs[3] = !bs[2]
	n := 0
	for _, b := range bs {
		n = n*2 + toInt(b)
	}
	println(n)

	// sieve
	const N = 50
	var comp [N + 1]bool
	primes := 0
	last := 0
	for i := 2; i <= N; i++ {
		if comp[i] {
			continue
		}
		primes++
		last = i
		for j := i * i; j <= N; j += i {
			comp[j] = true
		}
	}
	println(primes, last)

	// complex conditions
	cnt := 0
	for i := 0; i < 100; i++ {
		if (i%3 == 0 || i%5 == 0) && !(i%15 == 0) && i > 10 != (i < 90) {
			cnt++
		}
	}
	println(cnt)

	// bool variables toggled in loops
	on := false
	toggles := 0
	for i := 0; i < 7; i++ {
		on = !on
		if on {
			toggles++
		}
	}
	println(on, toggles)

	// bool results of functions combined without short circuit side effects
	var b1, b2 bool = toInt(true) == 1, toInt(false) == 1
	println(b1, b2, b1 || b2, b1 && b2)
}
