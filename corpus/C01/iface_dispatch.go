package main

// Dynamic dispatch through interfaces stored in slices, maps, struct
// fields; interface holding different implementations over time;
// embedded interfaces in structs.

type Shape interface {
	Area() int
	Name() string
}

type Rect struct{ w, h int }

func (r *Rect) Area() int    { return r.w * r.h }
func (r *Rect) Name() string { return "rect" }

type Sq struct{ s int }

func (q *Sq) Area() int    { return q.s * q.s }
func (q *Sq) Name() string { return "sq" }

type Tri struct{ b, h int }

func (t *Tri) Area() int    { return t.b * t.h / 2 }
func (t *Tri) Name() string { return "tri" }

type Labeled struct {
	Shape // embedded interface
	label string
}

func (l *Labeled) Name() string { return l.label + ":" + l.Shape.Name() }

type Visitor interface{ Visit(s Shape) }
type Summer struct{ total int }

func (s *Summer) Visit(sh Shape) { s.total += sh.Area() }

type Namer struct{ names string }

func (n *Namer) Visit(sh Shape) { n.names += sh.Name() + "," }

type Shapes []Shape

func each(ss Shapes, v Visitor) {
	for _, s := range ss {
		v.Visit(s)
	}
}

func main() {
	shapes := Shapes{&Rect{2, 3}, &Sq{4}, &Tri{6, 3}}
	for _, s := range shapes {
		println(s.Name(), s.Area())
	}
	sum := &Summer{}
	nm := &Namer{}
	each(shapes, sum)
	each(shapes, nm)
	println(sum.total, nm.names)

	// reassigning
	var s Shape = &Rect{1, 1}
	println(s.Name())
	s = &Sq{2}
	println(s.Name(), s.Area())

	// mutation through the interface is seen by the owner
	r := &Rect{2, 2}
	s = r
	r.w = 10
	println(s.Area())

	// embedded interface
	l := &Labeled{&Sq{3}, "L"}
	println(l.Name(), l.Area())
	l.Shape = &Tri{4, 4}
	println(l.Name(), l.Area())
	var s2 Shape = l
	println(s2.Name(), s2.Area())
	shapes = append(shapes, l, &Labeled{l, "LL"})
	println(shapes[4].Name(), shapes[4].Area())

	// map of interfaces
	m := map[string]Shape{"r": &Rect{1, 2}, "s": &Sq{3}}
	println(m["r"].Area()+m["s"].Area(), m["none"] == nil)

	// method value from interface
	f := shapes[1].Area
	shapes[1] = &Sq{100}
	println(f(), shapes[1].Area())

	// interface method call on a result
	pick := func(i int) Shape { return shapes[i%len(shapes)] }
	println(pick(0).Name(), pick(7).Name())

	// interface with basic named type behind a pointer
	var v Visitor = sum
	v.Visit(&Sq{1})
	println(sum.total)
}
