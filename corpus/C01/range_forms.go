package main

// Every form of for-range: arrays, pointers to arrays, slices, strings,
// maps, integers-free; with 0, 1, 2 variables; assigning to existing
// variables, fields and elements; range expression evaluated once.

type P struct{ i, v int }

var evals int

func src() []int {
	evals++
	return []int{10, 20, 30}
}

func main() {
	// slice
	s := []int{5, 6, 7}
	for i, v := range s {
		println(i, v)
	}
	for i := range s {
		s[i] *= 2
	}
	for _, v := range s {
		println(v)
	}
	n := 0
	for range s {
		n++
	}
	println(n)

	// range expression evaluated once
	for i, v := range src() {
		_ = i
		_ = v
	}
	println(evals)

	// length is fixed at loop start; appends are not visited, writes are seen
	t := []int{1, 2, 3}
	cnt := 0
	for i, v := range t {
		if i == 0 {
			t = append(t, 100)
			t[2] = 33
		}
		cnt += v
	}
	println(cnt, len(t))

	// shrinking the variable does not affect the loop
	u := []int{1, 2, 3, 4}
	cnt = 0
	for _, v := range u {
		u = u[:1]
		cnt += v
	}
	println(cnt, len(u))

	// assign to existing variables, struct fields, array elements
	var i, v int
	for i, v = range []int{7, 8, 9} {
	}
	println(i, v)
	var p P
	for p.i, p.v = range []int{4, 5} {
	}
	println(p.i, p.v)
	var pair [2]int
	for pair[0], pair[1] = range []int{1, 2, 3} {
	}
	println(pair[0], pair[1])

	// array (copied) and pointer to array
	arr := [3]int{1, 2, 3}
	for i, v := range arr {
		arr[2] = 100
		println(i, v)
	}
	arr = [3]int{1, 2, 3}
	for i, v := range &arr {
		arr[2] = 100
		println(i, v)
	}
	for i := range arr {
		arr[i] = i
	}
	println(arr[0], arr[1], arr[2])
	var np *[4]int
	for i := range np { // only len is needed: allowed on nil pointer
		n += i
	}
	println(n)

	// nil and empty slices
	var ns []int
	for range ns {
		println("never")
	}
	for range []string{} {
		println("never")
	}

	// string
	for i, r := range "aé" {
		println(i, int(r))
	}
	for i := range "xyz" {
		n += i
	}
	println(n)

	// map with one element (order-free)
	for k, v := range map[string]int{"only": 1} {
		println(k, v)
	}

	// nested ranges with shadowed names
	grid := [][]int{{1, 2}, {3, 4}}
	tot := 0
	for i, row := range grid {
		for i, v := range row {
			tot += i * v
		}
		tot += i * 100
	}
	println(tot)

	// range over slice of structs / pointers
	ps := []P{{1, 2}, {3, 4}}
	for _, q := range ps {
		q.v = 0
	}
	pp := []*P{{1, 2}, {3, 4}}
	for _, q := range pp {
		q.v = 0
	}
	println(ps[0].v, ps[1].v, pp[0].v, pp[1].v)

	// range over a function result that is an array
	f := func() [2]string { return [2]string{"a", "b"} }
	for i, v := range f() {
		println(i, v)
	}

	// continue / break
	for i := range [10]int{} {
		if i%2 == 0 {
			continue
		}
		if i > 6 {
			break
		}
		println(i)
	}
}
