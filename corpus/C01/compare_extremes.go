package main

// Comparisons at the extremes of every integer type; signed vs unsigned
// interpretation of the same bit pattern; min/max scans.

func main() {
	var i32min, i32max int32 = -2147483648, 2147483647
	println(i32min < i32max, i32min < 0, i32max > 0, i32min <= i32min, i32max >= i32min, i32min == -i32max-1)
	var u32max uint32 = 4294967295
	var u32mid uint32 = 2147483648
	println(u32max > u32mid, u32mid > 2147483647, u32max > 0, u32mid < u32max, uint32(i32min) == u32mid, int32(u32mid) < 0)

	var i64min, i64max int64 = -9223372036854775808, 9223372036854775807
	println(i64min < i64max, i64min < 0, i64max > 0, i64min == -i64max-1, i64min < int64(i32min), i64max > int64(u32max))
	var u64max uint64 = 18446744073709551615
	var u64mid uint64 = 9223372036854775808
	println(u64max > u64mid, u64mid > 9223372036854775807, uint64(i64min) == u64mid, int64(u64mid) < 0, u64max > uint64(u32max))

	var u8a, u8b uint8 = 0, 255
	var u16a, u16b uint16 = 0, 65535
	println(u8a < u8b, u8b > 127, u8b+1 == u8a, u16a < u16b, u16b > 32767, u16b+1 == u16a)

	// same bits, different order
	a, b := int32(-1), int32(1)
	println(a < b, uint32(a) < uint32(b), int64(a) < int64(b), uint64(a) < uint64(b), uint8(a) < uint8(b))

	// high half matters for 64-bit
	x, y := int64(1)<<32, int64(1)<<32+1
	println(x < y, x == y, x+1 == y, int32(x) == int32(y)-1, uint64(x) > 4294967295)
	p, q := int64(0x00000001ffffffff), int64(0x0000000200000000)
	println(p < q, p+1 == q, q-p)

	// scans
	vals := []int32{5, -3, 2147483647, -2147483648, 0, 17}
	mn, mx := vals[0], vals[0]
	for _, v := range vals {
		if v < mn {
			mn = v
		}
		if v > mx {
			mx = v
		}
	}
	println(mn, mx)
	uvals := []uint32{5, 4294967295, 0, 2147483648, 17}
	umn, umx := uvals[0], uvals[0]
	for _, v := range uvals {
		if v < umn {
			umn = v
		}
		if v > umx {
			umx = v
		}
	}
	println(umn, umx)
	lvals := []int64{1 << 40, -(1 << 40), 1 << 31, -(1 << 31), 0}
	lmn, lmx := lvals[0], lvals[0]
	for _, v := range lvals {
		if v < lmn {
			lmn = v
		}
		if v > lmx {
			lmx = v
		}
	}
	println(lmn, lmx)

	// three-way compare helper on each width
	cmp32 := func(a, b int32) int {
		if a < b {
			return -1
		}
		if a > b {
			return 1
		}
		return 0
	}
	cmpu := func(a, b uint32) int {
		if a < b {
			return -1
		}
		if a > b {
			return 1
		}
		return 0
	}
	println(cmp32(-1, 1), cmpu(0xffffffff, 1), cmp32(i32min, i32max), cmpu(u32mid, u32mid-1), cmp32(7, 7))

	// loop bounds near the maximum
	n := 0
	for i := i32max - 3; i < i32max; i++ {
		n++
	}
	for u := uint8(250); u >= 250; u++ {
		n++
	}
	for d := uint8(3); d > 0; d-- {
		n++
	}
	println(n)

	// int (32-bit in Wa): stay well inside
	k, l := -1000000, 1000000
	println(k < l, k*1000 < l, -k == l)
}
