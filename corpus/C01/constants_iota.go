package main

// Constants: iota patterns, typed/untyped, arbitrary precision constant
// arithmetic, implicit repetition.

const (
	A = iota
	B
	C
	_
	E
)

const (
	KB = 1 << (10 * (iota + 1))
	MB
	GB
)

const (
	F0 uint8 = 1 << iota
	F1
	F2
	F3
)

const (
	x0, y0 = iota, iota * 10
	x1, y1
	x2, y2
)

type Weekday int32

const (
	Sun Weekday = iota
	Mon
	Tue
)

const (
	S0 = "s"
	S1 = S0 + S0
	S2 = S1 + "!"
)

const big = 1 << 100
const huge = big * big
const (
	p = iota * 3
	q = "str"
	r = iota
	s
)

const typed int64 = 1 << 40
const fl = 2.5
const mixed = fl * 4

func next(d Weekday) Weekday { return (d + 1) % 3 }

func main() {
	println(A, B, C, E)
	println(KB, MB, GB)
	println(F0, F1, F2, F3, F1|F3)
	println(x0, y0, x1, y1, x2, y2)
	println(int32(Sun), int32(Mon), int32(Tue), int32(next(Tue)), int32(next(Mon)))
	println(S0, S1, S2, len(S2))
	println(big>>98, huge>>199, big/(1<<90))
	println(p, q, r, s)
	println(typed, typed>>38, int32(typed>>20))
	println(int(mixed), int(fl*2), mixed == 10)

	// untyped constants adopt the type of the context
	var u8 uint8 = 255
	var i64 int64 = 1 << 40
	println(u8&0x0f, i64+1, i64*2)
	var f32 float32 = 1
	var f64 float64 = 1
	println(int(f32*3), int(f64*3))
	const one = 1
	println(u8+one, i64+one, int(f64+one))

	// constant expressions
	const (
		w   = 7
		h   = 3
		wh  = w * h
		div = w / h
		rem = w % h
		fd  = w / 3.0
		cmp = w > h
		sh  = w << h
		str = "w" + "h"
	)
	println(wh, div, rem, int(fd*3), cmp, sh, str)

	// local iota
	const (
		l0 = iota + 100
		l1
	)
	println(l0, l1)

	// character and large constants
	const ch = 'A'
	const chs = ch + 2
	println(int(ch), int(chs), string(rune(chs)))
	const maxU32 = 1<<32 - 1
	const maxI64 = 1<<63 - 1
	println(uint32(maxU32), int64(maxI64), uint64(maxI64)+1)

	// len of constant string / array is constant
	const ls = len("hello")
	var arr [ls]int
	println(ls, len(arr))
}
