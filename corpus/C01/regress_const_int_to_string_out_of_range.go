package main

const big = 0x100000041

func main() {
	s := string(rune(65))
	t := string(big)
	println(s, len(t), t == "�")
}
