package main

// The zero value of every kind of type, for locals, globals, new(), make,
// struct fields and array elements.

type S struct {
	i   int
	i8  uint8
	i16 uint16
	i32 int32
	u32 uint32
	i64 int64
	u64 uint64
	f32 float32
	f64 float64
	b   bool
	s   string
	p   *int
	sl  IS
	fn  func() int
	e   interface{}
	arr A3
	in  struct{ a, b int }
}
type IS []int
type A3 [3]int

var gi int
var gs string
var gb bool
var gp *S
var gsl []int
var gst S
var garr [4]string
var ge interface{}
var gfn func()

func showS(t *S) {
	println(t.i, t.i8, t.i16, t.i32, t.u32, t.i64, t.u64)
	println(t.f32 == 0, t.f64 == 0, t.b, t.s == "", len(t.s))
	println(t.p == nil, t.sl == nil, len(t.sl), cap(t.sl), t.fn == nil, t.e == nil)
	println(t.arr[0], t.arr[1], t.arr[2], t.in.a, t.in.b)
}

func main() {
	println(gi, gs == "", gb, gp == nil, gsl == nil, len(gsl), ge == nil, gfn == nil)
	println(len(garr), garr[0] == "", garr[3] == "")
	showS(&gst)

	var l S
	showS(&l)
	showS(new(S))
	showS(&S{})

	var i int
	var u8 uint8
	var i64 int64
	var f float64
	var b bool
	var s string
	var p *int
	var sl []string
	var fn func(int) int
	var e interface{}
	var arr [3]bool
	var pp **int
	println(i, u8, i64, f == 0, b, s == "", p == nil, sl == nil, fn == nil, e == nil, pp == nil)
	println(arr[0], arr[1], arr[2])

	pi := new(int)
	ps := new(string)
	pb := new(bool)
	pa := new([2]int64)
	println(*pi, *ps == "", *pb, pa[0], pa[1])

	ms := make([]int, 3)
	mss := make([]string, 2)
	msp := make([]*int, 2)
	mst := make([]S, 1)
	println(ms[0], ms[2], mss[1] == "", msp[0] == nil, mst[0].i, mst[0].s == "")
	mc := make([]int, 2, 5)
	mc2 := mc[:5]
	println(mc2[2], mc2[4])

	// zero values re-established in loops
	for k := 0; k < 3; k++ {
		var z int
		var zs S
		var za [2]int
		println(z, zs.i, za[1])
		z = 5
		zs.i = 6
		za[1] = 7
	}

	// map zero elements
	// (S contains an array: not usable as a map value in Wa, known finding array_eq)
	m := map[string]struct {
		i int
		s string
		p *int
	}{}
	println(m["x"].i, m["x"].s == "", m["x"].p == nil)
	mi := map[int][]int{}
	println(mi[0] == nil, len(mi[0]))
}
