// DEFECT CANDIDATE (same root cause as known finding:array_eq, WIDER trigger):
// converting an array -- or a struct that contains an array -- to an interface, or using it as a
// map VALUE (map values are stored as interfaces by the runtime), aborts the compiler.
//
// Wa output:
//   ../../../repo/internal/backends/compiler_wat/wir/value_struct.go:380: v.Type() != r.Type()   (exit 1)
// Go output:
//   2
//   2
//   2
//
// Root cause: /repo/internal/backends/compiler_wat/wir/value_array.go: aArray embeds aStruct (over the
// synthetic "<name>.underlying" struct) and does not override emitEq / emitCompare; the inherited
// aStruct.emitEq/emitCompare (value_struct.go:352/378) compare v.typ (the underlying struct) with
// r.Type() (the Array type) and call logger.Fatal.  The interface machinery generates a $$compare helper
// for every type stored in an interface, so no `==` has to appear in the source.
// Repair: /verif/proposed_fixes/C01-array-eq-compare.diff (if present).
package main

type A [2]int
type S struct {
	a A
	n int
}

func main() {
	a := A{1, 2}
	var e interface{} = a
	println(e.(A)[1])
	m := map[string]A{"k": {1, 2}}
	println(m["k"][1])
	ms := map[string]S{"k": {A{1, 2}, 3}}
	println(ms["k"].a[1])
}
