package main

// Wrap-around arithmetic at every width and signedness.

func main() {
	var u8 uint8 = 250
	u8 += 10
	println(u8)
	u8 -= 20
	println(u8)
	u8 *= 3
	println(u8)
	var a8, b8 uint8 = 200, 100
	println(a8+b8, a8-b8, b8-a8, a8*b8, a8/b8, a8%b8)

	var u16 uint16 = 65535
	u16++
	println(u16)
	u16--
	println(u16)
	var a16, b16 uint16 = 40000, 30000
	println(a16+b16, b16-a16, a16*b16)

	var i32 int32 = 2147483647
	i32++
	println(i32)
	i32--
	println(i32)
	var a32, b32 int32 = 2000000000, 1000000000
	println(a32+b32, -a32-b32, a32*b32, a32*3)
	var m32 int32 = -2147483648
	println(-m32, m32-1, m32*2, m32+m32)

	var u32 uint32 = 4294967295
	u32++
	println(u32)
	u32--
	println(u32)
	var au, bu uint32 = 3000000000, 2000000000
	println(au+bu, bu-au, au*bu, au*2)

	var i64 int64 = 9223372036854775807
	i64++
	println(i64)
	i64--
	println(i64)
	var a64, b64 int64 = 9000000000000000000, 5000000000000000000
	println(a64+b64, -a64-b64, a64*b64, a64*3)

	var u64 uint64 = 18446744073709551615
	u64++
	println(u64)
	u64--
	println(u64)
	var aw, bw uint64 = 10000000000000000000, 9000000000000000000
	println(aw+bw, bw-aw, aw*bw)

	// negation of unsigned
	var n8 uint8 = 1
	var n16 uint16 = 1
	var n32 uint32 = 1
	var n64 uint64 = 1
	println(-n8, -n16, -n32, -n64)

	// intermediate results are truncated at each step
	var x8 uint8 = 255
	println((x8+1)/2, (x8*2)/2, uint16(x8)+1)
	var y16 uint16 = 65535
	println((y16+1)/2, (y16*y16)>>8)

	// comparisons after wrap
	println(x8+1 < x8, y16+1 == 0, a8+b8 > a8)

	// accumulation loops
	var acc8 uint8
	var acc16 uint16
	var acc32 uint32
	var s32 int32
	for i := 0; i < 1000; i++ {
		acc8 += uint8(i)
		acc16 += uint16(i * 77)
		acc32 = acc32*31 + uint32(i)
		s32 = s32*31 + int32(i)
	}
	println(acc8, acc16, acc32, s32)
}
