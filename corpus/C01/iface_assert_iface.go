package main

// Assertions from one interface type to another, method sets that overlap,
// same method names with different signatures in unrelated types.

type Reader interface{ Read() int }
type Writer interface{ Write(v int) }
type ReadWriter interface {
	Reader
	Writer
}
type Namer interface{ Name() string }
type IntNamer interface{ Name() int }
type Sizer interface{ Size(unit int) int }
type Sizer0 interface{ Size() int }

type File struct{ v int }

func (f *File) Read() int    { return f.v }
func (f *File) Write(v int)  { f.v = v }
func (f *File) Name() string { return "file" }
func (f *File) Size() int    { return 1 }

type RO struct{ v int }

func (r *RO) Read() int         { return r.v }
func (r *RO) Name() int         { return 99 }
func (r *RO) Size(unit int) int { return r.v * unit }

type Nothing struct{}

func probe(tag string, e interface{}) {
	_, r := e.(Reader)
	_, w := e.(Writer)
	_, rw := e.(ReadWriter)
	_, n := e.(Namer)
	_, in := e.(IntNamer)
	_, s := e.(Sizer)
	_, s0 := e.(Sizer0)
	println(tag, r, w, rw, n, in, s, s0)
}

func main() {
	probe("file", &File{1})
	probe("ro", &RO{2})
	probe("nothing", &Nothing{})
	probe("int", 5)
	probe("nil", nil)

	var r Reader = &File{10}
	if w, ok := r.(Writer); ok {
		w.Write(20)
	}
	println(r.Read())
	rw := r.(ReadWriter)
	rw.Write(30)
	println(rw.Read(), r.Read())
	if n, ok := r.(Namer); ok {
		println(n.Name())
	}
	if _, ok := r.(IntNamer); !ok {
		println("file is no IntNamer")
	}

	r = &RO{7}
	if _, ok := r.(Writer); !ok {
		println("ro is no Writer")
	}
	if n, ok := r.(IntNamer); ok {
		println(n.Name())
	}
	if _, ok := r.(Namer); !ok {
		println("ro is no Namer")
	}
	if s, ok := r.(Sizer); ok {
		println(s.Size(3))
	}
	if _, ok := r.(Sizer0); !ok {
		println("ro is no Sizer0")
	}

	// back to concrete through interface chain
	var e interface{} = r
	r2 := e.(Reader)
	ro := r2.(*RO)
	ro.v = 70
	println(r.Read(), e.(Reader).Read())

	// interface to interface{} and back keeps identity
	var e2 interface{} = rw
	f := e2.(*File)
	println(f == rw.(*File), f.v)

	// assertion result used directly
	println(e.(Sizer).Size(2), e2.(Namer).Name(), e2.(Sizer0).Size())
}
