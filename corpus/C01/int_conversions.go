package main

// Integer conversions: truncation, sign extension, zero extension, between
// all width/sign combinations.

func main() {
	var i64 int64 = -1
	println(uint8(i64), uint16(i64), int32(i64), uint32(i64), uint64(i64))
	i64 = 0x123456789abcdef0
	println(uint8(i64), uint16(i64), int32(i64), uint32(i64), uint64(i64))
	i64 = -0x123456789abcdef0
	println(uint8(i64), uint16(i64), int32(i64), uint32(i64), uint64(i64))
	i64 = 0x80000000
	println(int32(i64), uint32(i64), int64(int32(i64)), int64(uint32(i64)))

	var i32 int32 = -2
	println(uint8(i32), uint16(i32), uint32(i32), int64(i32), uint64(i32), uint64(uint32(i32)))
	i32 = 0x12345678
	println(uint8(i32), uint16(i32), uint32(i32), int64(i32))
	i32 = -0x12345678
	println(uint8(i32), uint16(i32), uint32(i32), int64(i32), uint64(i32))

	var u32 uint32 = 0xfffffffe
	println(uint8(u32), uint16(u32), int32(u32), int64(u32), uint64(u32))

	var u8 uint8 = 200
	println(int32(u8), int64(u8), uint16(u8), uint32(u8), uint64(u8))
	var u16 uint16 = 50000
	println(uint8(u16), int32(u16), int64(u16), uint32(u16))

	var u64 uint64 = 0xffffffffffffff80
	println(uint8(u64), uint16(u64), int32(u64), uint32(u64), int64(u64))

	// int (32-bit in Wa: keep values small)
	n := -5
	println(uint8(n), uint16(n), int32(n), int64(n))
	m := 300
	println(uint8(m), uint16(m), int32(m), int64(m), uint32(m), uint64(m))
	println(int(u8), int(u16), int(int32(-7)), int(int64(-9)))

	// chains
	m1 := int32(-1)
	all := uint32(4294967295)
	println(int64(int32(uint16(uint8(i64)))), uint64(uint8(m1)), int32(uint16(m1)))
	println(int64(uint32(m1)), int64(int32(all)))

	// conversion in expressions
	var a, b uint8 = 200, 100
	println(int32(a)+int32(b), uint16(a)*uint16(b), int32(a+b), int64(a)-int64(b)*3)

	// named types
	type Celsius int32
	type Small uint8
	c := Celsius(-40)
	println(int32(c), int64(c)*2, Small(c), uint8(Small(300%256)))
	var s Small = 255
	s++
	println(s, int32(s)-1)

	// byte/rune
	var r rune = 0x1F600
	var by byte = byte(r)
	println(by, int(r), uint16(r), int64(r))
	println(int('a')+1, byte('a'+1), string(rune('a'+2)))

	// bool-free comparisons after conversion
	var neg int32 = -1
	println(uint32(neg) > 100, int64(neg) < 0, uint64(neg) > 1<<63, uint8(neg) == 255)
}
