package main

// Type assertions to concrete types, comma-ok form, on interface{} values
// holding basic types, pointers and structs.  (Failing assertion to string
// whose value is used is a known finding: avoided.)

type P struct{ x, y int }
type Q struct{ x, y int }
type MyInt int32

func main() {
	var e interface{}

	e = int32(42)
	v32, ok := e.(int32)
	println(v32, ok)
	_, ok = e.(int64)
	println(ok)
	_, ok = e.(uint32)
	println(ok)
	_, ok = e.(MyInt)
	println(ok)
	_, ok = e.(bool)
	println(ok)

	e = MyInt(7)
	mi, ok := e.(MyInt)
	println(int32(mi), ok)
	_, ok = e.(int32)
	println(ok)

	e = "str"
	s, ok := e.(string)
	println(s, ok)
	_, ok = e.(int32)
	println(ok)

	e = true
	b, ok := e.(bool)
	println(b, ok)

	e = int64(1) << 40
	v64, ok := e.(int64)
	println(v64, ok)
	e = uint8(200)
	v8, ok := e.(uint8)
	println(v8, ok)
	v16, ok := e.(uint16)
	println(v16, ok)

	e = 2.5
	f, ok := e.(float64)
	println(int(f*2), ok)
	_, ok = e.(float32)
	println(ok)

	// structs: identical layout, different type
	e = P{1, 2}
	p, ok := e.(P)
	println(p.x, p.y, ok)
	q, ok := e.(Q)
	println(q.x, q.y, ok)
	_, ok = e.(*P)
	println(ok)

	// pointers
	pp := &P{3, 4}
	e = pp
	p2, ok := e.(*P)
	println(p2.x, ok, p2 == pp)
	p2.x = 30
	println(pp.x)
	_, ok = e.(P)
	println(ok)
	pq, ok := e.(*Q)
	println(pq == nil, ok)

	// nil interface: every assertion fails
	e = nil
	_, ok = e.(int32)
	println(ok)
	np, ok := e.(*P)
	println(np == nil, ok)

	// typed nil pointer inside interface (e == nil differs: defects/iface_holding_nil_pointer.go)
	var nilp *P
	e = nilp
	np, ok = e.(*P)
	println(np == nil, ok)

	// single-value form on success
	e = int32(5)
	println(e.(int32) + 1)
	e = &P{8, 9}
	println(e.(*P).y)

	// functions and slices inside interfaces
	e = []int{1, 2, 3}
	sl, ok := e.([]int)
	println(len(sl), ok)
	_, ok = e.([]string) // ([]int vs []int32: defects/iface_int_int32_identity.go)
	println(ok)
	e = func(a int) int { return a + 1 }
	fn, ok := e.(func(int) int)
	println(fn(1), ok)
	_, ok = e.(func(int))
	println(ok)
	e = map[string]int{"a": 1}
	mp, ok := e.(map[string]int)
	println(mp["a"], ok)
}
