package main

// Maps keyed by every comparable kind (arrays excluded: known finding).

type K struct {
	a int
	s string
}
type N struct {
	k K
	b bool
}
type Named int32
type I interface{ Id() int }
type T struct{ id int }

func (t *T) Id() int { return t.id }

func main() {
	mi := map[int]string{-1: "neg", 0: "zero", 1 << 30: "big"}
	println(mi[-1], mi[0], mi[1<<30], len(mi))

	m8 := map[uint8]int{0: 1, 255: 2}
	m8[uint8(200)+uint8(55)]++
	println(m8[0], m8[255], len(m8))

	m64 := map[int64]int{1 << 40: 1, -(1 << 40): 2, 1: 3}
	println(m64[1<<40], m64[-(1 << 40)], m64[1], m64[1<<32+1])

	mu64 := map[uint64]int{1<<63 + 5: 1, 5: 2}
	println(mu64[1<<63+5], mu64[5], len(mu64))

	mb := map[bool]string{true: "T"}
	mb[false] = "F"
	mb[1 < 2] = "T2"
	println(mb[true], mb[false], len(mb))

	ms := map[string]int{"": 0, "a": 1, "ab": 2, "b": 3}
	k := "a"
	k += "b"
	println(ms[k], ms[k[:1]], ms[k[1:]], ms[""], len(ms))

	mr := map[rune]int{'a': 1, '世': 2}
	for _, r := range "a世a" {
		mr[r] += 10
	}
	println(mr['a'], mr['世'])

	mn := map[Named]int{Named(3): 3}
	mn[Named(1)+Named(2)] += 1
	println(mn[3], len(mn))

	mk := map[K]int{{1, "x"}: 1, {1, "y"}: 2, {2, "x"}: 3}
	mk[K{1, "x"}] += 100
	kk := K{a: 2}
	kk.s = "x"
	println(mk[K{1, "x"}], mk[K{1, "y"}], mk[kk], mk[K{}], len(mk))

	mnest := map[N]int{{K{1, "a"}, true}: 1}
	mnest[N{K{1, "a"}, false}] = 2
	mnest[N{K{1, "a"}, true}] += 5
	println(mnest[N{K{1, "a"}, true}], mnest[N{K{1, "a"}, false}], len(mnest))

	// pointer keys: identity
	x, y := 1, 1
	mp := map[*int]string{&x: "x", &y: "y"}
	px := &x
	println(mp[px], mp[&y], len(mp))
	t1, t2 := &T{1}, &T{1}
	mt := map[*T]int{t1: 1, t2: 2}
	mt[t1] += 10
	println(mt[t1], mt[t2], len(mt))

	// interface keys: dynamic type + value
	me := map[interface{}]string{}
	me[1] = "int 1"
	me[int64(1)] = "int64 1"
	me["1"] = "string 1"
	me[true] = "true"
	me[K{1, "k"}] = "struct"
	me[uint8(1)] = "u8 1"
	println(len(me), me[1], me[int64(1)], me["1"], me[true], me[K{1, "k"}], me[uint8(1)])
	println(me[2] == "", me[uint16(1)] == "", me[false] == "")
	var e interface{} = "1"
	println(me[e])

	// non-empty interface keys
	mI := map[I]string{t1: "t1"}
	var it I = t1
	println(mI[it], mI[t2] == "")

	// float keys (no NaN)
	mf := map[float64]int{0.5: 1, 2.0: 2}
	mf[1.0/2.0] += 10
	mf[4.0/2.0] += 20
	println(mf[0.5], mf[2], len(mf))
}
