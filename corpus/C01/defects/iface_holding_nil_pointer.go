// DEFECT CANDIDATE (possibly deliberate): an interface that holds a nil POINTER compares equal to nil,
// and calling a pointer-receiver method on a nil receiver panics even when the method never
// dereferences it.
//
// Wa output:
//   true
//   true true
//   panic: nil pointer dereferenced (prog.wa.go:NN:NN)    (exit 1)
// Go output:
//   false
//   true true
//   -1
//   -1
//
// Root cause: (a) `iface == nil` is compiled to runtime.Compare / a test of the data reference only
// (/repo/internal/backends/compiler_wat/wir/value_interface.go emitEq -> runtime.Compare), the type
// word is ignored; (b) /repo/internal/ssa/builder.go (setCallFunc / receiver evaluation, calls to
// emitNilCheck from emit.go:503) inserts an explicit `recv == nil -> panic` before every method call.
// (b) was added by the Wa authors on purpose (nil receivers are not part of Wa), so this is recorded as
// a language difference rather than repaired; (a) makes the classic "error(nil pointer) != nil" case
// behave differently from Go.
package main

type I interface{ M() int }
type T struct{ v int }

func (t *T) M() int {
	if t == nil {
		return -1
	}
	return t.v
}

func main() {
	var t *T
	var e interface{} = t
	println(e == nil)
	p, ok := e.(*T)
	println(p == nil, ok)
	println(t.M())
	var i I = t
	println(i.M())
}
