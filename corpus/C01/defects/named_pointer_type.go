// DEFECT CANDIDATE: a named type whose underlying type is a pointer (`type PP *T`) aborts the compiler.
//
// Wa output:
//   ../../../repo/internal/backends/compiler_wat/compile_type.go:327: Todo:*types.Pointer     (exit 1)
// Go output:
//   77
//
// Root cause: /repo/internal/backends/compiler_wat/compile_type.go typeLib.compile, case *types.Named:
// the switch over the underlying type handles Basic/Struct/Interface/Signature/Array/Slice/Map/... but
// has no *types.Pointer arm and falls into logger.Fatalf("Todo:%T").  Recorded only (rare construct;
// a repair would mirror the unnamed *types.Pointer case under the named type's name).
package main

type T struct{ x int }
type PP *T

func main() {
	t := T{1}
	var p PP = &t
	p.x = 77
	println(t.x)
}
