// DEFECT CANDIDATE: []byte(s) / []rune(s) of an EMPTY non-constant string yields a nil slice;
// Go yields an empty non-nil slice.
//
// Wa output:
//   0 true
//   0 true
// Go output:
//   0 false
//   0 false
//
// Root cause: the string->slice conversion helpers in /repo/waroot/src/runtime (bytes/runes from
// string) return the zero slice when len == 0 instead of allocating an empty one.  Observable only
// through `== nil` (and library code that tests for nil, e.g. the C14 note on strings.Replacer).
// Recorded only (no repair written).
package main

func main() {
	s := ""
	b := []byte(s)
	println(len(b), b == nil)
	r := []rune(s)
	println(len(r), r == nil)
}
