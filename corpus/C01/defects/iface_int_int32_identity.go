// DEFECT CANDIDATE (design-level): the dynamic types `int` and `int32` (and `uint`/`uint32`)
// are the same run-time type in Wa, although the type checker treats them as distinct.
//
// Wa output:
//   true
//   int32
//   true
// Go output:
//   false
//   int
//   false
//
// Root cause: /repo/internal/backends/compiler_wat/wir/module.go (`m.INT = m.I32`, `m.UINT = m.U32`)
// and compile_type.go (types.Int -> module.INT): both front-end types map to ONE back-end value type,
// hence one type hash in interfaces.  Interface ==, type assertions and type switches cannot tell
// them apart (a `case int32:` placed before `case int:` steals every int).  The 32-bit width of int is
// the documented language difference; the merged identity is a consequence that contradicts the
// checker (which rejects `var x int32 = someInt`).  No small safe repair (needs a distinct named
// value type for int/uint); recorded only.
package main

func kind(v interface{}) string {
	switch v.(type) {
	case int32:
		return "int32"
	case int:
		return "int"
	}
	return "?"
}

func main() {
	var a interface{} = 1
	var b interface{} = int32(1)
	println(a == b)
	println(kind(a))
	_, ok := a.(int32)
	println(ok)
}
