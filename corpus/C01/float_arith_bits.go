package main

// Floating point: results are shown as integers or bit patterns only.
import "math"

func b64(f float64) uint64 { return math.Float64bits(f) }
func b32(f float32) uint32 { return math.Float32bits(f) }

func main() {
	a, b := 1.5, 2.25
	println(b64(a+b), b64(a-b), b64(a*b), b64(a/b))
	println(b64(0.1+0.2), b64(1.0/3.0), b64(-a), b64(a*a*a*a))

	var f, g float32 = 1.5, 2.25
	println(b32(f+g), b32(f-g), b32(f*g), b32(f/g))
	println(b32(0.1), b32(f/3), b32(-f))

	// float32 rounding at each step
	var s32 float32
	var s64 float64
	for i := 0; i < 100; i++ {
		s32 += 0.1
		s64 += 0.1
	}
	println(b32(s32), b64(s64))

	// conversions
	v299, v1e15, v200, v65535, v35 := 2.99, 1e15+0.5, 200.7, 65535.9, 3.5
	println(int32(a), int32(-a), int32(v299), int32(-v299), int64(v1e15), int64(-v1e15))
	println(int(b*4), uint8(v200), uint16(v65535), uint32(v35))
	i := 7
	println(b64(float64(i)/2), b64(float64(i/2)), b32(float32(i)))
	var big int64 = 1<<53 + 1
	println(b64(float64(big)), int64(float64(big)), b32(float32(big)))
	println(b64(float64(f)), b32(float32(a)), b32(float32(0.1)), b64(float64(float32(0.1))))
	var u32 uint32 = 4000000000
	var u64 uint64 = 1 << 63
	println(b64(float64(u32)), b64(float64(u64)), b32(float32(u32)))

	// comparisons
	println(a < b, a <= a, a == 1.5, a != b, b > a, -a < a)
	z := 0.0
	nz := -z
	println(z == nz, b64(z), b64(nz), b64(z*-1))

	// infinities via overflow
	h := 1e308
	inf := h * 10
	println(b64(inf), b64(-inf), inf > h, -inf < -h, inf == inf)
	println(b64(1/inf), b64(-1/inf))

	// constants
	const c = 1.0 / 3
	println(b64(c), b64(c*3), b32(c))
	const big2 = 1 << 62
	println(b64(float64(big2)), b64(2.5e-3), b64(6.02e23))

	// mixed integer constants
	x := 3 / 2 * 2.0
	y := 3.0 / 2 * 2
	println(b64(x), b64(y))

	// accumulate / polynomial
	p := 0.0
	for k := 5; k >= 0; k-- {
		p = p*1.5 + float64(k)
	}
	println(b64(p), int(p*1000))

	// compound
	q := 10.0
	q += 0.5
	q *= 2
	q -= 1
	q /= 4
	println(b64(q))
	q++
	q--
	println(b64(q))
}
