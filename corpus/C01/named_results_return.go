package main

// Named results whose return operands read the *other* named result.
// Go evaluates all return operands first and only then assigns them to
// the result parameters.

func ordered(a, b int) (lo, hi int) {
	lo, hi = a, b
	if lo > hi {
		return hi, lo
	}
	return
}

// one step of a recurrence: the second operand reads the first result
func step(a, b int) (cur, next int) {
	cur, next = a, b
	return next, cur + next
}

func rot(a, b, c int) (x, y, z int) {
	x, y, z = a, b, c
	return y, z, x
}

// control cases that do not depend on the order of assignment
func divmod(a, b int) (q, r int) {
	return a / b, a % b
}

func deferred() (r int) {
	defer func() { r *= 2 }()
	return 21
}

func main() {
	lo, hi := ordered(9, 4)
	println(lo, hi)
	lo, hi = ordered(4, 9)
	println(lo, hi)

	c, n := 0, 1
	for i := 0; i < 10; i++ {
		c, n = step(c, n)
	}
	println(c, n)

	x, y, z := rot(1, 2, 3)
	println(x, y, z)

	q, r := divmod(17, 5)
	println(q, r)
	println(deferred())
}
