package main

// Labelled break/continue at several depths, also out of switch and range.

func main() {
	// labelled continue
	cnt := 0
outer:
	for i := 0; i < 5; i++ {
		for j := 0; j < 5; j++ {
			if j > i {
				continue outer
			}
			if i == 4 {
				break outer
			}
			cnt += 10*i + j
		}
	}
	println(cnt)

	// break out of switch inside loop vs. labelled break of loop
	n := 0
loop:
	for i := 0; i < 10; i++ {
		switch {
		case i == 2:
			break // leaves the switch only
		case i == 6:
			break loop
		case i%2 == 1:
			continue loop
		}
		n += i
	}
	println(n)

	// three levels
	s := ""
a:
	for i := 0; i < 3; i++ {
	b:
		for j := 0; j < 3; j++ {
			for k := 0; k < 3; k++ {
				switch {
				case k == 2:
					continue b
				case j == 2:
					continue a
				case i == 2 && j == 1:
					break a
				}
				s += string(rune('0'+i)) + string(rune('0'+j)) + string(rune('0'+k)) + " "
			}
		}
	}
	println(s)

	// labelled break from range loops
	grid := [][]int{{1, 2, 3}, {4, -5, 6}, {7, 8, 9}}
	fi, fj := -1, -1
search:
	for i, row := range grid {
		for j, v := range row {
			if v < 0 {
				fi, fj = i, j
				break search
			}
		}
	}
	println(fi, fj)

	// labelled continue in range over string / map-free
	words := []string{"abc", "a-c", "xyz", "-"}
	good := 0
next:
	for _, w := range words {
		for _, c := range w {
			if c == '-' {
				continue next
			}
		}
		good++
	}
	println(good)

	// while-style and infinite loops
	x := 27
	steps := 0
	for x != 1 {
		if x%2 == 0 {
			x /= 2
		} else {
			x = 3*x + 1
		}
		steps++
	}
	println(steps)
	y := 0
	for {
		y += 3
		if y > 20 {
			break
		}
	}
	println(y)

	// loop variable modified in body; post statement with several variables
	t := 0
	for i, j := 0, 10; i < j; i, j = i+1, j-1 {
		if i == 2 {
			i++
		}
		t += i * j
	}
	println(t)

	// labelled block-free: label on a for with only a condition
	z := 0
w:
	for z < 100 {
		z += 7
		if z%5 == 0 {
			break w
		}
	}
	println(z)
}
