// DEFECT CANDIDATE: converting a value of a struct type WITHOUT fields (struct{}{}, or a named
// `type E struct{}` value -- pointers are fine) to an interface produces an invalid module.
//
// Wa output:
//   ERROR: invalid function[148]: not enough results
//       have ()
//       want (i32)
// Go output:
//   false
//   true
//
// Root cause: /repo/internal/backends/compiler_wat/wir/value_struct.go aStruct.emitEq / emitCompare
// iterate over the fields and emit nothing for zero fields, so the generated `$$compare`/`$$equal`
// helper of the type returns no value.  Same for zero-length arrays.
// Repair: /verif/proposed_fixes/C01-array-eq-compare.diff (pushes the constant result for zero fields).
package main

type E struct{}

func main() {
	var e interface{} = struct{}{}
	println(e == nil)
	var f interface{} = E{}
	println(f == interface{}(E{}))
}
