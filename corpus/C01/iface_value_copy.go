package main

// An interface holding a struct VALUE holds a copy; assertion yields
// another copy.  Pointers inside are shared.

type In struct{ n int }
type S struct {
	v  int
	s  string
	p  *In
	in In
}

type Any interface{}

func box(s S) Any { return s }

func main() {
	in := &In{1}
	a := S{1, "a", in, In{10}}
	var e Any = a
	a.v = 2
	a.in.n = 20
	a.p.n = 3
	got := e.(S)
	println(got.v, got.s, got.p.n, got.in.n)

	got.v = 100
	got.in.n = 100
	again := e.(S)
	println(again.v, again.in.n)

	// pointer in interface: shared
	var pe Any = &a
	a.v = 5
	println(pe.(*S).v)
	pe.(*S).v = 6
	println(a.v)

	// through a function
	b := box(a)
	a.s = "changed"
	println(b.(S).s)

	// interface copies
	e2 := e
	e = S{v: 9}
	println(e2.(S).v, e.(S).v)

	// slices of interfaces holding values
	items := []Any{a, a}
	a.v = 77
	x := items[0].(S)
	x.v = 88
	println(items[0].(S).v, items[1].(S).v, x.v)

	// basic values
	n := int32(1)
	var ne Any = n
	n = 2
	println(ne.(int32), n)
	str := "s"
	var se Any = str
	str += "t"
	println(se.(string), str)

	// struct with slice: header copied, elements shared
	type IS []int
	type H struct{ sl IS }
	h := H{[]int{1, 2}}
	var he Any = h
	h.sl[0] = 50
	h.sl = append(h.sl, 3)
	println(he.(H).sl[0], len(he.(H).sl), len(h.sl))

	// map values of interface type
	m := map[string]Any{"s": a, "p": &a}
	a.v = 1000
	println(m["s"].(S).v, m["p"].(*S).v)

	// type switch binds a copy
	switch v := e2.(type) {
	case S:
		v.v = -1
		println(v.v, e2.(S).v)
	}
}
