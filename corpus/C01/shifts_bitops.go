package main

// Shifts (count < width only: larger counts are a known finding) and bit
// operations including &^ and unary ^.

func main() {
	var i32 int32 = -8
	println(i32>>1, i32>>2, i32>>31, i32<<1, i32<<28, i32<<31)
	var u32 uint32 = 0x80000001
	println(u32>>1, u32>>31, u32<<1, u32<<31)
	var i64 int64 = -1 << 40
	println(i64>>1, i64>>40, i64>>63, i64<<1, i64<<23)
	var u64 uint64 = 1<<63 | 1
	println(u64>>1, u64>>63, u64<<1, u64<<63)
	var u8 uint8 = 0x81
	println(u8>>1, u8>>7, u8<<1, u8<<7, u8<<4>>4)
	var u16 uint16 = 0x8001
	println(u16>>1, u16>>15, u16<<1, u16<<15, u16<<8>>8)

	// variable counts of different types
	for c := uint32(0); c < 32; c += 5 {
		println(c, int32(1)<<c, int32(-1024)>>c%11, uint32(0xffffffff)>>c)
	}
	var c8 uint8 = 3
	var c16 uint16 = 4
	var c64 uint64 = 5
	cn := 6
	println(i32<<c8, i32<<c16, i32<<c64, i32<<uint(cn), i64>>c8, u8>>c16)

	// bit ops
	var a, b uint32 = 0xf0f0f0f0, 0xff00ff00
	println(a&b, a|b, a^b, a&^b, ^a, ^b)
	var sa, sb int32 = -256, 0x0ff0
	println(sa&sb, sa|sb, sa^sb, sa&^sb, ^sa, ^sb)
	var a8, b8 uint8 = 0xcc, 0xaa
	println(a8&b8, a8|b8, a8^b8, a8&^b8, ^a8, ^b8)
	var a16 uint16 = 0x1234
	println(^a16, a16&^0xff, a16|0xff00, a16^0xffff)
	var a64, b64 uint64 = 0xf0f0f0f0f0f0f0f0, 0xffff0000ffff0000
	println(a64&b64, a64|b64, a64^b64, a64&^b64, ^a64)
	var s64 int64 = -1
	println(^s64, s64^0x55, s64&^0xff, ^(s64 << 8))

	// compound
	x := uint32(1)
	x <<= 4
	x |= 3
	x &= 0x1e
	x ^= 0xff
	x &^= 0x0f
	x >>= 2
	println(x)

	// popcount, parity, reverse
	v := uint32(0xdeadbeef)
	cnt := 0
	for t := v; t != 0; t &= t - 1 {
		cnt++
	}
	var rev uint32
	for i := uint32(0); i < 32; i++ {
		rev = rev<<1 | (v>>i)&1
	}
	println(cnt, rev)

	// rotate
	rot := func(x uint32, k uint32) uint32 { return x<<k | x>>(32-k) }
	println(rot(0x80000001, 1), rot(0x12345678, 8), rot(1, 31))

	// masks from shifts
	for n := uint32(1); n < 32; n += 6 {
		println(uint32(1)<<n-1, ^(uint32(1)<<n - 1))
	}

	// shift of constants with variable count takes the type from context
	var k uint32 = 10
	var w int64 = 1 << k
	var h uint8 = 1 << (k - 4)
	println(w, h)

	// signed shift count (non-negative)
	sc := 3
	println(1<<sc, int64(1)<<sc, -16>>sc)

	// precedence
	println(1+2<<3, 1<<2+3, 6&3|8, 6&^3^1, 7&3<<1)
}
