(module
  ;; br carrying a result to an outer block that already holds a parked value (the nested scope's base is above the target's)
  (func $f_pick (export "f_pick") (param $c i32) (result i32)
    block $out (result i32)
      i32.const 7
      local.get $c
      if $g
        i32.const 42
        br $out
      end
    end)
  ;; search loop with a default value parked on the stack and an early exit carrying the result
  (func $f_find (export "f_find") (param $n i32) (result i32)
    (local $i i32)
    block $done (result i32)
      i32.const -1
      loop $next
        local.get $i local.get $n i32.ge_u
        if $hit
          local.get $i i32.const 3 i32.mul
          br $done
        end
        local.get $i i32.const 1 i32.add local.set $i
        local.get $i i32.const 100 i32.lt_u
        br_if $next
      end
    end)
  ;; br_table carrying a result from above a parked value
  (func $f_bt1 (export "f_bt1") (param $i i32) (result i32)
    block $a (result i32)
      i32.const 1000
      block $b (result i32)
        i32.const 10
        local.get $i
        br_table $b $a $b
        i32.const 0
      end
      i32.add
    end)
  (func $f_bt2 (export "f_bt2") (param $i i32) (result i32)
    block $a (result i32)
      i32.const 1000
      block $b (result i32)
        i32.const 7
        local.get $i
        if $g
          i32.const 10
          local.get $i
          br_table $b $a $b
        end
      end
      i32.add
    end)
  ;; br carrying two results down by one register: the copies overlap
  (func $f_overlap (export "f_overlap") (param $c i32) (result i32)
    block $o (result i32 i32)
      i32.const 1000
      local.get $c
      if $g
        i32.const 5
        i32.const 6
        br $o
      end
      drop
      i32.const 1
      i32.const 2
    end
    i32.const 8 i32.shl i32.or)
)
