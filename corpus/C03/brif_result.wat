(module
  ;; br_if to a block that yields a value (the Wa compiler emits this form, e.g. for waroot/examples/eq.wa)
  (func $f_pick (export "f_pick") (param $c i32) (result i32)
    block $b (result i32)
      i32.const 11
      local.get $c
      br_if $b
      drop
      i32.const 22
    end)
)
