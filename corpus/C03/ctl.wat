(module
  (memory 1)
  (table 5 funcref)
  (elem (i32.const 0) $add3 $mul3 $sub3 $neg64)
  (global $g (mut i32) (i32.const 7))
  (global $k i64 (i64.const -5))
  (data (i32.const 16) "hello\00\01\02 09af\ff\fe\"q\\n\09z")
  (type $bin (func (param i32 i32) (result i32)))

  (func $add3 (param i32 i32) (result i32) local.get 0 local.get 1 i32.add i32.const 3 i32.add)
  (func $mul3 (param i32 i32) (result i32) local.get 0 local.get 1 i32.mul i32.const 3 i32.mul)
  (func $sub3 (param i32 i32) (result i32) local.get 0 local.get 1 i32.sub i32.const 3 i32.sub)
  (func $neg64 (param i64) (result i64) i64.const 0 local.get 0 i64.sub)

  (func $f_fib (export "f_fib") (param $n i32) (result i32)
    (local $a i32) (local $b i32) (local $t i32)
    i32.const 0 local.set $a
    i32.const 1 local.set $b
    block $done
      loop $again
        local.get $n i32.eqz br_if $done
        local.get $a local.get $b i32.add local.set $t
        local.get $b local.set $a
        local.get $t local.set $b
        local.get $n i32.const 1 i32.sub local.set $n
        br $again
      end
    end
    local.get $a)

  (func $f_fact (export "f_fact") (param $n i64) (result i64)
    local.get $n i64.const 2 i64.lt_s
    if (result i64)
      i64.const 1
    else
      local.get $n
      local.get $n i64.const 1 i64.sub call $f_fact
      i64.mul
    end)

  (func $f_switch (export "f_switch") (param $i i32) (result i32)
    block $d
      block $c2
        block $c1
          block $c0
            local.get $i
            br_table $c0 $c1 $c2 $d
          end
          i32.const 100 return
        end
        i32.const 101 return
      end
      i32.const 102 return
    end
    i32.const 199)

  (func $f_blockval (export "f_blockval") (param $x i32) (result i32)
    block $outer (result i32)
      i32.const 10
      block $inner (result i32)
        local.get $x i32.const 5 i32.gt_s
        if $t
          i32.const 77 br $inner
        end
        i32.const 33
      end
      i32.add
    end)

  (func $f_indirect (export "f_indirect") (param $which i32) (param $a i32) (param $b i32) (result i32)
    local.get $a local.get $b local.get $which
    call_indirect (type $bin))

  (func $f_global (export "f_global") (param $v i32) (result i32)
    global.get $g
    local.get $v global.set $g
    global.get $g i32.add
    global.get $k i32.wrap_i64 i32.add)

  (func $f_tee (export "f_tee") (param $v i32) (result i32)
    (local $t i32)
    local.get $v i32.const 1 i32.add local.tee $t
    local.get $t i32.mul)

  (func $f_sum (export "f_sum") (param $from i32) (param $to i32) (result i32)
    (local $s i32)
    block $done
      loop $l
        local.get $from local.get $to i32.ge_u br_if $done
        local.get $s i32.const 3 i32.mul local.get $from i32.load8_u i32.add i32.const 16777215 i32.and local.set $s
        local.get $from i32.const 1 i32.add local.set $from
        br $l
      end
    end
    local.get $s)

  (func $f_unreachable (export "f_unreachable") (param $v i32) (result i32)
    local.get $v
    if
      unreachable
    end
    i32.const 5)

  (func $f_nested_loop (export "f_nested_loop") (param $n i32) (result i32)
    (local $i i32) (local $j i32) (local $acc i32)
    block $oexit
      loop $outer
        local.get $i local.get $n i32.ge_s br_if $oexit
        i32.const 0 local.set $j
        block $iexit
          loop $inner
            local.get $j local.get $i i32.gt_s br_if $iexit
            local.get $acc local.get $i local.get $j i32.xor i32.add local.set $acc
            local.get $j i32.const 1 i32.add local.set $j
            br $inner
          end
        end
        local.get $i i32.const 1 i32.add local.set $i
        br $outer
      end
    end
    local.get $acc)
)
