(module
  ;; br_if while another operand is on the stack below the condition (valid WebAssembly; wat2c asserts stk.Len() == target base)
  (func $f_brif_parked (export "f_brif_parked") (param $c i32) (result i32)
    (local $r i32)
    i32.const 3 local.set $r
    block $out
      i32.const 9
      local.get $c
      br_if $out
      local.set $r
    end
    local.get $r)
)
