(module
  ;; the last instruction wat2c PROCESSES is nested (`unreachable` inside the else of a multi-result if, as in the compiler's
  ;; own runtime function $wa.runtime.queryIface) while the function body itself falls through with its results on the stack
  (func $pair_if (param $c i32) (result i32 i32)
    local.get $c
    if (result i32 i32)
      i32.const 3
      i32.const 4
    else
      i32.const 0
      i32.const 0
      unreachable
    end)
  (func $f_unreachable_in_else (export "f_unreachable_in_else") (param $c i32) (result i32)
    local.get $c
    call $pair_if
    i32.const 8 i32.shl i32.or)
  (func $one_if (param $c i32) (result i32)
    local.get $c
    if (result i32)
      i32.const 9
    else
      i32.const 0
      unreachable
    end)
  (func $f_unreachable_in_else1 (export "f_unreachable_in_else1") (param $c i32) (result i32)
    local.get $c
    call $one_if)
)
