(module
  ;; if/else yielding two results of different types (wat2c pops the then-branch results in declaration order: "unexpected value type")
  (func $pair (param $c i32) (result i32 i64)
    local.get $c
    if (result i32 i64)
      i32.const 1 i64.const 2
    else
      i32.const 3 i64.const 4
    end
    return)
  (func $f_if_mixed (export "f_if_mixed") (param $c i32) (result i64)
    (local $t i64)
    local.get $c call $pair
    local.set $t
    i64.extend_i32_u
    i64.const 100 i64.mul
    local.get $t i64.add)
)
