(module
  (func $f_multi (export "f_multi") (param $a i32) (param $b i64) (result i64)
    local.get $a local.get $b call $pair
    i64.extend_i32_s i64.add)
  (func $pair (param $a i32) (param $b i64) (result i64 i32)
    local.get $b i64.const 2 i64.mul
    local.get $a i32.const 1 i32.add)
)
