(module
  (func $f_multi (export "f_multi") (param $a i32) (param $b i32) (result i32)
    local.get $a local.get $b call $pair
    i32.const 16 i32.shl i32.or)
  (func $pair (param $a i32) (param $b i32) (result i32 i32)
    local.get $a i32.const 1 i32.add
    local.get $b i32.const 2 i32.add)
  (func $f_multi_ret (export "f_multi_ret") (param $a i32) (param $b i32) (result i32)
    local.get $a local.get $b call $pair_ret
    i32.const 16 i32.shl i32.or)
  (func $pair_ret (param $a i32) (param $b i32) (result i32 i32)
    local.get $a i32.const 1 i32.add
    local.get $b i32.const 2 i32.add
    return)
)
