(module
  ;; `return` with more values on the stack than the function returns (valid WebAssembly: the rest is discarded)
  (func $f_ret_extra (export "f_ret_extra") (param $c i32) (result i32)
    i32.const 5
    local.get $c
    if
      i32.const 7
      return
    end)
)
