package main

type Arr3 [3]string

type P struct {
	a int32
	b string
}

type ArrP [2]*P

const digits = "0123456789"

func mk(k int) string { return "a" + digits[k%10:k%10+1] }

func mkArr(k int) Arr3 {
	var a Arr3
	for i := 0; i < 3; i++ {
		a[i] = mk(i + k)
	}
	return a
}

func body0(k int) int32 {
	a := mkArr(k)
	var total int32
	for _, s := range a {
		total += int32(len(s))
	}
	return total
}

func body1(k int) int32 {
	return int32(len(mkArr(k)[1]))
}

func body2(k int) int32 {
	var ps ArrP
	ps[0] = &P{int32(k), mk(k)}
	ps[1] = &P{int32(k + 1), mk(k + 1)}
	var t int32
	for i, p := range ps {
		t += p.a + int32(i)
	}
	return t
}

func main() {
	var acc int32
	for i := 0; i < 1000; i++ {
		acc += body0(i)
		if i == 3 || i == 9 || i == 99 || i == 999 {
			println("CP", 0, i+1)
		}
	}
	for i := 0; i < 1000; i++ {
		acc += body1(i)
		if i == 3 || i == 9 || i == 99 || i == 999 {
			println("CP", 1, i+1)
		}
	}
	for i := 0; i < 1000; i++ {
		acc += body2(i)
		if i == 3 || i == 9 || i == 99 || i == 999 {
			println("CP", 2, i+1)
		}
	}
	println(acc)
}
