"""Shared by checks/c11.py and checks/c12.py: drive harness/c11 over a list of programs and judge the results.

run_programs(ctx, harness, progs, trace, workers) -> {name: result-dict}
    progs: [(name, src)].  The harness is fed in batch mode by `workers` processes; a program on which the process dies
    (the compiler calls os.Exit on internal errors) gets status "harness-died" and the rest of the chunk is re-fed.
judge_c11(ctx, name, construct, src, res, dist) -> number of oracle evaluations
    the C11 oracles, evaluated on the real run only (no model involved):
      (a) no double free / free of a non-allocated address; no Retain/Release of a block that is not allocated
      (b) program output and termination identical under free-time poisoning (allocator re-uses the poisoned memory)
          and under quarantine (freed memory is never re-used and must keep the poison: no store after free)
      (c) every Block.HeapAlloc result has header {1,count,release,size} and an all-zero payload
replay_traces(ctx, model, names, tracedir) -> (events, diffs)
    correspondence: the observed event trace of every program through the Lean driver wamodel_c11
"""
import json, os, subprocess
import concurrent.futures as cf

# violation kinds of harness/c11/tracker.go -> (root-cause key, which clause of the property)
KINDS = {
    "free:double-free": ("double-free", "a block is released twice"),
    "free:not-allocated": ("free-of-unallocated-address", "free of an address that was never allocated"),
    "retain:block-not-live": ("use-after-free:retain", "Block.Retain on a block that has been freed: the program still reaches it"),
    "release:block-not-live": ("use-after-free:release", "Block.Release on a block that has been freed: the program still reaches it"),
    "release:count-already-zero": ("release-of-dying-block", "Block.Release on a block whose count is already zero"),
    "store-after-free": ("use-after-free:store", "a freed block was written to after its release"),
    "alloc:fresh-memory-not-zero": ("fresh-memory-not-zero", "memory returned by an allocation does not read as zero"),
    "alloc:bad-header": ("fresh-block-bad-header", "Block.HeapAlloc returned a block whose header is not {1,count,release,size}"),
    "alloc:block-not-from-malloc": ("block-not-from-malloc", "Block.HeapAlloc returned an address malloc did not hand out"),
    "alloc:block-smaller-than-items": ("block-smaller-than-items", "Block.HeapAlloc allocated fewer bytes than items need"),
    "alloc:block-outside-memory": ("block-outside-memory", "block outside linear memory"),
    "free:block-outside-memory": ("block-outside-memory", "block outside linear memory"),
    "malloc:returned-live-address": ("malloc-returned-live-address", "malloc handed out an address that is still allocated (live data re-used)"),
    "malloc:returned-null": ("malloc-returned-null", "malloc failed"),
}


def _feed(harness, lines, timeout):
    try:
        p = subprocess.run([harness], input="\n".join(lines) + "\n", stdout=subprocess.PIPE, stderr=subprocess.PIPE,
                           text=True, timeout=timeout)
        return p.stdout.splitlines(), p.stderr[-2000:]
    except subprocess.TimeoutExpired as e:
        out = e.stdout or ""
        if isinstance(out, bytes):
            out = out.decode("utf-8", "replace")
        return out.splitlines(), "timeout"


def _worker(harness, items, timeout, modes="poison,quarantine"):
    """items: [(name, file, tracebase)] -> [(name, dict)]"""
    out = []
    todo = list(items)
    while todo:
        lines = ["%s %s 400000 %s" % (f, t, modes) for _, f, t in todo]
        got, err = _feed(harness, lines, timeout * max(1, len(todo)))
        for (name, _, _), l in zip(todo, got):
            try:
                out.append((name, json.loads(l)))
            except ValueError:
                out.append((name, {"status": "harness-garbled", "error": l[:300]}))
        if len(got) >= len(todo):
            break
        if out and out[-1][1].get("exit_after") and got:
            # the harness reported a non-terminating instrumented run and exited on purpose
            todo = todo[len(got):]
            continue
        dead = todo[len(got)]
        out.append((dead[0], {"status": "harness-died", "error": (err or "")[-600:]}))
        todo = todo[len(got) + 1:]
    return out


def run_programs(ctx, harness, progs, trace=True, workers=8, timeout=600, modes="poison,quarantine"):
    d = os.path.join(ctx.tmp, "progs")
    os.makedirs(d, exist_ok=True)
    items = []
    for name, src in progs:
        safe = "".join(c if c.isalnum() or c in "_-" else "_" for c in name)
        f = os.path.join(d, safe + ".wa.go")
        with open(f, "w") as fh:
            fh.write(src)
        items.append((name, f, os.path.join(d, safe + ".trace") if trace else "-"))
    chunks = [items[i::workers] for i in range(workers)]
    res = {}
    with cf.ThreadPoolExecutor(workers) as ex:
        for part in ex.map(lambda c: _worker(harness, c, timeout, modes), [c for c in chunks if c]):
            for name, r in part:
                res[name] = r
    for name, f, t in items:
        res.setdefault(name, {"status": "harness-died", "error": "no answer"})
        res[name]["_trace"] = t
        res[name]["_file"] = f
    return res


def judge_c11(ctx, name, construct, src, res, dist):
    """returns the number of oracle evaluations performed for this program"""
    st = res.get("status")
    dist["status:" + str(st)] = dist.get("status:" + str(st), 0) + 1
    if st != "ok":
        return 0
    n = 0
    if res.get("base_err"):
        dist["baseline-traps"] = dist.get("baseline-traps", 0) + 1
    for mode, mr in sorted(res.get("modes", {}).items()):
        n += 4
        s = mr["stats"]
        for k in ("mallocs", "frees", "block_allocs", "retains", "releases", "reused_addresses", "zero_checked_bytes", "poisoned_bytes"):
            dist[mode + ":" + k] = dist.get(mode + ":" + k, 0) + s.get(k, 0)
        for v in mr.get("violations") or []:
            key, what = KINDS.get(v["kind"], (v["kind"], v["kind"]))
            ctx.violation("%s:%s" % (key, construct),
                          "%s — program %s, %s run: %s (x%d)" % (what, name, mode, v["detail"], v["count"]),
                          {"program": src, "name": name, "mode": mode, "violation": v, "construct": construct})
        if not mr.get("out_same"):
            ctx.violation("output-changes-when-freed-memory-is-%s:%s" % ("poisoned" if mode == "poison" else "quarantined", construct),
                          "output of %s differs from the un-instrumented run when freed memory is overwritten with 0xA5 (%s): %s" % (
                              name, mode, mr.get("out_diff")),
                          {"program": src, "name": name, "mode": mode, "diff": mr.get("out_diff"), "err": mr.get("err"),
                           "base_err": res.get("base_err"), "construct": construct})
    return n


def replay_traces(ctx, model, results, max_total=3000000):
    """concatenate the traces (each starts with `reset`) and diff the Lean driver's answers against the observed ones"""
    ops, ans, owner = [], [], []
    for name, r in results:
        t = r.get("_trace")
        if not t or t == "-" or r.get("status") != "ok" or not os.path.exists(t + ".ops"):
            continue
        o = open(t + ".ops").read().splitlines()
        a = open(t + ".ans").read().splitlines()
        if len(o) != len(a) or len(ops) + len(o) > max_total:
            continue
        ops += o
        ans += a
        owner += [name] * len(o)
    if not ops or not model:
        return 0, []
    p = subprocess.run([model], input="\n".join(ops) + "\n", stdout=subprocess.PIPE, stderr=subprocess.PIPE, text=True, timeout=1800)
    diffs = ctx.diff_lines(ops, ans, p.stdout.splitlines())
    out = []
    for i, op, a, b in diffs[:20]:
        out.append((owner[i] if 0 <= i < len(owner) else "?", i, op, a, b))
    return len(ops), out
