#!/usr/bin/env python3
"""gen/selftest.py -- generate N programs, run each through Go and through Wa, compare, shrink.

    python3 gen/selftest.py --seed 1 --n 60 --sizes small,medium [--stream safe|probe] [--jobs 16]
                            [--no-shrink] [--no-build] [--out DIR] [--shrink-tests 120]

Go side:  the text as main.go in a temp dir, `go run main.go` (offline env), stdout+stderr merged
          (Go's println writes to stderr).
Wa side:  the same text as p.wa.go through `warun run` (api.RunCode in-process), ONE process per
          program with a timeout, because the compiler may os.Exit or hang.
Classes:  agree | mismatch (both ran, outputs differ) | wa_error (Wa rejected / crashed / trapped)
          | wa_timeout | go_bad (Go failed to compile, panicked or timed out = GENERATOR bug).
"""
import argparse
import collections
import json
import os
import random
import re
import shutil
import subprocess
import sys
import tempfile
import threading
import time
from concurrent.futures import ThreadPoolExecutor

HERE = os.path.dirname(os.path.abspath(__file__))
sys.path.insert(0, os.path.dirname(HERE))
from gen import progs  # noqa: E402

# GOMAXPROCS=2: with 16 concurrent children the Go tool chain and the Wa compiler (GC-heavy) run 3x faster than
# when each of them spreads over all cores
GOENV = dict(os.environ, GOFLAGS='-mod=mod', GOPROXY='off', GOSUMDB='off', GOTOOLCHAIN='local', GOMAXPROCS='2')
PRIVATE_WARUN = '/verif/.build/gen/warun'
TMPROOT = '/verif/.build/gen/tmp'
_sem = None


def build_warun():
    """build harness/warun through vlib (overlay build from /repo's working tree) and keep a private
    copy: ctx.build_harness removes the shared binary while rebuilding, which races with other users."""
    from lib import vlib
    out = vlib.Ctx('C01', 'quick', 1).build_harness('warun')
    os.makedirs(os.path.dirname(PRIVATE_WARUN), exist_ok=True)
    tmp = PRIVATE_WARUN + '.%d' % os.getpid()
    shutil.copy2(out, tmp)
    os.replace(tmp, PRIVATE_WARUN)
    return PRIVATE_WARUN


def _run(cmd, cwd, timeout, merge):
    with _sem:
        try:
            p = subprocess.run(cmd, cwd=cwd, env=GOENV, stdout=subprocess.PIPE,
                               stderr=subprocess.STDOUT if merge else subprocess.PIPE, timeout=timeout)
            return p.returncode, p.stdout, (b'' if merge else p.stderr)
        except subprocess.TimeoutExpired as e:
            return None, e.stdout or b'', b'timeout'


def run_go(text, timeout=180):
    d = tempfile.mkdtemp(prefix='go', dir=TMPROOT)
    try:
        with open(os.path.join(d, 'main.go'), 'w') as f:
            f.write(text)
        rc, out, _ = _run(['go', 'run', 'main.go'], d, timeout, True)
        if rc is None:
            return 'timeout', out
        if rc == 0:
            return 'ok', out
        if out.startswith(b'# command-line-arguments') or b'main.go:' in out[:400] and b'goroutine' not in out:
            return 'compile_error', out
        return 'panic', out
    finally:
        shutil.rmtree(d, ignore_errors=True)


def run_wa(text, warun, timeout=180):
    d = tempfile.mkdtemp(prefix='wa', dir=TMPROOT)
    try:
        fn = os.path.join(d, 'p.wa.go')
        with open(fn, 'w') as f:
            f.write(text)
        rc, out, err = _run([warun, 'run', fn], d, timeout, False)
        if rc is None:
            return 'timeout', out, err
        if rc == 0:
            return 'ok', out, err
        return 'error', out[-4000:], (err or b'')[-2000:]
    finally:
        shutil.rmtree(d, ignore_errors=True)


def norm_err(out, err):
    """root-cause-ish signature of a Wa failure: message with numbers removed."""
    txt = (out + b'\n' + err).decode('utf-8', 'replace')
    m = re.search(r'ERROR: (.*)', txt)
    line = m.group(1) if m else ''
    if not line:
        for ln in txt.splitlines():
            if ln.strip() and not ln.startswith('STATUS'):
                line = ln
    line = re.sub(r'p\.wa\.go:\d+:\d+:', '', line)
    line = re.sub(r'[A-Za-z_]*\d+[A-Za-z_0-9]*', 'N', line)
    return line.strip()[:160]


GO_ONLY = False


def judge(text, warun, pool):
    fg = pool.submit(run_go, text)
    if GO_ONLY:
        gs, gout = fg.result()
        ws, wout, werr = 'ok', gout, b''
    else:
        fw = pool.submit(run_wa, text, warun)
        gs, gout = fg.result()
        ws, wout, werr = fw.result()
        if ws == 'timeout':     # a loaded machine, not necessarily a hang: one retry with a longer limit
            ws, wout, werr = pool.submit(run_wa, text, warun, 600).result()
        if gs == 'timeout':
            gs, gout = pool.submit(run_go, text, 600).result()
    r = {'go_status': gs, 'wa_status': ws, 'go_out': gout, 'wa_out': wout, 'wa_err': werr}
    if gs != 'ok':
        r['cls'] = 'go_bad'
        first = ''
        for ln in gout.decode('utf-8', 'replace').splitlines():
            if ln.startswith('./main.go:') or ln.startswith('panic:') or ln.startswith('fatal error'):
                first = re.sub(r'^\./main\.go:\d+:\d+: ', '', ln)
                first = re.sub(r'[A-Za-z_]*\d+[A-Za-z_0-9]*', 'N', first)[:120]
                break
        r['sig'] = 'go:' + gs + ':' + first
    elif ws == 'timeout':
        r['cls'] = 'wa_timeout'
        r['sig'] = 'wa_timeout'
    elif ws != 'ok':
        r['cls'] = 'wa_error'
        r['sig'] = 'wa_error:' + norm_err(wout, werr)
    elif gout != wout:
        r['cls'] = 'mismatch'
        r['sig'] = 'mismatch'
    else:
        r['cls'] = 'agree'
        r['sig'] = 'agree'
    return r


def first_diff(a, b):
    la, lb = a.decode('utf-8', 'replace').splitlines(), b.decode('utf-8', 'replace').splitlines()
    for i in range(max(len(la), len(lb))):
        x = la[i] if i < len(la) else '<EOF>'
        y = lb[i] if i < len(lb) else '<EOF>'
        if x != y:
            return i + 1, x[:300], y[:300]
    return None


def main():
    global _sem, GO_ONLY
    ap = argparse.ArgumentParser()
    ap.add_argument('--seed', type=int, default=1)
    ap.add_argument('--n', type=int, default=60)
    ap.add_argument('--sizes', default='small,medium')
    ap.add_argument('--stream', default='safe')
    ap.add_argument('--jobs', type=int, default=16)
    ap.add_argument('--no-shrink', action='store_true')
    ap.add_argument('--no-build', action='store_true')
    ap.add_argument('--shrink-tests', type=int, default=120)
    ap.add_argument('--max-shrink', type=int, default=8, help='shrink at most this many failures (one per signature first)')
    ap.add_argument('--out', default='/verif/.build/gen/selftest')
    ap.add_argument('--features', default='')
    ap.add_argument('--json', default='')
    ap.add_argument('--go-only', action='store_true', help='generator debugging: only check that Go compiles and runs every program')
    a = ap.parse_args()
    _sem = threading.Semaphore(a.jobs)
    GO_ONLY = a.go_only
    os.makedirs(TMPROOT, exist_ok=True)
    t0 = time.time()
    warun = PRIVATE_WARUN if (a.no_build and os.path.exists(PRIVATE_WARUN)) else build_warun()
    t_build = time.time() - t0
    sizes = a.sizes.split(',')
    feats = [f for f in a.features.split(',') if f] or None
    t1 = time.time()
    items = []
    for i in range(a.n):
        size = sizes[i % len(sizes)]
        rng = random.Random(a.seed * 1000003 + i)
        p = progs.gen_program(rng, size=size, features=feats, stream=a.stream)
        p.seed_note = 'seed=%d index=%d' % (a.seed, i)
        items.append((i, size, p, p.render_go()))
    t_gen = time.time() - t1
    pool = ThreadPoolExecutor(max_workers=a.jobs * 2 + 2)     # leaf tasks: one subprocess each
    outer = ThreadPoolExecutor(max_workers=max(a.n, 16))      # judge / shrink tasks wait on leaf tasks
    t2 = time.time()
    futs = [outer.submit(judge, text, warun, pool) for _, _, _, text in items]
    res = [f.result() for f in futs]
    t_run = time.time() - t2

    if os.path.isdir(a.out):
        shutil.rmtree(a.out)
    os.makedirs(a.out)
    by_cls = collections.Counter(r['cls'] for r in res)
    by_size = collections.defaultdict(collections.Counter)
    featcount = collections.Counter()
    kindcount = collections.Counter()
    nfeat = []
    lines = []
    for (i, size, p, text), r in zip(items, res):
        by_size[size][r['cls']] += 1
        featcount.update(p.features)
        kindcount.update(g.name for g in p.stmt_groups)
        nfeat.append(len(p.features))
        lines.append(text.count('\n'))
    print('== gen/selftest seed=%d n=%d sizes=%s stream=%s' % (a.seed, a.n, a.sizes, a.stream))
    print('build %.1fs  generate %.2fs  run both sides %.1fs (jobs=%d)' % (t_build, t_gen, t_run, a.jobs))
    print('classes: %s' % dict(by_cls))
    for size in sizes:
        c = by_size[size]
        tot = sum(c.values())
        print('  %-6s n=%d agree=%d (%.1f%%) %s' % (size, tot, c['agree'], 100.0 * c['agree'] / max(1, tot), dict(c)))
    print('program size: lines min/avg/max = %d/%d/%d ; features per program min/avg/max = %d/%.1f/%d' % (
        min(lines), sum(lines) / len(lines), max(lines), min(nfeat), sum(nfeat) / len(nfeat), max(nfeat)))
    ops = collections.Counter()
    for _, _, p, _ in items:
        ops.update(p.op_stats())
    print('expression nodes: %d, distinct operator-template x type pairs: %d' % (sum(ops.values()), len(ops)))
    allf = progs.feature_list()
    used = [f for f in allf if featcount[f]]
    print('feature coverage: %d of %d features used (%d safe-stream features, %d probes)' % (
        len(used), len(allf), len(progs.FEATURES), len(progs.PROBES)))
    print('  groups by kind: %s' % dict(kindcount))
    print('  programs per feature: ' + ', '.join('%s=%d' % (f, featcount[f]) for f in allf if featcount[f]))
    missing = [f for f in progs.FEATURES if not featcount[f]]
    if missing:
        print('  safe features not hit in this run: ' + ', '.join(missing))

    if a.stream == 'probe':
        pc = collections.defaultdict(collections.Counter)
        for (i, size, p, text), r in zip(items, res):
            for f in p.features:
                if f.startswith('probe:'):
                    pc[f][r['cls']] += 1
        print('probe stream: outcome per probe (a probe that only ever agrees no longer triggers its defect)')
        for f in progs.PROBES:
            if pc[f]:
                print('  %-36s %s' % (f, dict(pc[f])))

    # ---- failures
    fails = [(it, r) for it, r in zip(items, res) if r['cls'] != 'agree']
    sigs = collections.OrderedDict()
    for it, r in fails:
        sigs.setdefault(r['sig'], []).append((it, r))
    print('failures: %d, distinct signatures: %d' % (len(fails), len(sigs)))
    for sig, lst in sigs.items():
        print('  [%d] %s   e.g. index %s' % (len(lst), sig, [it[0] for it, _ in lst][:8]))
    todo = []
    for sig, lst in sigs.items():
        todo.append(lst[0])
    for sig, lst in sigs.items():
        todo.extend(lst[1:])
    # a go_bad program is a generator bug: the Go message says it all, shrink only the first of each signature
    seen_go = set()
    t2 = []
    for it, r in todo:
        if r['cls'] == 'go_bad':
            if r['sig'] in seen_go:
                continue
            seen_go.add(r['sig'])
        t2.append((it, r))
    todo = t2[:a.max_shrink]

    def do_shrink(it, r):
        i, size, p, text = it
        base = os.path.join(a.out, 'fail_%03d_%s' % (i, r['cls']))
        with open(base + '.wa.go', 'w') as f:
            f.write(text)
        with open(base + '.go.out', 'wb') as f:
            f.write(r['go_out'])
        with open(base + '.wa.out', 'wb') as f:
            f.write(r['wa_out'] + b'\n--stderr--\n' + r['wa_err'])
        info = {'index': i, 'size': size, 'cls': r['cls'], 'sig': r['sig'], 'file': base + '.wa.go'}
        if r['cls'] == 'mismatch':
            info['first_diff'] = first_diff(r['wa_out'], r['go_out'])
        if a.no_shrink or r['cls'] == 'wa_timeout':     # (every shrink step of a hang would cost a full timeout)
            return info, None, r
        want = r['sig']

        def still(pr):
            return judge(pr.render_go(), warun, pool)['sig'] == want
        q = progs.shrink(p, still, max_tests=a.shrink_tests)
        qt = q.render_go()
        rr = judge(qt, warun, pool)
        with open(base + '.min.wa.go', 'w') as f:
            f.write(qt)
        info['min_file'] = base + '.min.wa.go'
        info['min_lines'] = qt.count('\n')
        return info, qt, rr

    t3 = time.time()
    sf = [outer.submit(do_shrink, it, r) for it, r in todo]
    report = []
    for f in sf:
        info, qt, rr = f.result()
        report.append(info)
        print('-' * 100)
        print('FAIL index=%d size=%s class=%s sig=%s' % (info['index'], info['size'], info['cls'], info['sig']))
        print('  full program: %s' % info['file'])
        if qt is not None:
            print('  shrunk to %d lines: %s' % (info['min_lines'], info['min_file']))
            body = qt[qt.index('func main()'):] if 'func main()' in qt else qt
            decls = qt[qt.index('func hashStr'):qt.index('func main()')] if 'func hashStr' in qt else ''
            decls = decls[decls.index('\n}\n') + 3:] if '\n}\n' in decls else ''
            print((decls + body)[:6000])
        if rr['cls'] == 'mismatch':
            d = first_diff(rr['wa_out'], rr['go_out'])
            print('  first differing line %s\n    wa: %s\n    go: %s' % d)
        elif rr['cls'] in ('wa_error', 'wa_timeout'):
            print('  wa: %s' % (rr['wa_out'][-600:] + b' | ' + rr['wa_err'][-600:]).decode('utf-8', 'replace'))
        elif rr['cls'] == 'go_bad':
            print('  go(%s): %s' % (rr['go_status'], rr['go_out'][:1500].decode('utf-8', 'replace')))
    t_shrink = time.time() - t3
    if todo:
        print('shrinking took %.1fs' % t_shrink)
    summary = {'seed': a.seed, 'n': a.n, 'stream': a.stream, 'classes': dict(by_cls),
               'by_size': {k: dict(v) for k, v in by_size.items()}, 'features': dict(featcount),
               'signatures': {k: len(v) for k, v in sigs.items()}, 'failures': report,
               'times': {'build': t_build, 'gen': t_gen, 'run': t_run, 'shrink': t_shrink}}
    if a.json:
        with open(a.json, 'w') as f:
            json.dump(summary, f, indent=1, default=str)
    pool.shutdown()
    outer.shutdown()
    return 0 if not fails else 1


if __name__ == '__main__':
    sys.exit(main())
