#!/usr/bin/env python3
"""gen/findings.py -- the disagreements between Wa (WaGo mode) and Go found with gen/progs, as DATA:
minimal program, what Wa printed, what Go printed, suspected root cause in /repo, the avoidance rule of
the safe stream and the probe that triggers it.  `python3 gen/findings.py` re-runs every minimal program
both ways (go run / warun run) and reports whether each recorded divergence is still present -- so a
`fix:` commit in /repo shows up as "GONE" and the corresponding safe-stream rule can be lifted.

Tree when recorded: /repo at 3d2ee37 (snapshot 7d318b1 + 3 fix: commits), go1.23.5; re-verified at cbe9ee5
(13 fix: commits): every entry still reproduces except #13 (fixed by c6e0763).
kind: D = genuine Wa defect (accepts the program and misbehaves, or aborts on a valid program)
      L = language-level difference WaGo vs current Go (same text, different meaning/acceptance)
      G = generator problem (Go leaves the behaviour open); fixed in the generator, kept as a probe
"""
import os
import sys


def _defect(name):
    return open(os.path.join(os.path.dirname(os.path.abspath(__file__)), "..", "corpus", "C01", "defects", name + ".go")).read()


FINDINGS = [
    dict(id=1, kind='D', probe='probe:shift_ge_width', known='DESIGN.md section 7',
         title='shift count >= register width is taken modulo 32/64',
         program='''package main

func main() {
	var x int32 = 5
	var y uint8 = 200
	var z int64 = 7
	var c uint32 = 33
	var d uint32 = 65
	println(x<<c, -x>>c, y>>c, z<<d)
}
''', wa='10 -3 100 14', go='0 -1 0 0',
         root='internal/backends/compiler_wat/wir/instruction_emitter.go EmitBinOp passes the count straight to '
              'i32.shl/shr_* / i64.shl/shr_*, which use the count modulo 32 / 64.',
         safe='every shift count is a literal < 32 (operand <= 32 bits) / < 64, or (c & 31|63), or c % 32|64. Counts in '
              '[operand width, register width) such as uint8 << 9 are kept: they agree.'),
    dict(id=2, kind='D', probe='probe:minint_div_neg1', known='DESIGN.md section 7',
         title='MinInt / -1 traps',
         program='''package main

func main() {
	var a, b int32 = -2147483648, -1
	println(a % b)
	println(a / b)
}
''', wa='0\n\nERROR: wasm error: integer overflow', go='0\n-2147483648',
         root='i32.div_s / i64.div_s emitted without the -1 special case.',
         safe='signed divisors are ((e & m)+1), -((e & 255)+2), ((e &^ 1) | 2) or a literal not in {0,-1}.'),
    dict(id=3, kind='D', probe='probe:map_delete_general', known='DESIGN.md section 7 (C13)',
         title='delete(m,k) of a key whose tree node has two children removes the successor instead',
         program='''package main

func main() {
	m := map[int32]int32{}
	for i := 1; i <= 10; i++ {
		m[int32(i)] = int32(i * 10)
	}
	delete(m, 4)
	_, ok4 := m[4]
	_, ok5 := m[5]
	println(len(m), ok4, ok5)
}
''', wa='9 true false', go='9 false true',
         root='waroot/src/runtime/map.wa mapImp.delete: in the two-children case the successor y is unlinked but its '
              'key/value are never copied into z (`if y != z { z = y }` only rebinds a local); Delete then drops z from '
              'nodes[] although z is still linked in the tree.',
         safe='the key set of every generated map is simulated; delete only of an absent key, from a map with <= 2 entries, '
              'or (integer keys) of the current minimum/maximum key (node without left/right child).'),
    dict(id=4, kind='D', probe='probe:value_receiver',
         title='methods with value receivers: invalid module / unbounded recursion',
         program='''package main

type Sq struct{ s int64 }

func (s Sq) Area() int64 { return s.s * s.s }

func main() {
	q := Sq{4}
	println(q.Area())
}
''', wa='\nERROR: invalid function[148] export["__main__.main"]: type mismatch on call operation param type: type mismatch: expected i32, but was i64',
         go='16',
         root='(a) wir/util.go GetFnMangleName gives the value-receiver method Sq.Area and the SSA-synthesised pointer wrapper '
              '(*Sq).Area the same symbol __main__.Sq.Area (with two int32 fields the module validates and Sq.Area calls '
              'itself until "stack overflow"); (b) internal/types/lookup.go missingMethod lines 269-273 answers "missing" '
              'for every non-pointer V, yet value-receiver declarations are accepted in WaGo mode.',
         safe='pointer receivers only; interfaces are only ever given &v.'),
    dict(id=5, kind='D', probe='probe:array_eq probe:map_array_key',
         title='array == / !=, arrays as map keys: compiler aborts',
         program='''package main

func main() {
	var a [3]int32
	b := a
	b[1] = 9
	println(a == b)
}
''', wa='../../repo/internal/backends/compiler_wat/wir/value_struct.go:354: v.Type() != r.Type()', go='false',
         root='wir/value_array.go aArray embeds aStruct and does not override emitEq/emitCompare; the inherited '
              'aStruct.emitEq compares its underlying struct type with the operand\'s array type and calls logger.Fatal '
              '(os.Exit(1)). map[[2]int32]T aborts the same way at value_struct.go:380.',
         safe='arrays are never compared and never used as map keys.'),
    dict(id=6, kind='D', probe='probe:map_range_key_only',
         title='`for k := range m` / `for _, v := range m` on a map: compiler aborts',
         program='''package main

func main() {
	m := map[int32]int32{1: 2, 3: 4}
	var n int32
	for k := range m {
		n += k
	}
	println(n)
}
''', wa='../../repo/internal/backends/compiler_wat/compile_type.go:116: Unknown type:invalid type', go='4',
         root='the SSA builder types the unused component of the Next tuple as types.Typ[Invalid]; '
              'compiler_wat/compile_type.go compile() has no case for it. `for k, v := range m` works.',
         safe='always `for k, v := range m { _ = v; ... }`.'),
    dict(id=7, kind='D', probe='probe:field_slice_syntax',
         title='WaGo parser rejects `name []T` / `name [N]T` in struct fields and parameters',
         program='''package main

type T struct {
	a int32
	b [3]uint8
}

func main() {
	var t T
	println(t.b[1])
}
''', wa='\nERROR: p.wa.go:5:2: expected identifier (and 1 more errors)', go='0',
         root='internal/parser/parser.go tryIdentOrType (line 1105): after an identifier a following `[` is parsed as a '
              'generic type instantiation (parseTypeInstance); in .wa syntax `:` separates name and type, in WaGo mode '
              'nothing does. `var x []T`, results and composite literals are fine.',
         safe='fields/parameters of array or slice type use a named type (type G3Arr [3]uint8).'),
    dict(id=8, kind='D', probe='probe:global_int64_init',
         title='package-level int64 initialised with a constant outside [-32,31] holds a wrong value',
         program='''package main

var A int64 = 77
var G int64 = -77

func main() { println(A, G) }
''', wa='31 -32', go='77 -77',
         root='wir/value_basic.go:246 aBasic.Bin() case *I64: strconv.ParseInt(v.Name(), 0, 6) -- bit size 6 instead of '
              '64, so the data-segment image is clamped (error ignored). Every constant int64 placed in a data segment.',
         safe='int64 globals are declared without initialiser and assigned in main.'),
    dict(id=9, kind='D', probe='probe:global_uint64_init',
         title='package-level uint64 constants >= 2^63 read 0',
         program='''package main

var A uint64 = 9223372036854775808
var I = [2]uint64{18446744073709551615, 1}

func main() { println(A, I[0], I[1]) }
''', wa='0 0 1', go='9223372036854775808 18446744073709551615 1',
         root='compiler_wat/compile_func.go:113 renders the constant with strconv.Itoa(int(val)) (negative text for values '
              '>= 2^63); aBasic.Bin() then strconv.ParseUint fails, error ignored -> 0. In code position the negative '
              'text is a valid i64.const, so locals are right.',
         safe='uint64 global initialisers are < 2^63.'),
    dict(id=10, kind='D', probe='probe:nil_map_zero_value',
         title='zero value of a map type: compiler aborts',
         program='''package main

func main() {
	var m map[string]int32
	println(m["x"], len(m))
}
''', wa='../../repo/internal/backends/compiler_wat/compile_func.go:240: Todo:*types.Map', go='0 0',
         root='compile_func.go: constant nil of map type is not implemented (slices, pointers, funcs are).',
         safe='maps are always created with make or a literal.'),
    dict(id=11, kind='D', probe='probe:range_invalid_utf8',
         title='range over a string stops at the first invalid UTF-8 byte',
         program='''package main

func main() {
	for i, r := range "a\\xffb" {
		println(i, int64(r))
	}
}
''', wa='0 97', go='0 97\n1 65533\n2 98',
         root='waroot/src/runtime/string.wa next_rune: a byte that is not a valid lead byte falls through all branches and '
              'returns ok=false (end of iteration); continuation bytes are not validated, truncated sequences read past the end.',
         safe='string variables only ever hold valid UTF-8; byte-slices of strings (may split a sequence) are only hashed, '
              'measured or compared with == / !=, never stored, ranged or ordered.'),
    dict(id=12, kind='D', probe='probe:string_order_invalid_utf8',
         title='string ordering is wrong when an operand contains invalid UTF-8',
         program='''package main

func main() {
	s := "h\\u00e9llo"
	t := s[2:]
	println(s < t, t < s)
}
''', wa='false true', go='true false',
         root='runtime/string.wa:48 string_Comp compares decoded runes via next_rune and, when either side reports '
              'ok=false, falls back to comparing the lengths; Go specifies byte-wise comparison. Also orders string map keys.',
         safe='see 11.'),
    dict(id=13, kind='D', probe='(none: fixed)', fixed_by='c6e0763 (found independently by another check while this list was built)',
         title='func literal nested in a func literal and capturing the outer literal\'s locals: compiler aborts',
         program='''package main

func main() {
	mk := func(step int32) func() int32 {
		var c int32
		return func() int32 { c += step; return c }
	}
	a := mk(2)
	println(a(), a())
}
''', wa='../../repo/internal/backends/compiler_wat/compile_func.go:1315: Type: __main__.main$1$1.$warpdata already registered.',
         go='2 4',
         root='compile_func.go ~1307: the closure-environment struct `<fn>.$warpdata` of the inner literal is registered '
              'twice. The same factory as a top-level func works; a nested literal capturing only main\'s variables works.',
         safe='was: closure factories are top-level functions; lifted after c6e0763 (the safe stream now emits both forms).'),
    dict(id=14, kind='D', probe='probe:iface_to_iface_assign',
         title='implicit interface -> smaller interface conversion is rejected',
         program='''package main

type Big interface {
	A() int32
	B() int32
}
type Small interface {
	B() int32
}
type Imp struct{ v int32 }

func (p *Imp) A() int32 { return p.v }
func (p *Imp) B() int32 { return p.v + 1 }

func main() {
	var b Big = &Imp{4}
	var s Small = b
	println(s.B())
}
''', wa='\nERROR: p.wa.go:17:16: cannot use b (variable of type __main__.Big) as Small value in variable declaration: missing method B',
         go='5',
         root='internal/types/lookup.go:269-273: `if len(T.allMethods) != 0 { if _, ok := V.(*Pointer); !ok { return '
              'T.allMethods[0], false } }` runs before the V-is-an-interface case. The dynamic form b.(Small) works.',
         safe='interface-to-interface conversions are written as type assertions.'),
    dict(id=15, kind='D', probe='probe:assert_fail_string_zero',
         title='failed `v, ok := e.(string)` yields "0" instead of ""',
         program='''package main

func main() {
	var x uint8 = 127
	var e interface{} = x
	s, ok := e.(string)
	println(len(s), ok, s == "")
}
''', wa='1 false false', go='0 false true',
         root='wir/value_interface.go emitGetData: the failure branch pushes NewConst("0", destType); for destType string '
              'that is the string literal "0", not the zero value.',
         safe='no failing assertion to string whose value is used.'),
    dict(id=16, kind='D', probe='probe:float_to_uint_high',
         title='float -> uint32/uint/uint64 conversion traps for values >= 2^31 / 2^63',
         program='''package main

func main() {
	var f float64 = 3e9
	println(uint32(f))
}
''', wa='\nERROR: wasm error: integer overflow', go='3000000000',
         root='instruction_emitter.go EmitGenConvert (lines 640-756) uses i32.trunc_f*_s / i64.trunc_f*_s for the unsigned '
              'destinations too.',
         safe='float -> unsigned goes through clampU (0..200, scaled) or clampP31 (0..2^31-1), float -> int64 through '
              'clampS64 (|f| <= 9e18); NaN maps to 0 in the clamp helpers.'),
    dict(id=17, kind='D', probe='probe:method_expr',
         title='method expression (*T).M: wat2wasm: unknown func ".M$thunk"',
         program='''package main

type T struct{ v int32 }

func (m *T) Plus(d int32) int32 { return m.v + d }

func main() {
	f := (*T).Plus
	println(f(&T{1}, 2))
}
''', wa='wat2wasm: unknown func ".Plus$thunk"', go='3',
         root='the SSA $thunk wrapper is referenced but not emitted under that name (GetFnMangleName for synthetic '
              'functions without package/receiver part). Method values (f := p.Plus) work.',
         safe='no method expressions.'),
    dict(id=18, kind='L', probe='probe:loopvar_closure',
         title='closures capture ONE loop variable per loop (pre-Go-1.22 semantics)',
         program='''package main

func main() {
	var fs []func() int
	for i := 0; i < 3; i++ {
		fs = append(fs, func() int { return i })
	}
	for _, f := range fs {
		println(f())
	}
}
''', wa='3\n3\n3', go='0\n1\n2',
         root='front end derived from pre-1.22 go/types + ssa. (go run with a go.mod saying go 1.21 also prints 3 3 3.)',
         safe='closures/defers in loops capture a copy (j := i) or take the value as an argument.'),
    dict(id=19, kind='L', probe='probe:fallthrough',
         title='no fallthrough',
         program='''package main

func main() {
	x := 0
	switch x {
	case 0:
		println("a")
		fallthrough
	case 1:
		println("b")
	}
}
''', wa='\nERROR: p.wa.go:8:3: undeclared name: fallthrough', go='a\nb',
         root='the Wa token set has no fallthrough keyword; WaGo mode parses it as an identifier.',
         safe='not generated.'),
    dict(id=20, kind='G', probe='probe:eval_order',
         title='order of a variable read against a call in the same expression (unspecified in Go)',
         program='''package main

func main() {
	cnt := 0
	inc := func(n int) int { cnt += n; return cnt }
	inc(2)
	println(cnt, inc(1))
}
''', wa='2 3', go='3 3',
         root='not a defect: the Go spec orders calls among themselves but not a plain variable read against a call.',
         safe='a call to anything with side effects is always a whole statement (r := f(args), args call-free); only '
              'side-effect-free functions appear inside expressions.'),
    dict(id=21, kind='D', probe='probe:const_aliases_global_storage', fixed_by='033911b',
         title='a string literal of NUL bytes is placed on top of the zero-initialised storage of a package-level array',
         program="""package main

var arr [70000]byte

func main() {
	s := \"""" + "\\x00" * 600 + """\"
	for i := 0; i < len(arr); i++ {
		arr[i] = 65
	}
	n := 0
	for i := 0; i < len(s); i++ {
		if s[i] != 0 {
			n++
		}
	}
	println(len(s), n)
}
""", wa='600 584', go='600 0',
         root='wir/wat/data_seg.go DataSeg.Append de-duplicated constant bytes with bytes.Index over the whole data segment, '
              'including ranges handed out by Alloc for mutable globals.',
         safe='not generated (literals with NULs are rare); kept as a probe.'),
    dict(id=22, kind='D', probe='probe:array_lit_over_nonzero', fixed_by='95753e8',
         title='arr = [2]T{{A: 1}, {A: 2}} over a non-zero array keeps the old values of the fields the literal leaves out',
         program="""package main

type In struct{ A, B int32 }

var garr [2]In

func main() {
	var arr [2]In
	arr[0].B = 5
	arr[1].B = 6
	arr = [2]In{{A: 1}, {A: 2}}
	println(arr[0].A, arr[0].B, arr[1].A, arr[1].B)
	garr[0].B = 7
	garr = [2]In{{A: 3}, {A: 4}}
	println(garr[0].A, garr[0].B, garr[1].A, garr[1].B)
}
""", wa='1 5 2 6\n3 7 4 0', go='1 0 2 0\n3 0 4 0',
         root='internal/ssa/builder.go compLit: the array branch assigned the elements with isZero=true although the destination '
              'is existing storage (same code as upstream x/tools go/ssa).',
         safe='not generated before; kept as a probe.'),
    # 23-26: found while writing the feature-program suite corpus/C01 (programs kept in corpus/C01/defects/)
    dict(id=23, kind='D', probe='probe:iface_int_int32_identity', program=_defect('iface_int_int32_identity'),
         title='int and int32 (uint and uint32) are one dynamic type: interface ==, assertions and type switches cannot tell them apart',
         wa='true / int32 / true', go='false / int / false',
         root='wir/module.go m.INT = m.I32, m.UINT = m.U32: one back-end value type and one type hash for two front-end types.',
         safe='feature programs never put int and int32 values into the same interface comparison or type switch.'),
    dict(id=24, kind='D', probe='probe:iface_holding_nil_pointer', program=_defect('iface_holding_nil_pointer'),
         title='an interface holding a nil pointer compares == nil; a method call on a nil pointer receiver panics',
         wa='true / true true / panic: nil pointer dereferenced', go='false / true true / -1 / -1',
         root='wir/value_interface.go emitEq tests the data word only; ssa emitNilCheck before every method call (deliberate).',
         safe='feature programs never box nil pointers and never call methods on nil receivers.'),
    dict(id=25, kind='D', probe='probe:bytes_of_empty_string_is_nil', program=_defect('bytes_of_empty_string_is_nil'),
         title='[]byte(s) / []rune(s) of an empty non-constant string is nil',
         wa='0 true / 0 true', go='0 false / 0 false',
         root='runtime string-to-slice helpers return the zero slice for length 0.',
         safe='converted slices are never compared with nil.'),
    dict(id=26, kind='D', probe='probe:named_pointer_type', program=_defect('named_pointer_type'),
         title='a named type whose underlying type is a pointer (type PP *T) aborts the compiler',
         wa='compile_type.go:327: Todo:*types.Pointer', go='77',
         root='compile_type.go typeLib.compile, case *types.Named has no *types.Pointer arm.',
         safe='not generated.'),
]

OTHER_SURFACE_DIFFERENCES = [
    'int/uint are 32-bit in Wa (64-bit in Go): generated int/uint expressions carry a static bound below 2^30 / 2^31',
    'rune is a type distinct from int32 and println prints it as a character: runes are printed as int64(r)',
    'floats print in Wa\'s own format: floats are printed as IEEE bit patterns (fbits/fbits32, NaN canonicalised because '
    'x86 produces the negative quiet NaN and wasm the positive one)',
    'math.Sqrt(<untyped constant>) types as math.Sqrt32 (f32) in Wa: no math calls besides Float64bits/Float32bits',
    'capacity after growth past capacity is implementation-specific: cap is printed only while statically known and a '
    'slice of unknown capacity is pinned (s = s[:len(s):len(s)]) before anything is appended to it',
]


def main():
    import os
    import threading
    from concurrent.futures import ThreadPoolExecutor
    here = os.path.dirname(os.path.abspath(__file__))
    sys.path.insert(0, os.path.dirname(here))
    sys.path.insert(0, here)
    import selftest
    selftest._sem = threading.Semaphore(16)
    os.makedirs(selftest.TMPROOT, exist_ok=True)
    warun = selftest.PRIVATE_WARUN if ('--no-build' in sys.argv and os.path.exists(selftest.PRIVATE_WARUN)) else selftest.build_warun()
    pool = ThreadPoolExecutor(40)
    outer = ThreadPoolExecutor(len(FINDINGS))
    futs = [(f, outer.submit(selftest.judge, f['program'], warun, pool)) for f in FINDINGS]
    gone = 0
    for f, fu in futs:
        r = fu.result()
        wa = (r['wa_out'] + (b'' if r['wa_status'] == 'ok' else b' ' + r['wa_err'])).decode('utf-8', 'replace').strip()
        go = r['go_out'].decode('utf-8', 'replace').strip()
        state = 'PRESENT' if r['cls'] != 'agree' else 'GONE'
        if r['cls'] == 'go_bad':
            state = 'GO-FAILED'
        if state == 'GONE':
            gone += 1
        print('#%-2d %s %-9s %-9s %s' % (f['id'], f['kind'], state, r['cls'], f['title']))
        if '-v' in sys.argv:
            print('     wa: %r\n     go: %r' % (wa[:200], go[:200]))
    print('%d findings, %d no longer reproduce' % (len(FINDINGS), gone))
    return 0


if __name__ == '__main__':
    sys.exit(main())
