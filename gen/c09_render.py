"""C09/C07: a small program AST for the subset shared by the English (.wa) and Chinese (.wz) syntaxes
of Wa, a renderer to BOTH surface syntaxes (same line structure, so diagnostics can be compared by
line), and a compact typed generator.

AST (nested tuples)
  type : ('t', name) | ('slice', T) | ('map', K, V) | ('ptr', T) | ('arr', n, T) | ('named', N)
         | ('func', [(name, T)], [T])
  expr : ('lit', text) | ('id', n) | ('pre', englishPredeclaredName) | ('bin', op, a, b) | ('un', op, a)
         | ('call', f, [args]) | ('callv', f, [args])  (last arg spread with ...) | ('sel', x, field)
         | ('idx', x, i) | ('slice', x, lo, hi) | ('paren', x) | ('comp', T, [elt | ('kv', k, v)])
         | ('conv', T, x) | ('tassert', x, T) | ('funclit', params, results, body) | ('type', T)
  stmt : ('var', n, T|None, e|None) | ('define', [n], [e]) | ('assign', [lhs], op, [rhs]) | ('incdec', x, op)
         | ('expr', e) | ('if', init|None, cond, body, els) (els: None | [stmts] | ('if', ...))
         | ('for3', init, cond, post, body) | ('forc', cond|None, body) | ('range', k, v, x, body)
         | ('switch', init|None, tag|None, [(exprs|None, body)]) | ('tswitch', bind|None, x, [(types|None, body)])
         | ('break',) | ('continue',) | ('return', [e]) | ('defer', call) | ('block', body) | ('const', n, T|None, e)
         | ('raw', waLine, wzLine)
  decl : ('import', path, alias|None) | ('const', n, T|None, e) | ('constgroup', [(n, e|None)])
         | ('global', n, T|None, e|None) | ('struct', n, [(f, T)]) | ('iface', n, [(m, params, results)])
         | ('func', recvType|None, name, params, results, body)      (body None: declaration only)
"""
import random

WZ_KW = {"import": "引入", "const": "常量", "global": "全局", "type": "类型", "func": "函数", "var": "设定",
         "struct": "结构", "map": "字典", "interface": "接口", "if": "如果", "elseif": "或者", "else": "否则",
         "switch": "找辙", "case": "有辙", "default": "没辙", "for": "循环", "range": "迭代",
         "continue": "继续", "break": "跳出", "defer": "押后", "return": "返回", "block": "区块", "end": "完毕"}

# English predeclared name -> Chinese predeclared name (the behavioural pairing: println = 输出)
WZ_PRE = {"nil": "空", "true": "真", "false": "假", "iota": "嘀嗒", "byte": "字节", "rune": "符文", "string": "字串",
          "any": "皮囊", "bool": "布尔", "int": "整型", "uint": "正整", "f32": "单精", "f64": "双精",
          "i8": "微整型", "i16": "短整型", "i32": "普整型", "i64": "长整型", "u8": "微正整", "u16": "短正整",
          "u32": "普正整", "u64": "长正整", "uintptr": "地址型", "error": "错误", "main": "主控", "init": "准备",
          "this": "我的", "append": "追加", "cap": "容量", "complex": "复数", "copy": "拷贝", "delete": "删除",
          "imag": "虚部", "len": "长度", "make": "构建", "new": "新建", "panic": "崩溃", "println": "输出",
          "print": "打印", "real": "实部", "Error": "报错信息"}


class Render:
    """lang in ('wa', 'wz').  opts (C07, .wa/.wz redundant syntax) is a dict of probabilities driven by rng."""

    def __init__(self, lang, rng=None, variety=0.0, redundant=0.0):
        self.lang = lang
        self.rng = rng or random.Random(0)
        self.variety = variety        # wz: '·' selectors / keyword separators
        self.redundant = redundant    # optional `var`, parenthesised conditions, ';'
        self.lines = []
        self.ind = 0

    # ---------------------------------------------------------------- helpers
    def kw(self, k):
        if self.lang == "wz":
            return WZ_KW[k]
        return {"elseif": "else if", "block": "", "end": "}"}.get(k, k)

    def kwsp(self, k):
        """keyword followed by its separator"""
        if self.lang == "wz" and self.rng.random() < self.variety:
            return WZ_KW[k] + "·"
        return self.kw(k) + " "

    def pre(self, n):
        return WZ_PRE.get(n, n) if self.lang == "wz" else n

    def dot(self):
        if self.lang == "wz" and self.rng.random() < self.variety:
            return "·"
        return "."

    def open_(self):
        return ":" if self.lang == "wz" else " {"

    def emit(self, s):
        self.lines.append("\t" * self.ind + s)

    # ---------------------------------------------------------------- types
    def typ(self, t):
        k = t[0]
        if k == "t":
            return self.pre(t[1])
        if k == "named":
            return t[1]
        if k == "slice":
            return "[]" + self.typ(t[1])
        if k == "arr":
            return "[%d]%s" % (t[1], self.typ(t[2]))
        if k == "ptr":
            return "*" + self.typ(t[1])
        if k == "map":
            return "%s[%s]%s" % (self.kw("map"), self.typ(t[1]), self.typ(t[2]))
        if k == "func":
            return self.kw("func") + self.sig(t[1], t[2])
        raise ValueError(t)

    def params(self, ps):
        return ", ".join(("%s: %s" % (n, self.typ(t))) if n else self.typ(t) for n, t in ps)

    def sig(self, ps, rs):
        s = "(" + self.params(ps) + ")"
        if len(rs) == 1:
            s += " => " + self.typ(rs[0])
        elif len(rs) > 1:
            s += " => (" + ", ".join(self.typ(r) for r in rs) + ")"
        return s

    # ---------------------------------------------------------------- expressions
    PREC = {"||": 1, "&&": 2, "==": 3, "!=": 3, "<": 3, "<=": 3, ">": 3, ">=": 3, "+": 4, "-": 4, "|": 4, "^": 4,
            "*": 5, "/": 5, "%": 5, "<<": 5, ">>": 5, "&": 5, "&^": 5}

    def expr(self, e, prec=0):
        k = e[0]
        if k == "lit":
            return e[1]
        if k == "id":
            return e[1]
        if k == "pre":
            return self.pre(e[1])
        if k == "bin":
            p = self.PREC[e[1]]
            s = "%s %s %s" % (self.expr(e[2], p), e[1], self.expr(e[3], p + 1))
            return "(" + s + ")" if p < prec else s
        if k == "un":
            inner = self.expr(e[2], 6)
            # directly nested prefix operators are separated by a blank where the two tokens would
            # otherwise fuse into another token (- - / + + / & & / * after / ...): `- -x`, `+ +x`, `& &x` never `--x`
            if inner[:1] == e[1] or (e[1] == "&" and inner[:1] in "&^") or (e[1] == "-" and inner[:1] == "-"):
                inner = " " + inner
            s = e[1] + inner
            return "(" + s + ")" if prec > 6 else s
        if k == "paren":
            return "(" + self.expr(e[1]) + ")"
        if k in ("call", "callv"):
            a = ", ".join(self.expr(x) for x in e[2])
            return "%s(%s%s)" % (self.expr(e[1], 7), a, "..." if k == "callv" else "")
        if k == "sel":
            return self.expr(e[1], 7) + self.dot() + e[2]
        if k == "idx":
            return "%s[%s]" % (self.expr(e[1], 7), self.expr(e[2]))
        if k == "slice":
            return "%s[%s:%s]" % (self.expr(e[1], 7), self.expr(e[2]) if e[2] else "", self.expr(e[3]) if e[3] else "")
        if k == "comp":
            return "%s{%s}" % (self.typ(e[1]), ", ".join(self.elt(x) for x in e[2]))
        if k == "conv":
            t = self.typ(e[1])
            if e[1][0] in ("ptr", "func", "slice", "map", "arr") and e[1][0] != "slice":
                t = "(" + t + ")"
            return "%s(%s)" % (t, self.expr(e[2]))
        if k == "tassert":
            return "%s.(%s)" % (self.expr(e[1], 7), self.typ(e[2]))
        if k == "type":
            return self.typ(e[1])
        if k == "funclit":
            sub = Render(self.lang, self.rng, self.variety, self.redundant)
            sub.ind = self.ind
            sub.body(e[3])
            return (self.kw("func") + self.sig(e[1], e[2]) + self.open_() + "\n" + "".join(l + "\n" for l in sub.lines) +
                    "\t" * self.ind + self.kw("end"))
        raise ValueError(e)

    def elt(self, x):
        if x[0] == "kv":
            return "%s: %s" % (self.expr(x[1]), self.expr(x[2]))
        return self.expr(x)

    # ---------------------------------------------------------------- statements
    def has_funclit(self, e):
        return isinstance(e, tuple) and e and e[0] == "funclit"

    def head_with_funclit(self, prefix, e, suffix=""):
        """`prefix func(...) => T {` body `}`"""
        self.emit(prefix + self.kw("func") + self.sig(e[1], e[2]) + self.open_())
        self.body(e[3])
        self.emit(self.kw("end") + suffix)

    def simple(self, s):
        """simple statement as text (no trailing newline); used for init/post clauses too"""
        k = s[0]
        if k == "var":       # only without funclit
            return self.vardecl(s)
        if k == "define":
            return "%s := %s" % (", ".join(s[1]), ", ".join(self.expr(x) for x in s[2]))
        if k == "assign":
            return "%s %s %s" % (", ".join(self.expr(x) for x in s[1]), s[2], ", ".join(self.expr(x) for x in s[3]))
        if k == "incdec":
            return self.expr(s[1]) + s[2]
        if k == "expr":
            return self.expr(s[1])
        raise ValueError(s)

    def vardecl(self, s):
        _, n, t, e = s
        if t is None:
            return "%s := %s" % (n, self.expr(e))
        txt = "%s: %s" % (n, self.typ(t))
        if e is not None:
            txt += " = " + self.expr(e)
        if self.lang == "wz":
            return self.kwsp("var") + txt
        if self.rng.random() < self.redundant:
            return "var " + txt
        return txt

    def cond(self, c):
        s = self.expr(c)
        if self.lang == "wa" and self.rng.random() < self.redundant:
            return "(" + s + ")"
        return s

    def body(self, stmts):
        self.ind += 1
        for s in stmts:
            self.stmt(s)
        self.ind -= 1

    def semi(self):
        return ";" if (self.lang == "wa" and self.rng.random() < self.redundant) else ""

    def stmt(self, s):
        k = s[0]
        if k == "raw":
            self.emit(s[1] if self.lang == "wa" else s[2])
        elif k == "var" and s[3] is not None and self.has_funclit(s[3]):
            _, n, t, e = s
            if t is None:
                self.head_with_funclit("%s := " % n, e)
            else:
                pre = "%s: %s = " % (n, self.typ(t))
                if self.lang == "wz":
                    pre = self.kwsp("var") + pre
                self.head_with_funclit(pre, e)
        elif k in ("var", "define", "assign", "incdec", "expr"):
            self.emit(self.simple(s) + self.semi())
        elif k == "const":
            _, n, t, e = s
            self.emit("%s%s%s = %s" % (self.kwsp("const"), n, (": " + self.typ(t)) if t else "", self.expr(e)))
        elif k == "if":
            self.ifstmt(s, "if")
        elif k == "for3":
            _, init, c, post, b = s
            self.emit("%s%s; %s; %s%s" % (self.kwsp("for"), self.simple(init) if init else "",
                                          self.expr(c) if c else "", self.simple(post) if post else "", self.open_()))
            self.body(b)
            self.emit(self.kw("end"))
        elif k == "forc":
            if s[1] is None:
                self.emit(self.kw("for") + self.open_())
            else:
                self.emit(self.kwsp("for") + self.cond(s[1]) + self.open_())
            self.body(s[2])
            self.emit(self.kw("end"))
        elif k == "range":
            _, kk, v, x, b = s
            lhs = ""
            if kk is not None:
                lhs = kk + (", " + v if v is not None else "") + " := "
            self.emit("%s%s%s%s%s" % (self.kwsp("for"), lhs, self.kwsp("range"), self.expr(x), self.open_()))
            self.body(b)
            self.emit(self.kw("end"))
        elif k == "switch":
            _, init, tag, clauses = s
            h = self.kw("switch")
            parts = []
            if init is not None:
                parts.append(self.simple(init) + ";")
            if tag is not None:
                parts.append(self.expr(tag))
            self.emit((h + " " + " ".join(parts) if parts else h) + self.open_())
            self.clauses(clauses, self.expr)
            self.emit(self.kw("end"))
        elif k == "tswitch":
            _, bind, x, clauses = s
            g = "%s.(%s)" % (self.expr(x, 7), self.kw("type"))
            if bind:
                g = bind + " := " + g
            self.emit(self.kwsp("switch") + g + self.open_())
            self.clauses(clauses, self.typ)
            self.emit(self.kw("end"))
        elif k == "break":
            self.emit(self.kw("break") + self.semi())
        elif k == "continue":
            self.emit(self.kw("continue") + self.semi())
        elif k == "return":
            if s[1]:
                self.emit(self.kwsp("return") + ", ".join(self.expr(x) for x in s[1]) + self.semi())
            else:
                self.emit(self.kw("return"))
        elif k == "defer":
            self.emit(self.kwsp("defer") + self.expr(s[1]))
        elif k == "block":
            self.emit("{" if self.lang == "wa" else WZ_KW["block"] + ":")
            self.body(s[1])
            self.emit(self.kw("end"))
        else:
            raise ValueError(s)

    def clauses(self, clauses, f):
        for vals, b in clauses:
            if vals is None:
                self.emit(self.kw("default") + ":")
            else:
                self.emit(self.kwsp("case") + ", ".join(f(v) for v in vals) + ":")
            self.body(b)

    def ifstmt(self, s, kwname):
        _, init, c, b, els = s
        h = self.kwsp(kwname)
        if self.lang == "wa" and kwname == "elseif":
            h = "} else if "
        if init is not None:
            h += self.simple(init) + "; " + self.expr(c)
        else:
            h += self.cond(c)
        self.emit(h + self.open_())
        self.body(b)
        if els is None:
            self.emit(self.kw("end"))
        elif isinstance(els, tuple) and els[0] == "if":
            self.ifstmt(els, "elseif")
        else:
            self.emit("} else {" if self.lang == "wa" else WZ_KW["else"] + ":")
            self.body(els)
            self.emit(self.kw("end"))

    # ---------------------------------------------------------------- declarations
    def decl(self, d):
        k = d[0]
        if k == "import":
            s = self.kwsp("import") + '"%s"' % d[1]
            if d[2]:
                s += " => " + d[2]
            self.emit(s)
        elif k == "const":
            self.stmt(d)
        elif k == "constgroup":
            self.emit("const (" if self.lang == "wa" else WZ_KW["const"] + ":")
            self.ind += 1
            for n, e in d[1]:
                self.emit(n + (" = " + self.expr(e) if e is not None else ""))
            self.ind -= 1
            self.emit(")" if self.lang == "wa" else WZ_KW["end"])
        elif k == "global":
            _, n, t, e = d
            s = self.kwsp("global") + n
            if t is not None:
                s += ": " + self.typ(t)
            if e is not None:
                s += " = " + self.expr(e)
            self.emit(s)
        elif k == "struct":
            if self.lang == "wa":
                self.emit("type %s :struct {" % d[1])
            else:
                self.emit(self.kwsp("struct") + d[1] + ":")
            self.ind += 1
            for f, t in d[2]:
                self.emit("%s: %s" % (f, self.typ(t)))
            self.ind -= 1
            self.emit(self.kw("end"))
        elif k == "iface":
            if self.lang == "wa":
                self.emit("type %s :interface {" % d[1])
            else:
                self.emit(self.kwsp("interface") + d[1] + ":")
            self.ind += 1
            for m, ps, rs in d[2]:
                self.emit(m + self.sig(ps, rs))
            self.ind -= 1
            self.emit(self.kw("end"))
        elif k == "func":
            _, recv, name, ps, rs, b = d
            nm = self.pre(name) if name in ("main", "init") and recv is None else name
            h = self.kwsp("func") + (recv + self.dot() if recv else "") + nm
            if ps or rs or recv or sum(map(ord, name)) % 2 == 0 or b is None:
                h += self.sig(ps, rs)
            if b is None:
                self.emit(h)
                return
            self.emit(h + self.open_())
            self.body(b)
            self.emit(self.kw("end"))
        else:
            raise ValueError(d)

    def program(self, decls):
        self.lines = []
        for i, d in enumerate(decls):
            if i and not (d[0] == "import" and decls[i - 1][0] == "import"):
                self.emit("")
            self.decl(d)
        return "\n".join(self.lines) + "\n"


def render(decls, lang, rng=None, variety=0.0, redundant=0.0):
    return Render(lang, rng, variety, redundant).program(decls)


# =====================================================================================================
# generator
# =====================================================================================================
T = lambda n: ("t", n)
INT, I32, U8, I64, F64, STR, BOOL = T("int"), T("i32"), T("u8"), T("i64"), T("f64"), T("string"), T("bool")
SLICE_INT = ("slice", INT)
MAP_SI = ("map", STR, INT)
lit = lambda v: ("lit", str(v))
ident = lambda n: ("id", n)
pre = lambda n: ("pre", n)
call = lambda f, *a: ("call", f, list(a))
println = lambda *a: ("expr", call(pre("println"), *a))


def strlit(s):
    return ("lit", '"' + s + '"')


class Gen:
    def __init__(self, rng, size=3):
        self.rng = rng
        self.size = size
        self.n = 0
        self.features = set()
        self.structs = []      # (name, fields)
        self.funcs = []        # (name, params types, result type)
        self.globals = []
        self.consts = []
        self.readonly = set()
        self.need_apply = False
        self.need_mk = False

    def fresh(self, p="v"):
        self.n += 1
        return "%s%d" % (p, self.n)

    def feat(self, f):
        self.features.add(f)

    # ---- expressions by type; env: list of (name, type)
    def vars_of(self, env, t):
        return [n for n, tt in env if tt == t]

    def e_int(self, env, d=0):
        r = self.rng
        c = r.random()
        vs = self.vars_of(env, INT)
        if d >= 3 or c < 0.2:
            if vs and r.random() < 0.6:
                return ident(r.choice(vs))
            return lit(r.choice([0, 1, 2, 3, 5, 7, 10, 100, 255, 1000]))
        if c < 0.5:
            op = r.choice(["+", "-", "*", "&", "|", "^"])
            if op == "*":
                return ("bin", op, self.e_int(env, d + 1), lit(r.choice([2, 3, 7, 10])))
            return ("bin", op, self.e_int(env, d + 1), self.e_int(env, d + 1))
        if c < 0.58:
            self.feat("div")
            return ("bin", r.choice(["/", "%"]), self.e_int(env, d + 1), lit(r.choice([1, 2, 3, 7, 10])))
        if c < 0.64:
            self.feat("shift")
            return ("bin", r.choice(["<<", ">>"]), self.e_int(env, d + 1), lit(r.choice([0, 1, 3, 7])))
        if c < 0.68:
            self.feat("unary-chain")
            k = r.random()
            x = self.e_int(env, d + 2)
            if k < 0.2:
                return ("un", "-", x)
            if k < 0.4:
                op = r.choice(["-", "+", "^"])
                return ("un", op, ("un", op, x))
            if k < 0.5:
                return ("un", "-", ("un", "-", ("un", "-", x)))
            if k < 0.6:
                return ("un", r.choice(["-", "+", "^"]), ("un", r.choice(["-", "+", "^"]), x))
            op, uop = r.choice([("-", "-"), ("+", "+"), ("&", "^"), ("-", "+"), ("*", "-"), ("|", "^"), ("&^", "-"), ("-", "^")])
            if k < 0.8:
                return ("bin", op, self.e_int(env, d + 2), ("un", uop, x))
            return ("bin", op, self.e_int(env, d + 2), ("un", uop, ("un", uop, x)))
        if c < 0.72:
            return ("paren", self.e_int(env, d + 1))
        if c < 0.78 and self.funcs:
            f = r.choice(self.funcs)
            if f[2] == INT:
                self.feat("call")
                return call(ident(f[0]), *[self.e_of(env, t, d + 1) for t in f[1]])
        if c < 0.83:
            ss = self.vars_of(env, SLICE_INT) + self.vars_of(env, STR) + self.vars_of(env, MAP_SI)
            if ss:
                self.feat("len")
                return call(pre("len"), ident(r.choice(ss)))
        if c < 0.88:
            ms = self.vars_of(env, MAP_SI)
            if ms:
                self.feat("map-index")
                return ("idx", ident(r.choice(ms)), strlit(r.choice(["a", "b", "zz"])))
        if c < 0.94:
            for n, tt in env:
                if tt[0] == "named" or (tt[0] == "ptr" and tt[1][0] == "named"):
                    st = tt[1] if tt[0] == "named" else tt[1][1]
                    fs = [f for s in self.structs if s[0] == st for f in s[1] if f[1] == INT]
                    if fs:
                        self.feat("field")
                        if r.random() < 0.4:
                            self.feat("method-call")
                            return call(("sel", ident(n), "sum"), self.e_int(env, d + 1))
                        return ("sel", ident(n), r.choice(fs)[0])
        if c < 0.97:
            v8 = self.vars_of(env, U8) + self.vars_of(env, I32)
            if v8:
                self.feat("conv")
                return ("conv", INT, ident(r.choice(v8)))
        return lit(r.randrange(0, 50))

    def e_small(self, env, t, d=0):
        r = self.rng
        vs = self.vars_of(env, t)
        c = r.random()
        if d >= 2 or c < 0.3:
            if vs and r.random() < 0.6:
                return ident(r.choice(vs))
            self.feat("conv")
            return ("conv", t, lit(r.choice([0, 1, 7, 200, 255] if t == U8 else [0, 1, 7, 70000, 2147483647])))
        if c < 0.8:
            # (no `-` / `+` on u8: constant operands would overflow at compile time in most cases)
            return ("bin", r.choice(["&", "|", "^"] if t == U8 else ["+", "-", "&", "|", "^"]), self.e_small(env, t, d + 1), self.e_small(env, t, d + 1))
        self.feat("conv")
        return ("conv", t, ("bin", "&", self.e_int(env, d + 1), lit(127)))

    def e_f64(self, env, d=0):
        r = self.rng
        vs = self.vars_of(env, F64)
        c = r.random()
        if d >= 2 or c < 0.35:
            if vs and r.random() < 0.6:
                return ident(r.choice(vs))
            return lit(r.choice(["0.5", "1.5", "2.25", "10.0", "3.0"]))
        if c < 0.75:
            return ("bin", r.choice(["+", "-", "*"]), self.e_f64(env, d + 1), self.e_f64(env, d + 1))
        if c < 0.85:
            return ("bin", "/", self.e_f64(env, d + 1), lit(r.choice(["2.0", "4.0"])))
        self.feat("conv")
        return ("conv", F64, ("bin", "%", self.e_int(env, d + 1), lit(1000)))

    def e_str(self, env, d=0):
        r = self.rng
        vs = self.vars_of(env, STR)
        c = r.random()
        if d >= 2 or c < 0.4:
            if vs and r.random() < 0.6:
                return ident(r.choice(vs))
            return strlit(r.choice(["a", "bc", "hello", "x y", "wa", "", "q\\n", "tab\\t"]))
        if c < 0.85:
            self.feat("concat")
            return ("bin", "+", self.e_str(env, d + 1), self.e_str(env, d + 1))
        self.feat("str-slice")
        return ("slice", strlit("abcdefgh"), lit(r.choice([0, 1, 2])), lit(r.choice([3, 5, 8])))

    def e_bool(self, env, d=0):
        r = self.rng
        c = r.random()
        vs = self.vars_of(env, BOOL)
        if d >= 2 or c < 0.15:
            if vs and r.random() < 0.6:
                return ident(r.choice(vs))
            return pre(r.choice(["true", "false"]))
        if c < 0.6:
            return ("bin", r.choice(["==", "!=", "<", "<=", ">", ">="]), self.e_int(env, d + 1), self.e_int(env, d + 1))
        if c < 0.7:
            return ("bin", r.choice(["==", "!="]), self.e_str(env, d + 1), self.e_str(env, d + 1))
        if c < 0.85:
            return ("bin", r.choice(["&&", "||"]), self.e_bool(env, d + 1), self.e_bool(env, d + 1))
        k = r.random()
        if k < 0.3:
            self.feat("unary-chain")
            return ("un", "!", ("un", "!", ident(r.choice(vs)) if vs else pre("true")))
        if k < 0.5:
            self.feat("unary-chain")
            return ("bin", r.choice(["<", ">", "<=", "=="]), self.e_int(env, d + 1), ("un", "-", self.e_int(env, 3)))
        return ("un", "!", ("paren", self.e_bool(env, d + 1)))

    def e_of(self, env, t, d=0):
        if t == INT:
            return self.e_int(env, d)
        if t in (U8, I32, I64):
            return self.e_small(env, t, d)
        if t == F64:
            return self.e_f64(env, d)
        if t == STR:
            return self.e_str(env, d)
        if t == BOOL:
            return self.e_bool(env, d)
        if t == SLICE_INT:
            self.feat("slice-lit")
            return ("comp", SLICE_INT, [self.e_int(env, d + 2) for _ in range(self.rng.randrange(1, 4))])
        if t == MAP_SI:
            self.feat("map-lit")
            return ("comp", MAP_SI, [("kv", strlit(k), self.e_int(env, d + 2)) for k in ["a", "b"]])
        if t[0] == "named":
            st = [s for s in self.structs if s[0] == t[1]][0]
            self.feat("struct-lit")
            return ("comp", t, [("kv", ident(f), self.e_of(env, ft, d + 2)) for f, ft in st[1]])
        raise ValueError(t)

    # ---- statements
    def printable(self, env_new):
        return [ident(n) for n, t in env_new if t in (INT, U8, I32, I64, F64, STR)]

    def use_all(self, env_new):
        """every variable declared in a block must be used: print the printable ones, `_ =` the rest"""
        out = []
        p = self.printable(env_new)
        if p:
            out.append(println(*p))
        for n, t in env_new:
            if t not in (INT, U8, I32, I64, F64, STR):
                if t == BOOL:
                    out.append(("if", None, ident(n), [println(strlit(n))], None))
                elif t == SLICE_INT or t == MAP_SI:
                    out.append(println(call(pre("len"), ident(n))))
                else:
                    out.append(("assign", [ident("_")], "=", [ident(n)]))
        return out

    def block(self, env, depth, n, in_loop=False, ret=None):
        """n statements in a fresh scope; returns list of stmts"""
        env = list(env)
        base = len(env)
        out = []
        for _ in range(n):
            out.extend(self.stmt(env, depth, in_loop, ret))
        out.extend(self.use_all(env[base:]))
        return out

    def stmt(self, env, depth, in_loop, ret):
        r = self.rng
        c = r.random()
        if c < 0.22 or depth >= 3:
            t = r.choice([INT, INT, INT, STR, F64, U8, I32, BOOL, SLICE_INT, MAP_SI] +
                         [("named", s[0]) for s in self.structs])
            n = self.fresh()
            e = self.e_of(env, t)
            form = r.random()
            env.append((n, t))
            self.feat("var-typed" if form < 0.5 else "var-short")
            if form < 0.5 or t in (U8, I32, I64):
                return [("var", n, t, e)]
            if t == INT and e[0] == "lit" or t == STR or t == F64 or t == BOOL or t[0] in ("slice", "map", "named"):
                return [("var", n, None, e)]
            return [("var", n, t, e)]
        if c < 0.34:
            cands = [(n, t) for n, t in env if t in (INT, STR, F64, U8, I32) and n not in self.readonly
                     and not n[0] in "KCp"]
            if cands:
                n, t = r.choice(cands)
                if t == INT and r.random() < 0.3:
                    self.feat("incdec")
                    return [("incdec", ident(n), r.choice(["++", "--"]))]
                if t in (INT, U8, I32) and r.random() < 0.4:
                    self.feat("op-assign")
                    return [("assign", [ident(n)], r.choice(["+=", "-=", "*=", "|=", "&=", "^="]), [self.e_of(env, t, 1)])]
                if t == STR and r.random() < 0.4:
                    self.feat("op-assign")
                    return [("assign", [ident(n)], "+=", [self.e_str(env, 1)])]
                return [("assign", [ident(n)], "=", [self.e_of(env, t)])]
        if c < 0.42:
            self.feat("println")
            k = r.randrange(1, 4)
            return [println(*[self.e_of(env, r.choice([INT, INT, STR, F64, U8, I32])) for _ in range(k)])]
        if c < 0.54:
            self.feat("if")
            s = ("if", None, self.e_bool(env), self.block(env, depth + 1, r.randrange(1, 3), in_loop, ret), None)
            if r.random() < 0.5:
                self.feat("else")
                els = self.block(env, depth + 1, r.randrange(1, 3), in_loop, ret)
                if r.random() < 0.4:
                    self.feat("else-if")
                    els = ("if", None, self.e_bool(env), self.block(env, depth + 1, 1, in_loop, ret), els)
                s = s[:4] + (els,)
            if r.random() < 0.2:
                self.feat("if-init")
                n = self.fresh()
                s = ("if", ("define", [n], [self.e_int(env)]),
                     ("bin", r.choice(["<", ">", "=="]), ident(n), self.e_int(env, 2)),
                     [println(ident(n))] + s[3], s[4])
            return [s]
        if c < 0.66:
            k = r.random()
            i = self.fresh("ix")
            self.readonly.add(i)
            bound = r.randrange(1, 5)
            inner_env = env + [(i, INT)]
            body = self.block(inner_env, depth + 1, r.randrange(1, 3), True, ret)
            cont_ok = k < 0.6 or (k < 0.8 and self.vars_of(env, SLICE_INT))     # not in the `for cond` form: `continue` would skip i++
            if r.random() < 0.3:
                self.feat("break-continue")
                body = [("if", None, ("bin", "==", ident(i), lit(r.randrange(0, 3))),
                         [(r.choice(["break", "continue"]) if cont_ok else "break",)], None)] + body
            if k < 0.4:
                self.feat("for3")
                return [("for3", ("define", [i], [lit(0)]), ("bin", "<", ident(i), lit(bound)), ("incdec", ident(i), "++"), body)]
            if k < 0.6:
                self.feat("for-range-int")
                return [("range", i, None, lit(bound), body + [println(ident(i))])]
            if k < 0.8:
                ss = self.vars_of(env, SLICE_INT)
                if ss:
                    self.feat("for-range-slice")
                    v = self.fresh("e")
                    self.readonly.add(v)
                    body2 = self.block(env + [(i, INT), (v, INT)], depth + 1, 1, True, ret)
                    return [("range", i, v, ident(r.choice(ss)), [println(ident(i), ident(v))] + body2)]
            self.feat("for-cond")
            return [("var", i, INT, lit(0)),
                    ("forc", ("bin", "<", ident(i), lit(bound)), body + [("incdec", ident(i), "++")]),
                    println(ident(i))]
        if c < 0.74:
            self.feat("switch")
            cl = []
            used = set()
            for _ in range(r.randrange(1, 4)):
                vals = []
                for _ in range(r.randrange(1, 3)):
                    v = r.randrange(0, 12)
                    if v not in used:
                        used.add(v)
                        vals.append(lit(v))
                if vals:
                    cl.append((vals, self.block(env, depth + 1, 1, in_loop, ret)))
            if r.random() < 0.6:
                self.feat("switch-default")
                cl.append((None, self.block(env, depth + 1, 1, in_loop, ret)))
            if not cl:
                cl = [(None, [println(strlit("d"))])]
            if r.random() < 0.25:
                self.feat("switch-notag")
                cl2 = [([self.e_bool(env, 1)], b) if v is not None else (None, b) for v, b in cl]
                return [("switch", None, None, cl2)]
            return [("switch", None, ("bin", "%", self.e_int(env, 1), lit(12)), cl)]
        if c < 0.79:
            ss = self.vars_of(env, SLICE_INT)
            if ss:
                s = r.choice(ss)
                self.feat("append")
                return [("assign", [ident(s)], "=", [call(pre("append"), ident(s), self.e_int(env, 1))]),
                        println(call(pre("len"), ident(s)), ("idx", ident(s), lit(0)))]
        if c < 0.84:
            ms = self.vars_of(env, MAP_SI)
            if ms:
                m = r.choice(ms)
                k = r.random()
                if k < 0.4:
                    self.feat("map-assign")
                    return [("assign", [("idx", ident(m), strlit(r.choice(["a", "k", "zz"])))], "=", [self.e_int(env, 1)])]
                if k < 0.7:
                    self.feat("delete")
                    return [("expr", call(pre("delete"), ident(m), strlit(r.choice(["a", "b", "k"]))))]
                self.feat("comma-ok")
                v, ok = self.fresh(), self.fresh("ok")
                return [("define", [v, ok], [("idx", ident(m), strlit(r.choice(["a", "k"])))]),
                        ("if", None, ident(ok), [println(strlit("has"), ident(v))], [println(strlit("no"), ident(v))])]
        if c < 0.86:
            for n, t in env:
                if t[0] == "named":
                    self.feat("method-call")
                    return [("expr", call(("sel", ident(n), "bump"), self.e_int(env, 1))),
                            println(call(("sel", ident(n), "sum"), lit(1)))]
        if c < 0.88:
            self.feat("block")
            return [("block", self.block(env, depth + 1, r.randrange(1, 3), in_loop, ret))]
        if c < 0.90 and not in_loop:
            self.feat("defer")
            return [("defer", call(pre("println"), strlit("deferred"), self.e_int([], 2)))]
        if c < 0.98:
            return self.closure_stmt(env, depth, in_loop)
        self.feat("println")
        return [println(self.e_int(env), self.e_str(env))]

    def closure_stmt(self, env, depth, in_loop):
        """a function literal in one of the expression contexts (:=, call argument, defer, immediately
        invoked, returned by a helper), with a body made of ordinary statements: plain `=` and compound
        assignments to captured variables, if/for/switch, nested closures"""
        r = self.rng
        acc = self.fresh("acc")
        a = self.fresh("a")
        self.readonly.add(a)
        inner_env = env + [(acc, INT), (a, INT)]
        body = [("assign", [ident(acc)], "=", [("bin", "+", ident(acc), ident(a))])]
        body += self.block(inner_env, depth + 1, r.randrange(1, 3), False, None)
        if r.random() < 0.5:
            body.append(("assign", [ident(acc)], r.choice(["+=", "-=", "^=", "|="]), [self.e_int(inner_env, 2)]))
        if r.random() < 0.3:
            body.append(("if", None, ("bin", ">", ident(acc), lit(5)), [("assign", [ident(acc)], "=", [lit(1)])], None))
        lit_int = ("funclit", [(a, INT)], [INT], body + [("return", [("bin", "+", ident(acc), ident(a))])])
        lit_void = ("funclit", [], [], [("assign", [ident(acc)], "=", [("bin", "*", ident(acc), lit(2))])] +
                    self.block(env + [(acc, INT)], depth + 1, 1, False, None) + [println(strlit("in closure"), ident(acc))])
        out = [("var", acc, INT, self.e_int(env, 2))]
        k = r.random()
        if k < 0.25:
            self.feat("closure")
            f = self.fresh("fn")
            out += [("var", f, None, lit_int), println(call(ident(f), self.e_int(env, 2)), call(ident(f), lit(1)))]
        elif k < 0.45:
            self.feat("closure-argument")
            self.need_apply = True
            out += [println(call(ident("apply"), lit_int, self.e_int(env, 2)))]
        elif k < 0.6 and not in_loop:
            self.feat("closure-deferred")
            out += [("defer", call(lit_void))]
        elif k < 0.75:
            self.feat("closure-invoked")
            out += [println(call(lit_int, self.e_int(env, 2)))]
        elif k < 0.9:
            self.feat("closure-returned")
            self.need_mk = True
            g = self.fresh("g")
            out += [("var", g, None, call(ident("mk"), self.e_int(env, 2))), println(call(ident(g), lit(1)), call(ident(g), lit(2)))]
        else:
            self.feat("closure-void-call")
            f = self.fresh("fn")
            out += [("var", f, None, lit_void), ("expr", call(ident(f))), ("expr", call(ident(f)))]
        out.append(println(ident(acc)))
        return out

    # ---- program
    def program(self):
        r = self.rng
        decls = []
        if r.random() < 0.5:
            self.feat("const")
            decls.append(("const", "K0", None, lit(r.randrange(1, 50))))
            self.consts.append(("K0", INT))
        if r.random() < 0.4:
            self.feat("const-group-iota")
            decls.append(("constgroup", [("C0", pre("iota")), ("C1", None), ("C2", None)]))
            self.consts += [("C0", INT), ("C1", INT), ("C2", INT)]
        genv = list(self.consts)
        if r.random() < 0.5:
            self.feat("global")
            decls.append(("global", "g0", INT, lit(r.randrange(0, 9))))
            genv.append(("g0", INT))
        if r.random() < 0.3:
            self.feat("global")
            decls.append(("global", "gs", STR, strlit("g")))
            genv.append(("gs", STR))
        nstruct = r.choice([0, 1, 1, 2])
        for i in range(nstruct):
            name = "S%d" % i
            fields = [("a", INT), ("b", r.choice([INT, STR, F64]))]
            self.structs.append((name, fields))
            self.feat("struct")
            decls.append(("struct", name, fields))
            self.feat("method")
            decls.append(("func", name, "sum", [("k", INT)], [INT],
                          [("return", [("bin", "+", ("sel", pre("this"), "a"), ident("k"))])]))
            decls.append(("func", name, "bump", [("d", INT)], [],
                          [("assign", [("sel", pre("this"), "a")], "+=", [ident("d")])]))
        if nstruct and r.random() < 0.6:
            self.feat("interface")
            decls.append(("iface", "Summer", [("sum", [("k", INT)], [INT])]))
        for i in range(r.choice([0, 1, 2])):
            name = "f%d" % i
            pts = [r.choice([INT, INT, STR, F64]) for _ in range(r.randrange(0, 3))]
            ps = [("p%d" % j, t) for j, t in enumerate(pts)]
            self.feat("func")
            body = self.block(genv + ps, 1, r.randrange(1, 3), False, INT)
            body.append(("return", [self.e_int(genv + ps, 1)]))
            decls.append(("func", None, name, ps, [INT], body))
            self.funcs.append((name, pts, INT))
        if r.random() < 0.4:
            self.feat("multi-result")
            decls.append(("func", None, "dm", [("a", INT), ("b", INT)], [INT, INT],
                          [("return", [("bin", "/", ident("a"), ident("b")), ("bin", "%", ident("a"), ident("b"))])]))
        if r.random() < 0.3:
            self.feat("recursion")
            decls.append(("func", None, "fib", [("n", INT)], [INT],
                          [("if", None, ("bin", "<", ident("n"), lit(2)), [("return", [ident("n")])], None),
                           ("return", [("bin", "+", call(ident("fib"), ("bin", "-", ident("n"), lit(1))),
                                        call(ident("fib"), ("bin", "-", ident("n"), lit(2))))])]))
        main = []
        env = list(genv)
        if "multi-result" in self.features:
            main += [("define", ["q", "rr"], [call(ident("dm"), lit(r.randrange(10, 99)), lit(r.randrange(1, 9)))]),
                     println(ident("q"), ident("rr"))]
        if "recursion" in self.features:
            main.append(println(call(ident("fib"), lit(r.randrange(5, 15)))))
        if "interface" in self.features:
            main += [("var", "s_i", ("named", "S0"), self.e_of(env, ("named", "S0"))),
                     ("var", "sm", ("named", "Summer"), ("un", "&", ident("s_i"))),
                     println(call(("sel", ident("sm"), "sum"), lit(3)))]
            if r.random() < 0.5:
                self.feat("type-switch")
                main += [("var", "an", T("any"), r.choice([lit(5), strlit("s"), ("un", "&", ident("s_i"))])),
                         ("tswitch", "tv", ident("an"),
                          [([INT], [println(strlit("int"), ident("tv"))]),
                           ([STR], [println(strlit("string"), ident("tv"))]),
                           ([("ptr", ("named", "S0"))], [println(strlit("S0"), ("sel", ident("tv"), "a"))])])]
        main += self.block(env, 0, 3 + 2 * self.size, False, None)
        if self.need_apply:
            decls.append(("func", None, "apply", [("f", ("func", [("a", INT)], [INT])), ("v", INT)], [INT],
                          [("return", [call(ident("f"), ident("v"))])]))
        if self.need_mk:
            decls.append(("func", None, "mk", [("k", INT)], [("func", [("a", INT)], [INT])],
                          [("var", "cnt", INT, ident("k")),
                           ("return", [("funclit", [("a", INT)], [INT],
                                        [("assign", [ident("cnt")], "=", [("bin", "+", ident("cnt"), ident("a"))]),
                                         ("if", None, ("bin", ">", ident("cnt"), lit(100)), [("assign", [ident("cnt")], "=", [lit(0)])], None),
                                         ("return", [ident("cnt")])])])]))
        decls.append(("func", None, "main", [], [], main))
        return decls


# =====================================================================================================
# every builtin x every argument kind it accepts (deterministic; rendered in both syntaxes by the checks)
# =====================================================================================================
ARR4 = ("arr", 4, INT)
PARR4 = ("ptr", ARR4)
BYTES = ("slice", T("byte"))
C128 = T("complex128")


def _fn(name, res, body):
    return ("func", None, name, [], [res], body)


def builtin_matrix():
    """list of (key, decls): one small program per builtin; every argument kind: variable / call result /
    constant / composite literal of array, pointer to array, slice, string, map, and so on"""
    arr_lit = ("comp", ARR4, [lit(1), lit(2), lit(3), lit(4)])
    helpers = [
        _fn("getArr", ARR4, [("return", [arr_lit])]),
        _fn("getPtr", PARR4, [("var", "pa", None, arr_lit), ("return", [("un", "&", ident("pa"))])]),
        _fn("nilPtr", PARR4, [("var", "np", PARR4, None), ("return", [ident("np")])]),
        _fn("getSlice", SLICE_INT, [("return", [("comp", SLICE_INT, [lit(5), lit(6), lit(7)])])]),
        _fn("getStr", STR, [("return", [strlit("héllo")])]),
        _fn("getMap", MAP_SI, [("return", [("comp", MAP_SI, [("kv", strlit("a"), lit(1)), ("kv", strlit("b"), lit(2))])])]),
        _fn("getF", F64, [("return", [lit("1.5")])]),
        _fn("getN", INT, [("return", [lit(3)])]),
        _fn("getC", C128, [("return", [call(pre("complex"), lit("1.5"), lit("2.5"))])]),
        ("const", "KS", None, strlit("const")),
    ]
    loc = [("var", "arr", ARR4, arr_lit), ("var", "parr", None, ("un", "&", ident("arr"))),
           ("var", "sl", None, ("comp", SLICE_INT, [lit(1), lit(2)])), ("var", "st", None, strlit("abc")),
           ("var", "mp", None, ("comp", MAP_SI, [("kv", strlit("k"), lit(9))])), ("var", "nilsl", SLICE_INT, None)]
    use = [("assign", [ident("_")] * 6, "=", [ident(n) for n in ("arr", "parr", "sl", "st", "mp", "nilsl")])]

    def prog(body):
        return helpers + [("func", None, "main", [], [], loc + use + body)]
    ln = lambda x: call(pre("len"), x)
    cp = lambda x: call(pre("cap"), x)
    c0 = lambda n: call(ident(n))
    out = []
    out.append(("builtin:len", prog([
        println(ln(ident("arr")), ln(c0("getArr")), ln(ident("parr")), ln(c0("getPtr")), ln(c0("nilPtr")), ln(arr_lit)),
        println(ln(ident("sl")), ln(c0("getSlice")), ln(ident("nilsl")), ln(("slice", ident("sl"), lit(1), None)), ln(("slice", ident("arr"), None, lit(2)))),
        println(ln(ident("st")), ln(c0("getStr")), ln(strlit("lit")), ln(ident("KS")), ln(("bin", "+", ident("st"), c0("getStr"))), ln(("slice", c0("getStr"), lit(1), None))),
        println(ln(ident("mp")), ln(c0("getMap")), ln(("comp", MAP_SI, []))),
        ("const", "KL", None, ln(ident("KS"))), println(ident("KL"), ("bin", "+", ln(ident("arr")), ln(ident("parr")))),
    ])))
    out.append(("builtin:cap", prog([
        println(cp(ident("arr")), cp(c0("getArr")), cp(ident("parr")), cp(c0("getPtr")), cp(c0("nilPtr")), cp(arr_lit)),
        println(cp(ident("sl")), cp(c0("getSlice")), cp(ident("nilsl")), cp(("slice", ident("arr"), lit(1), lit(3))),
                cp(call(pre("make"), ("type", SLICE_INT), lit(2), lit(9))), cp(call(pre("make"), ("type", SLICE_INT), c0("getN"), ("bin", "+", c0("getN"), lit(4))))),
        ("const", "KC", None, cp(ident("arr"))), println(ident("KC"), ("bin", "*", cp(c0("getPtr")), lit(2))),
    ])))
    out.append(("builtin:append", prog([
        ("assign", [ident("sl")], "=", [call(pre("append"), ident("sl"), lit(3))]),
        ("assign", [ident("sl")], "=", [call(pre("append"), ident("sl"), lit(4), c0("getN"), ln(ident("st")))]),
        ("assign", [ident("sl")], "=", [("callv", pre("append"), [ident("sl"), c0("getSlice")])]),
        ("assign", [ident("nilsl")], "=", [call(pre("append"), ident("nilsl"), lit(1))]),
        ("var", "t2", None, ("callv", pre("append"), [c0("getSlice"), ("slice", ident("arr"), lit(1), lit(3))])),
        ("var", "bs", None, call(pre("append"), ("conv", BYTES, strlit("ab")), lit(99))),
        println(ln(ident("sl")), ("idx", ident("sl"), lit(6)), ln(ident("nilsl")), ln(ident("t2")), ("idx", ident("t2"), lit(4)), ("conv", STR, ident("bs"))),
        ("range", "ai", "av", call(pre("append"), ("comp", SLICE_INT, []), lit(8), lit(9)), [println(ident("ai"), ident("av"))]),
    ])))
    out.append(("builtin:copy", prog([
        ("var", "dst", None, call(pre("make"), ("type", SLICE_INT), lit(3))),
        ("var", "n1", None, call(pre("copy"), ident("dst"), ident("sl"))),
        ("var", "n2", None, call(pre("copy"), ("slice", ident("dst"), lit(1), None), c0("getSlice"))),
        ("var", "n3", None, call(pre("copy"), ("slice", ident("arr"), None, None), c0("getSlice"))),
        ("var", "bs", None, call(pre("make"), ("type", BYTES), lit(4))),
        ("var", "n4", None, call(pre("copy"), ident("bs"), c0("getStr"))),
        ("expr", call(pre("copy"), ident("dst"), ident("nilsl"))),
        println(ident("n1"), ident("n2"), ident("n3"), ident("n4"), ("idx", ident("dst"), lit(0)), ("idx", ident("dst"), lit(2)),
                ("idx", ident("arr"), lit(0)), ("idx", ident("bs"), lit(0))),
    ])))
    out.append(("builtin:delete", prog([
        ("var", "m2", None, c0("getMap")),
        ("expr", call(pre("delete"), ident("mp"), strlit("k"))), ("expr", call(pre("delete"), ident("mp"), strlit("absent"))),
        ("expr", call(pre("delete"), ident("m2"), c0("getStr"))), ("expr", call(pre("delete"), ident("m2"), ("bin", "+", strlit(""), strlit("a")))),
        ("expr", call(pre("delete"), c0("getMap"), ident("KS"))),
        println(ln(ident("mp")), ln(ident("m2")), ("idx", ident("m2"), strlit("b"))),
    ])))
    out.append(("builtin:new-make", prog([
        ("var", "pi", None, call(pre("new"), ("type", INT))), ("assign", [("un", "*", ident("pi"))], "=", [c0("getN")]),
        ("var", "ps", None, call(pre("new"), ("type", STR))), ("var", "pa2", None, call(pre("new"), ("type", ARR4))),
        ("assign", [("idx", ident("pa2"), lit(1))], "=", [lit(7)]),
        ("var", "pm", None, call(pre("new"), ("type", SLICE_INT))),
        ("var", "m1", None, call(pre("make"), ("type", MAP_SI))), ("assign", [("idx", ident("m1"), c0("getStr"))], "=", [lit(1)]),
        ("var", "s1", None, call(pre("make"), ("type", SLICE_INT), c0("getN"))),
        ("var", "s2", None, call(pre("make"), ("type", SLICE_INT), lit(0), ln(ident("arr")))),
        ("var", "s3", None, call(pre("make"), ("type", BYTES), ln(c0("getStr")))),
        ("var", "s4", None, call(pre("make"), ("type", ("slice", STR)), lit(2), lit(2))),
        println(("un", "*", ident("pi")), ln(("un", "*", ident("ps"))), ("idx", ident("pa2"), lit(1)), ln(ident("pa2")), cp(ident("pa2")), ln(("un", "*", ident("pm")))),
        println(ln(ident("m1")), ln(ident("s1")), cp(ident("s1")), ln(ident("s2")), cp(ident("s2")), ln(ident("s3")), ln(ident("s4")), ln(("idx", ident("s4"), lit(1)))),
    ])))
    out.append(("builtin:print-println", prog([
        ("expr", call(pre("print"), lit(1), strlit("a"), lit("2.5"), c0("getN"), c0("getStr"))), ("expr", call(pre("print"))),
        ("expr", call(pre("print"), strlit("\\n"))),
        println(), println(ln(ident("arr")), c0("getF"), c0("getStr"), ("idx", ident("sl"), lit(0)), ("idx", ident("mp"), strlit("k")), lit("'x'"), ("conv", T("u8"), lit(7)), ("conv", T("i64"), lit(-9))),
        println(ident("KS")), ("expr", call(pre("print"), ident("st"), ident("st"))), println(),
    ])))
    out.append(("builtin:complex-real-imag", prog([
        ("var", "c1", None, call(pre("complex"), lit("1.5"), lit("2.5"))),
        ("var", "c2", None, call(pre("complex"), c0("getF"), ("bin", "*", c0("getF"), lit("2.0")))),
        ("var", "c3", None, ("bin", "+", ident("c1"), c0("getC"))),
        println(call(pre("real"), ident("c1")), call(pre("imag"), ident("c1")), call(pre("real"), ident("c2")), call(pre("imag"), ident("c2"))),
        println(call(pre("real"), c0("getC")), call(pre("imag"), c0("getC")), call(pre("real"), ident("c3")), call(pre("imag"), ("bin", "*", ident("c3"), ident("c2")))),
        ("const", "KR", None, call(pre("real"), call(pre("complex"), lit("3.0"), lit("4.0")))), println(ident("KR")),
    ])))
    for k, arg in (("const", strlit("boom")), ("call", c0("getStr")), ("concat", ("bin", "+", ident("st"), c0("getStr"))), ("named-const", ident("KS"))):
        out.append(("builtin:panic:" + k, prog([("defer", call(pre("println"), strlit("after"), ln(ident("arr")))), ("expr", call(pre("panic"), arg)), println(lit(0))])))
    return out


def gen_program(rng, size=3):
    g = Gen(rng, size)
    decls = g.program()
    return decls, sorted(g.features)


# ---- deliberately ill-typed / ill-formed variants: (key, mutate(decls) -> decls)
def _main_of(decls):
    for i, d in enumerate(decls):
        if d[0] == "func" and d[2] == "main" and d[1] is None:
            return i
    raise ValueError("no main")


def _with_main_prefix(decls, stmts):
    i = _main_of(decls)
    d = decls[i]
    return decls[:i] + [d[:5] + (list(stmts) + d[5],)] + decls[i + 1:]


ILL = [
    ("undeclared-name", lambda D: _with_main_prefix(D, [("assign", [ident("nosuch_zz")], "=", [lit(1)])])),
    ("assign-string-to-int", lambda D: _with_main_prefix(D, [("var", "bad1", INT, strlit("s")), println(ident("bad1"))])),
    ("unused-variable", lambda D: _with_main_prefix(D, [("var", "unused_zz", None, lit(1))])),
    ("mismatched-binary", lambda D: _with_main_prefix(D, [println(("bin", "+", strlit("a"), lit(1)))])),
    ("call-non-function", lambda D: _with_main_prefix(D, [("var", "nf", None, lit(3)), ("expr", call(ident("nf")))])),
    ("non-bool-condition", lambda D: _with_main_prefix(D, [("if", None, lit(1), [println(lit(1))], None)])),
    ("break-outside-loop", lambda D: _with_main_prefix(D, [("break",)])),
    ("no-new-variables", lambda D: _with_main_prefix(D, [("define", ["dd"], [lit(1)]), ("define", ["dd"], [lit(2)]), println(ident("dd"))])),
    ("too-many-return-values", lambda D: _with_main_prefix(D, [("return", [lit(1)])])),
    ("wrong-argument-count", lambda D: D[:-1] + [("func", None, "two_zz", [("a", INT), ("b", INT)], [INT], [("return", [ident("a")])])] +
     [_with_main_prefix(D, [println(call(ident("two_zz"), lit(1)))])[-1]]),
    ("missing-return", lambda D: D[:-1] + [("func", None, "noret_zz", [], [INT], [println(lit(1))])] + [D[-1]]),
    ("unknown-field", lambda D: D[:-1] + [("struct", "SZ", [("a", INT)])] +
     [_with_main_prefix(D, [("var", "sz", ("named", "SZ"), None), println(("sel", ident("sz"), "nofield"))])[-1]]),
    ("missing-method", lambda D: D[:-1] + [("iface", "IZ", [("mm", [], [INT])])] +
     [_with_main_prefix(D, [("var", "iz", ("named", "IZ"), lit(5)), ("assign", [ident("_")], "=", [ident("iz")])])[-1]]),
    ("duplicate-case", lambda D: _with_main_prefix(D, [("switch", None, lit(1), [([lit(1)], [println(lit(1))]), ([lit(1)], [println(lit(2))])])])),
    ("assign-to-constant", lambda D: [("const", "KZ", None, lit(1))] + _with_main_prefix(D, [("assign", [ident("KZ")], "=", [lit(2)])])),
    ("redeclared-function", lambda D: D[:-1] + [("func", None, "dup_zz", [], [], []), ("func", None, "dup_zz", [], [], [])] + [D[-1]]),
    ("overflowing-constant", lambda D: _with_main_prefix(D, [("var", "ov", U8, lit(300)), println(ident("ov"))])),
    ("invalid-indirect", lambda D: _with_main_prefix(D, [("var", "ni", None, lit(3)), println(("un", "*", ident("ni")))])),
    ("range-over-int-two-vars", lambda D: _with_main_prefix(D, [("range", "ra", "rb", lit(3), [println(ident("ra"), ident("rb"))])])),
    ("syntax-missing-operand", lambda D: _with_main_prefix(D, [("raw", "x_zz := 1 +", "x_zz := 1 +")])),
    ("syntax-unbalanced-paren", lambda D: _with_main_prefix(D, [("raw", "println((1)", "输出((1)")])),
]
