"""C14: enumerate the exported functions of Wa's standard-library ports (waroot/src/<pkg>/*.wa) and
intersect them with Go's API of the same package (extract/c14_goapi.go).

wa_api(repo)  -> {pkg: [ {name, recv, params:[types], pnames:[...], results:[types], variadic, file, line} ]}
go_api(pkgs)  -> same shape (cached per `go version` under .build; the extractor needs ~10 s)
Types on both sides are normalised to Go spelling with byte->uint8, rune->int32, interface{}->any.
"""
import hashlib, json, os, re, subprocess

PACKAGES = ["strconv", "strings", "bytes", "unicode/utf8", "unicode/utf16", "encoding/base64", "encoding/base32",
            "encoding/hex", "encoding/binary", "math/bits", "sort", "hash/crc32", "hash/adler32", "hash/fnv",
            "crypto/md5", "container/heap", "container/list", "container/ring"]

WA_PRIM = {"i8": "int8", "i16": "int16", "i32": "int32", "i64": "int64", "u8": "uint8", "u16": "uint16", "u32": "uint32",
           "u64": "uint64", "f32": "float32", "f64": "float64", "byte": "uint8", "rune": "int32", "c64": "complex64",
           "c128": "complex128"}


def split_top(s, sep=","):
    out, depth, cur = [], 0, ""
    for ch in s:
        if ch in "([{":
            depth += 1
        elif ch in ")]}":
            depth -= 1
        if ch == sep and depth == 0:
            out.append(cur)
            cur = ""
        else:
            cur += ch
    if cur.strip():
        out.append(cur)
    return [x.strip() for x in out]


def balanced(s, i):
    """s[i] == '(' -> index just past the matching ')'"""
    depth = 0
    for j in range(i, len(s)):
        if s[j] == "(":
            depth += 1
        elif s[j] == ")":
            depth -= 1
            if depth == 0:
                return j + 1
    return -1


def norm_type(t):
    """Wa or Go type text -> canonical Go spelling"""
    t = t.strip()
    if t.startswith("func"):
        rest = t[4:].strip()
        if not rest.startswith("("):
            return "func()"
        e = balanced(rest, 0)
        ps = parse_fields(rest[1:e - 1])
        res = rest[e:].strip()
        if res.startswith("=>"):
            res = res[2:].strip()
        rs = parse_fields(res[1:-1]) if res.startswith("(") else ([("", norm_type(res))] if res else [])
        r = ""
        if len(rs) == 1:
            r = " " + rs[0][1]
        elif rs:
            r = " (" + ", ".join(x[1] for x in rs) + ")"
        return "func(" + ", ".join(x[1] for x in ps) + ")" + r
    t = re.sub(r"interface\s*\{\s*\}", "any", t)
    t = re.sub(r"\b[A-Za-z_]\w*\b", lambda m: WA_PRIM.get(m.group(0), m.group(0)), t)
    return re.sub(r"\s+", "", t) if not t.startswith("map") else t


def parse_fields(s):
    """'a, b: T, c: U'  or  'a, b T, c U' or 'T, U' -> [(name, type)]"""
    parts = split_top(s)
    out, pending = [], []
    anynamed = any(re.match(r"^[A-Za-z_]\w*\s*:", p) or re.match(r"^[A-Za-z_]\w*\s+[^\s]", p) for p in parts)
    for p in parts:
        m = re.match(r"^([A-Za-z_]\w*)\s*:\s*(.+)$", p, re.S)
        if not m and anynamed:
            m = re.match(r"^([A-Za-z_]\w*)\s+([^\s].*)$", p, re.S)
        if m and m.group(1) not in ("func", "map", "chan", "interface", "struct"):
            ty = norm_type(m.group(2))
            for q in pending:
                out.append((q, ty))
            pending = []
            out.append((m.group(1), ty))
        elif anynamed and re.match(r"^[A-Za-z_]\w*$", p):
            pending.append(p)
        else:
            out.append(("", norm_type(p)))
    for q in pending:           # bare identifiers in an unnamed list are types
        out.append(("", norm_type(q)))
    return out


FUNC_RE = re.compile(r"^func\s+([A-Za-z_]\w*)(?:\.([A-Za-z_]\w*))?", re.M)


def parse_wa_file(path):
    src = open(path, encoding="utf-8", errors="replace").read()
    out = []
    for m in FUNC_RE.finditer(src):
        recv, name = (m.group(1), m.group(2)) if m.group(2) else ("", m.group(1))
        i = m.end()
        line_end = src.find("\n", i)
        # header extends to the opening brace at depth 0 (or end of line for bodiless decls)
        j, depth = i, 0
        while j < len(src):
            c = src[j]
            if c in "([":
                depth += 1
            elif c in ")]":
                depth -= 1
            elif c == "{" and depth == 0:
                # `interface{}` / `struct{}` inside the header are not the body
                k = src.find("}", j)
                if src[j - 9:j].strip().endswith("interface") or src[j - 6:j].strip().endswith("struct"):
                    j = k + 1
                    continue
                break
            elif c == "\n" and depth == 0:
                break
            j += 1
        hdr = src[i:j].strip()
        params, results = [], []
        if hdr.startswith("("):
            e = balanced(hdr, 0)
            params = parse_fields(hdr[1:e - 1])
            hdr = hdr[e:].strip()
        if hdr.startswith("=>"):
            r = hdr[2:].strip()
            results = parse_fields(r[1:balanced(r, 0) - 1]) if r.startswith("(") else [("", norm_type(r))]
        variadic = bool(params) and params[-1][1].startswith("...")
        ptypes = [p[1] for p in params]
        if variadic:
            ptypes[-1] = "[]" + ptypes[-1][3:]
        out.append({"name": name, "recv": recv, "params": ptypes, "pnames": [p[0] for p in params],
                    "results": [r[1] for r in results], "variadic": variadic,
                    "file": path, "line": src.count("\n", 0, m.start()) + 1})
    return out


def wa_api(repo, packages=PACKAGES):
    api = {}
    for pkg in packages:
        d = os.path.join(repo, "waroot", "src", pkg)
        fns = []
        if os.path.isdir(d):
            for f in sorted(os.listdir(d)):
                if f.endswith(".wa") and not f.endswith("_test.wa"):
                    fns += parse_wa_file(os.path.join(d, f))
        api[pkg] = fns
    return api


def go_norm(t, pkgname):
    t = re.sub(r"\b" + re.escape(pkgname) + r"\.", "", t)      # Wa sources name their own types unqualified
    t = re.sub(r"\b(\w+) (?=[\w\[\]\*\.]+[,)])", "", t)         # names inside func types: func(r rune) bool
    return norm_type(t)


def go_api(verif, packages=PACKAGES):
    ver = subprocess.run(["go", "version"], stdout=subprocess.PIPE, text=True).stdout.strip()
    ext = os.path.join(verif, "extract", "c14_goapi.go")
    key = hashlib.sha1((ver + "|".join(packages) + open(ext).read()).encode()).hexdigest()[:12]
    cache = os.path.join(verif, ".build", "c14_goapi.%s.json" % key)
    if not os.path.exists(cache):
        env = dict(os.environ, GOFLAGS="-mod=mod", GOPROXY="off", GOSUMDB="off", GOTOOLCHAIN="local", GO111MODULE="off")
        p = subprocess.run(["go", "run", ext] + packages, stdout=subprocess.PIPE, stderr=subprocess.PIPE, text=True, env=env, timeout=600)
        if p.returncode != 0:
            raise RuntimeError("c14_goapi failed: " + p.stderr[-2000:])
        os.makedirs(os.path.dirname(cache), exist_ok=True)
        with open(cache + ".%d" % os.getpid(), "w") as f:
            f.write(p.stdout)
        os.replace(cache + ".%d" % os.getpid(), cache)
    raw = json.load(open(cache))
    api = {}
    for pkg, fns in raw.items():
        pn = pkg.split("/")[-1]
        for f in fns:
            f["recv"] = f.get("recv", "")
            f["params"] = [go_norm(t, pn) for t in f["params"]]
            f["results"] = [go_norm(t, pn) for t in f["results"]]
        api[pkg] = fns
    return api


def intersect(wa, go):
    """-> list of dict(pkg, name, recv, go=<go entry>, wa=<wa entry>, same_sig=bool), plus go-only / wa-only names"""
    both, go_only, wa_only = [], [], []
    for pkg in go:
        w = {(f["recv"], f["name"]): f for f in wa.get(pkg, [])}
        g = {(f["recv"], f["name"]): f for f in go[pkg]}
        for k in sorted(g):
            if k in w:
                same = (g[k]["params"] == w[k]["params"] and g[k]["results"] == w[k]["results"])
                both.append({"pkg": pkg, "name": k[1], "recv": k[0], "go": g[k], "wa": w[k], "same_sig": same})
            else:
                go_only.append((pkg,) + k)
        for k in sorted(w):
            if k not in g and k[1][:1].isupper() and (not k[0] or k[0][:1].isupper()):
                wa_only.append((pkg,) + k)
    return both, go_only, wa_only


if __name__ == "__main__":
    import sys
    verif = os.path.dirname(os.path.dirname(os.path.abspath(__file__)))
    wa = wa_api(os.environ.get("VERIF_REPO", "/repo"))
    go = go_api(verif)
    both, go_only, wa_only = intersect(wa, go)
    for b in both:
        if not b["same_sig"]:
            print("SIGDIFF %s %s.%s go=%s->%s wa=%s->%s" % (b["pkg"], b["recv"], b["name"], b["go"]["params"], b["go"]["results"], b["wa"]["params"], b["wa"]["results"]))
    print("both=%d same=%d go_only=%d wa_only=%d" % (len(both), sum(b["same_sig"] for b in both), len(go_only), len(wa_only)))
    if "-v" in sys.argv:
        print("GO ONLY:", ["%s.%s%s" % (p.split("/")[-1], r + "." if r else "", n) for p, r, n in go_only])
        print("WA ONLY:", ["%s.%s%s" % (p.split("/")[-1], r + "." if r else "", n) for p, r, n in wa_only])
