"""C14: hand-written driver sections for the parts of the ported API that are reached through methods,
interfaces or closures (encodings, hashes, sort, containers, Builder/Buffer/Reader/Replacer, byte order)."""
import base64, struct
from gen.c14_drivers import Sec, texts, ints_of, runes, f64bits, U, rand_text, BigStr


def sec(key, pkg, kinds, stmts, toks, calls, casts=None, imports=(), pre=""):
    return Sec(key, pkg, kinds, stmts, toks, calls, imports=imports, pre=pre, casts=casts)


S = lambda e: (e, "s")
I = lambda e: ("int64(%s)" % e, "i")
Uu = lambda e: ("uint64(%s)" % e, "u")
B = lambda e: (e, "b")
E = lambda e: ("er(%s)" % e, "e")


def mutate(rng, s):
    """damage a valid encoding"""
    s = bytearray(s)
    k = rng.randrange(9)
    if k == 0 and s:
        s[rng.randrange(len(s))] = rng.choice(b"!*-_+/= \n\r\xff.")
    elif k == 1:
        s = s.rstrip(b"=")
    elif k == 2:
        s += b"="
    elif k == 3 and s:
        del s[rng.randrange(len(s))]
    elif k == 4:
        s.insert(rng.randrange(len(s) + 1), rng.choice(b"\n\r"))
    elif k == 5:
        s += rng.choice([b"A", b"AA", b"==", b"\n", b" ", b"A==="])
    elif k == 6 and len(s) > 2:
        s = s[:rng.randrange(1, len(s))]
    elif k == 7 and s:
        i = rng.randrange(len(s))
        s[i:i] = b"="
    return bytes(s)


def enc_inputs(rng, vol):
    T = [t for t in texts(rng, vol["rand"]) if len(t) <= 300]
    T += [bytes(range(256)), b"\x00", b"\xff", b"\xff\xff", b"\xff\xff\xff", b"\xfb\xff", b"f", b"fo", b"foo", b"foob", b"fooba", b"foobar", bytes(rng.getrandbits(8) for _ in range(1000))]
    for n in list(range(0, 12)) + [3071, 3072, 3073]:
        T.append(bytes(rng.getrandbits(8) for _ in range(n)))
    return T


def base64_sections(rng, vol):
    out = []
    T = enc_inputs(rng, vol)
    encs = [("Std", "base64.StdEncoding", base64.b64encode, True), ("URL", "base64.URLEncoding", base64.urlsafe_b64encode, True),
            ("RawStd", "base64.RawStdEncoding", lambda b: base64.b64encode(b).rstrip(b"="), False),
            ("RawURL", "base64.RawURLEncoding", lambda b: base64.urlsafe_b64encode(b).rstrip(b"="), False)]
    lens = [(n,) for n in list(range(0, 20)) + [100, 255, 256, 1000, 65535, 1 << 20, (1 << 28) + 1]]
    for name, var, pyenc, padded in encs:
        dec = []
        for t in T:
            e = pyenc(t)
            dec.append(e)
            if len(t) < 40:
                dec.append(mutate(rng, e))
                dec.append(mutate(rng, e))
        dec += [b"", b"=", b"==", b"A", b"AA", b"AAA", b"AAAA", b"A=", b"AA=", b"AA==", b"AAA=", b"AA=A", b"A===", b"AAAA=", b"AAAA====", b"AA\n==", b"AA=\n=", b"AA==\n", b"\nAA==", b"AA= =",
                b"Zm9v\r\nYmFy", b"Zh==", b"Zm9=", b"Zm8=", b"Zg==", b"Zh", b"Zm9", b"Zm-_", b"Zm+/", b"////", b"____", b"----", b"++++", b"\xff\xff\xff\xff", b"AAAA\xff", b"AA==AA==", b"AA==AAAA",
                b"!!!!", b"AAA", b"AAAAA", b"AAAAAA", b"AAAAAAA", b"A" * 1001, b"A" * 1000]
        k = "base64.%s." % name
        out.append(sec(k + "EncodeToString", "encoding/base64", ["bytes"], "r0 := %s.EncodeToString($0)" % var, [S("hx(r0)")], [(t,) for t in T]))
        out.append(sec(k + "DecodeString", "encoding/base64", ["str"], "r0, r1 := %s.DecodeString($0)" % var, [S("hb(0, r0)"), E("r1")], [(s,) for s in dec]))
        out.append(sec(k + "EncodedLen", "encoding/base64", ["i64"], "r0 := %s.EncodedLen($0)" % var, [I("r0")], lens, casts=["int"]))
        out.append(sec(k + "DecodedLen", "encoding/base64", ["i64"], "r0 := %s.DecodedLen($0)" % var, [I("r0")], lens, casts=["int"]))
        out.append(sec(k + "Encode", "encoding/base64", ["bytes"], "dst := make([]byte, %s.EncodedLen(len($0))+2)\n%s.Encode(dst, $0)" % (var, var), [S("hb(0, dst)")], [(t,) for t in T[::3]]))
        out.append(sec(k + "Decode", "encoding/base64", ["bytes"], "dst := make([]byte, len($0)+8)\nn, e := %s.Decode(dst, $0)\nif n < 0 || n > len(dst) {\n\tn = 0\n}" % var,
                       [I("n"), S("hb(0, dst[:n])"), E("e")], [(s,) for s in dec[::2]]))
        out.append(sec(k + "Strict.DecodeString", "encoding/base64", ["str"], "r0, r1 := %s.Strict().DecodeString($0)" % var, [S("hb(0, r0)"), E("r1")], [(s,) for s in dec[::2]]))
    alpha = b"zyxwvutsrqponmlkjihgfedcbaZYXWVUTSRQPONMLKJIHGFEDCBA9876543210.,"
    tr = bytes.maketrans(b"ABCDEFGHIJKLMNOPQRSTUVWXYZabcdefghijklmnopqrstuvwxyz0123456789+/=", alpha + b"*")
    out.append(sec("base64.NewEncoding.WithPadding.EncodeToString", "encoding/base64", ["bytes"],
                   "r0 := base64.NewEncoding(%s).WithPadding('*').EncodeToString($0)" % ('"' + alpha.decode() + '"'), [S("hx(r0)")], [(t,) for t in T[::2]]))
    dec2 = []
    for t in T[::2]:
        e = base64.b64encode(t).translate(tr)
        dec2 += [e, mutate(rng, e)]
    out.append(sec("base64.NewEncoding.WithPadding.DecodeString", "encoding/base64", ["str"],
                   "r0, r1 := base64.NewEncoding(%s).WithPadding('*').DecodeString($0)" % ('"' + alpha.decode() + '"'), [S("hb(0, r0)"), E("r1")], [(s,) for s in dec2]))
    out.append(sec("base64.NewEncoding.NoPadding.DecodeString", "encoding/base64", ["str"],
                   "r0, r1 := base64.NewEncoding(%s).WithPadding(base64.NoPadding).DecodeString($0)" % ('"' + alpha.decode() + '"'), [S("hb(0, r0)"), E("r1")],
                   [(s.rstrip(b"*"),) for s in dec2]))
    return out


def base32_sections(rng, vol):
    out = []
    T = enc_inputs(rng, vol)
    hextr = bytes.maketrans(b"ABCDEFGHIJKLMNOPQRSTUVWXYZ234567", b"0123456789ABCDEFGHIJKLMNOPQRSTUV")
    encs = [("Std", "base32.StdEncoding", base64.b32encode), ("Hex", "base32.HexEncoding", lambda b: base64.b32encode(b).translate(hextr))]
    lens = [(n,) for n in list(range(0, 20)) + [100, 255, 256, 1000, 65535, 1 << 20, (1 << 27) + 3]]
    for name, var, pyenc in encs:
        dec = []
        for t in T:
            e = pyenc(t)
            dec.append(e)
            if len(t) < 40:
                dec += [mutate(rng, e), mutate(rng, e), e.lower()]
        dec += [b"", b"=", b"A", b"AA", b"AA======", b"AAA=====", b"AAAA====", b"AAAAA===", b"AAAAAA==", b"AAAAAAA=", b"AAAAAAAA", b"A=======", b"AA=====", b"AA=======", b"AA======A",
                b"AA====\n==", b"MZXW6===", b"MZXW6YQ=", b"MZXW6YTB", b"MZXW6YTBOI======", b"mzxw6===", b"MZXW6YQ", b"MZXW6", b"CPNMUOJ1", b"11111111", b"88888888", b"\xff" * 8, b"MZXW6YTB\n",
                b"MZXW\r\n6YTB", b"AAAAAAAA========", b"!!!!!!!!", b"A" * 1001, b"A" * 1000]
        k = "base32.%s." % name
        out.append(sec(k + "EncodeToString", "encoding/base32", ["bytes"], "r0 := %s.EncodeToString($0)" % var, [S("hx(r0)")], [(t,) for t in T]))
        out.append(sec(k + "DecodeString", "encoding/base32", ["str"], "r0, r1 := %s.DecodeString($0)" % var, [S("hb(0, r0)"), E("r1")], [(s,) for s in dec]))
        out.append(sec(k + "EncodedLen", "encoding/base32", ["i64"], "r0 := %s.EncodedLen($0)" % var, [I("r0")], lens, casts=["int"]))
        out.append(sec(k + "DecodedLen", "encoding/base32", ["i64"], "r0 := %s.DecodedLen($0)" % var, [I("r0")], lens, casts=["int"]))
        out.append(sec(k + "Encode", "encoding/base32", ["bytes"], "dst := make([]byte, %s.EncodedLen(len($0))+2)\n%s.Encode(dst, $0)" % (var, var), [S("hb(0, dst)")], [(t,) for t in T[::3]]))
        out.append(sec(k + "Decode", "encoding/base32", ["bytes"], "dst := make([]byte, len($0)+16)\nn, e := %s.Decode(dst, $0)\nif n < 0 || n > len(dst) {\n\tn = 0\n}" % var,
                       [I("n"), S("hb(0, dst[:n])"), E("e")], [(s,) for s in dec[::2]]))
    alpha = b"ZYXWVUTSRQPONMLKJIHGFEDCBA765432"
    out.append(sec("base32.NewEncoding.EncodeToString", "encoding/base32", ["bytes"], 'r0 := base32.NewEncoding("%s").EncodeToString($0)' % alpha.decode(), [S("hx(r0)")], [(t,) for t in T[::2]]))
    return out


def hex_sections(rng, vol):
    T = enc_inputs(rng, vol)
    out = [sec("hex.Encode", "encoding/hex", ["bytes"], "dst := make([]byte, 2*len($0)+3)\nn := hex.Encode(dst, $0)", [I("n"), S("hb(0, dst[:n])")], [(t,) for t in T])]
    dec = []
    for t in T[:100]:
        h = t.hex().encode()
        dec += [h, h.upper(), mutate(rng, h)]
    dec += [b"", b"0", b"0g", b"g0", b"zz", b"abc", b"\xff\xff"]
    out.append(sec("hex.Decode", "encoding/hex", ["bytes"], "dst := make([]byte, len($0)+2)\nn, e := hex.Decode(dst, $0)\nif n < 0 || n > len(dst) {\n\tn = 0\n}", [I("n"), S("hb(0, dst[:n])"), E("e")], [(s,) for s in dec]))
    return out


def utf8_sections(rng, vol):
    rs = runes(rng, vol["rand"] * 4)
    return [sec("utf8.EncodeRune", "unicode/utf8", ["i64"], "p := make([]byte, 8)\nn := utf8.EncodeRune(p, $0)", [I("n"), S("hb(0, p[:n])")], [(r,) for r in rs], casts=["rune"])]


def binary_sections(rng, vol):
    out = []
    u64 = ints_of(64, False, rng, vol["rand"])
    i64 = ints_of(64, True, rng, vol["rand"])
    out.append(sec("binary.PutUvarint", "encoding/binary", ["u64"], "buf := make([]byte, 16)\nn := binary.PutUvarint(buf, $0)", [I("n"), S("hb(0, buf[:n])")], [(v,) for v in u64]))
    out.append(sec("binary.PutVarint", "encoding/binary", ["i64"], "buf := make([]byte, 16)\nn := binary.PutVarint(buf, $0)", [I("n"), S("hb(0, buf[:n])")], [(v,) for v in i64]))
    for order in ("BigEndian", "LittleEndian"):
        for bits in (16, 32, 64):
            nb = bits // 8
            vals = ints_of(bits, False, rng, vol["rand"])
            bs = [bytes(rng.getrandbits(8) for _ in range(nb + rng.choice([0, 0, 1, 3]))) for _ in range(30)] + [b"\x00" * nb, b"\xff" * nb, bytes(range(1, nb + 1)), bytes(range(0x80, 0x80 + nb))]
            k = "binary.%s." % order
            out.append(sec(k + "Uint%d" % bits, "encoding/binary", ["bytes"], "r0 := binary.%s.Uint%d($0)" % (order, bits), [Uu("r0")], [(b,) for b in bs]))
            out.append(sec(k + "PutUint%d" % bits, "encoding/binary", ["u64"], "buf := make([]byte, %d)\nbinary.%s.PutUint%d(buf, $0)" % (nb + 1, order, bits), [S("hb(0, buf)")],
                           [(v,) for v in vals], casts=["uint%d" % bits if bits < 64 else None]))
            out.append(sec(k + "AppendUint%d" % bits, "encoding/binary", ["bytes", "u64"], "r0 := binary.%s.AppendUint%d($0, $1)" % (order, bits), [S("hb(0, r0)")],
                           [(rng.choice([b"", b"ab"]), v) for v in vals[::2]], casts=[None, "uint%d" % bits if bits < 64 else None]))
        out.append(sec("binary.%s.String" % order, "encoding/binary", [], "r0 := binary.%s.String()" % order, [S("hx(r0)")], [()]))
    return out


def hash_sections(rng, vol):
    out = []
    T = [t for t in texts(rng, vol["rand"])] + [b"\xff" * 5553, b"\xff" * 5552, b"\xff" * 11105, bytes(range(256)) * 20, b"a" * 70000, b"The quick brown fox jumps over the lazy dog"]
    for n in (7, 8, 9, 15, 16, 17, 31, 32, 33, 63, 64, 65, 127, 128, 129, 1023, 1024, 1025):          # slicing-by-8 / block thresholds
        T.append(bytes(rng.getrandbits(8) for _ in range(n)))
    polys = [0xedb88320, 0x82f63b78, 0xeb31d82e, 0, 1, 0xffffffff, 0x04c11db7]
    pairs = []
    for t in T:
        i = rng.randrange(0, len(t) + 1)
        pairs.append((t[:i], t[i:]))
    out.append(sec("crc32.Checksum", "hash/crc32", ["bytes", "u64"], "r0 := crc32.Checksum($0, crc32.MakeTable($1))", [Uu("r0")],
                   [(t, rng.choice(polys[:3]) if rng.random() < 0.8 else rng.choice(polys)) for t in T], casts=[None, "uint32"]))
    out.append(sec("crc32.Update", "hash/crc32", ["u64", "u64", "bytes"], "r0 := crc32.Update($0, crc32.MakeTable($1), $2)", [Uu("r0")],
                   [(rng.choice([0, 1, 0xffffffff, rng.getrandbits(32)]), rng.choice(polys[:3]), t) for t in T], casts=["uint32", "uint32", None]))
    out.append(sec("crc32.MakeTable", "hash/crc32", ["u64", "i64"], "t := crc32.MakeTable($0)\nr0 := t[$1]", [Uu("r0")],
                   [(p, i) for p in polys for i in (0, 1, 2, 127, 128, 255, rng.randrange(256), rng.randrange(256))], casts=["uint32", "int"]))
    hbody = "n1, e1 := h.Write($A)\nh.Write($B)\ns1 := h.Sum32()\nsum := h.Sum([]byte(\"p\"))\nsz := h.Size()\nbsz := h.BlockSize()\nh.Reset()\ns2 := h.Sum32()"
    htoks = [I("n1"), E("e1"), Uu("s1"), S("hb(0, sum)"), I("sz"), I("bsz"), Uu("s2")]
    out.append(sec("crc32.New.Write", "hash/crc32", ["u64", "bytes", "bytes"], "h := crc32.New(crc32.MakeTable($0))\n" + hbody.replace("$A", "$1").replace("$B", "$2"), htoks,
                   [(rng.choice(polys[:3]),) + p for p in pairs], casts=["uint32", None, None]))
    out.append(sec("crc32.NewIEEE.Write", "hash/crc32", ["bytes", "bytes"], "h := crc32.NewIEEE()\n" + hbody.replace("$A", "$0").replace("$B", "$1"), htoks, pairs))
    out.append(sec("adler32.New.Write", "hash/adler32", ["bytes", "bytes"], "h := adler32.New()\n" + hbody.replace("$A", "$0").replace("$B", "$1"), htoks, pairs))
    for nm in ("New32", "New32a"):
        out.append(sec("fnv.%s.Write" % nm, "hash/fnv", ["bytes", "bytes"], ("h := fnv.%s()\n" % nm) + hbody.replace("$A", "$0").replace("$B", "$1"), htoks, pairs))
    h64 = hbody.replace("Sum32", "Sum64")
    for nm in ("New64", "New64a"):
        out.append(sec("fnv.%s.Write" % nm, "hash/fnv", ["bytes", "bytes"], ("h := fnv.%s()\n" % nm) + h64.replace("$A", "$0").replace("$B", "$1"), htoks, pairs))
    mt = [t for t in T if len(t) < 20000] + [b"a" * n for n in (55, 56, 57, 63, 64, 65, 119, 120, 127, 128, 129)]
    mp = []
    for t in mt:
        i = rng.randrange(0, len(t) + 1)
        mp.append((t[:i], t[i:]))
    out.append(sec("md5.New.Write", "crypto/md5", ["bytes", "bytes"],
                   "h := md5.New()\nn1, e1 := h.Write($0)\nh.Write($1)\nsum := h.Sum(nil)\nsum2 := h.Sum([]byte(\"p\"))\nsz := h.Size()\nbsz := h.BlockSize()\nh.Reset()\ns3 := h.Sum(nil)",
                   [I("n1"), E("e1"), S("hb(0, sum)"), S("hb(0, sum2)"), I("sz"), I("bsz"), S("hb(0, s3)")], mp))
    return out


CANON_PRE = '''
// sorting is not stable: elements that compare equal but differ in their bits (+0 / -0, NaNs with different
// payloads) may legitimately come out in a different order, so they are printed canonically
func canonf64s(k int, v []float64) []int64 {
	r := make([]int64, len(v))
	for i := 0; i < len(v); i++ {
		if v[i] != v[i] {
			r[i] = 0x7ff8000000000001
		} else if v[i] == 0 {
			r[i] = 0
		} else {
			r[i] = int64(math.Float64bits(v[i]))
		}
	}
	return r
}
'''

SORT_PRE = '''
type kvT struct {
	k int
	v int
}
type kvsT []kvT
type byKeyT struct {
	a kvsT
}

func (p *byKeyT) Len() int           { return len(p.a) }
func (p *byKeyT) Less(i, j int) bool { return p.a[i].k < p.a[j].k }
func (p *byKeyT) Swap(i, j int)      { p.a[i], p.a[j] = p.a[j], p.a[i] }

func kvRun(k int, keys []int64, stable bool) string {
	p := &byKeyT{}
	for i := 0; i < len(keys); i++ {
		p.a = append(p.a, kvT{int(keys[i]), i})
	}
	if stable {
		sort.Stable(p)
	} else {
		sort.Sort(p)
	}
	s := ""
	for i := 0; i < len(p.a); i++ {
		if i > 0 {
			s += ","
		}
		s += itoa64(int64(p.a[i].k))
		if stable {
			s += ":" + itoa64(int64(p.a[i].v))
		}
	}
	if sort.IsSorted(p) {
		s += "|sorted"
	}
	return s
}
'''


def int_lists(rng, vol):
    L = [[], [1], [2, 1], [1, 2], [3, 1, 2], [1, 1, 1], [5, 4, 3, 2, 1], [-(1 << 31), (1 << 31) - 1, 0, -1, 1], [0] * 13]
    sizes = [2, 3, 5, 8, 11, 12, 13, 19, 20, 21, 33, 39, 40, 41, 49, 50, 51, 79, 80, 81, 100, 161, 257, 1000] + ([3000, 10000] if vol["rand"] > 20 else [])
    for n in sizes:
        L.append([rng.randrange(-1000, 1000) for _ in range(n)])
        L.append([rng.randrange(0, 4) for _ in range(n)])
        L.append(list(range(n)))
        L.append(list(range(n, 0, -1)))
        L.append([min(i, n - i) for i in range(n)])                      # organ pipe
        L.append([(i * 7919) % 31 for i in range(n)])
    for _ in range(vol["rand"]):
        n = rng.randrange(0, 40)
        L.append([rng.choice([-(1 << 31), (1 << 31) - 1, 0, 1, -1, rng.randrange(-9, 9)]) for _ in range(n)])
    return L


def sort_sections(rng, vol):
    out = []
    L = int_lists(rng, vol)
    out.append(sec("sort.Ints", "sort", ["ints"], "x := $0\nsort.Ints(x)", [("jint(0, fromints(0, x))", "n"), B("sort.IntsAreSorted(x)")], [(l,) for l in L]))
    out.append(sec("sort.Sort.IntSlice", "sort", ["ints"], "x := $0\nsort.Sort(sort.IntSlice(x))", [("jint(0, fromints(0, x))", "n")], [(l,) for l in L[::2]]))
    out.append(sec("sort.Sort.Reverse", "sort", ["ints"], "x := $0\nsort.Sort(sort.Reverse(sort.IntSlice(x)))", [("jint(0, fromints(0, x))", "n")], [(l,) for l in L[1::2]]))
    out.append(sec("sort.Stable.IntSlice", "sort", ["ints"], "x := $0\nsort.Stable(sort.IntSlice(x))", [("jint(0, fromints(0, x))", "n")], [(l,) for l in L[::2]]))
    out.append(sec("sort.IntSlice.Sort", "sort", ["ints"], "x := sort.IntSlice($0)\nx.Sort()\nr1 := x.Search(3)\nr2 := x.Len()", [("jint(0, fromints(0, x))", "n"), I("r1"), I("r2")], [(l,) for l in L[1::3]]))
    out.append(sec("sort.Stable.byKey", "sort", ["ints_raw"], "r0 := kvRun(0, $0, true)", [S("hx(r0)")], [([v % 8 for v in l],) for l in L] + [(l,) for l in L[::4]], pre=SORT_PRE))
    out.append(sec("sort.Sort.byKey", "sort", ["ints_raw"], "r0 := kvRun(0, $0, false)", [S("hx(r0)")], [(l,) for l in L[::2]], pre=SORT_PRE))
    FS = [0.0, -0.0, 1.0, -1.0, 0.5, 1e300, -1e300, float("inf"), float("-inf"), 5e-324, -5e-324, 2.5, 100.0, 1e-300, 3.0]
    FL = []
    for _ in range(40 + vol["rand"]):
        n = rng.choice([0, 1, 2, 3, 5, 8, 13, 20, 60])
        xs = [f64bits(rng.choice(FS) if rng.random() < 0.5 else rng.uniform(-100, 100)) for _ in range(n)]
        for _ in range(rng.choice([0, 0, 1, 3])):
            if xs:
                xs[rng.randrange(len(xs))] = rng.choice([0x7ff8000000000001, 0xfff8000000000000])
        FL.append(xs)
    out.append(sec("sort.Float64s", "sort", ["f64s"], "x := $0\nsort.Float64s(x)", [("jint(0, canonf64s(0, x))", "n"), B("sort.Float64sAreSorted(x)")], [(l,) for l in FL], pre=CANON_PRE))
    out.append(sec("sort.Float64Slice.Sort", "sort", ["f64s"], "x := sort.Float64Slice($0)\nx.Sort()\nr1 := x.Search(1.0)", [("jint(0, canonf64s(0, x))", "n"), I("r1")], [(l,) for l in FL[::2]], pre=CANON_PRE))
    pool = [b"", b"a", b"b", b"ab", b"B", U("é"), b"aa", b"z", U("日本"), b"a\x01", b"A", b"abc", b"abd", U("ź"), U("𝄞"), b"Zebra", b"apple", b"10", b"9", b"~"]
    bad = pool + [b"\xff", b"\xfe", b"a\xff", b"\xc3", b"\x80"]
    SL = []
    for _ in range(40 + vol["rand"]):
        n = rng.choice([0, 1, 2, 3, 5, 8, 13, 20, 60])
        src = bad if rng.random() < 0.25 else pool
        SL.append([rng.choice(src) + (bytes([rng.randrange(0x61, 0x7b)]) if rng.random() < 0.3 else b"") for _ in range(n)])
    out.append(sec("sort.Strings", "sort", ["strs"], "x := $0\nsort.Strings(x)", [("jstr(0, x)", "l"), B("sort.StringsAreSorted(x)")], [(l,) for l in SL]))
    out.append(sec("sort.StringSlice.Sort", "sort", ["strs"], "x := sort.StringSlice($0)\nx.Sort()\nr1 := x.Search(\"b\")", [("jstr(0, x)", "l"), I("r1")], [(l,) for l in SL[::2]]))
    srch = [(n, t) for n in (0, 1, 2, 3, 10, 100, 1000, 1 << 20, (1 << 31) - 1) for t in (-1, 0, 1, n // 2, n - 1, n, n + 1)]
    out.append(sec("sort.Search", "sort", ["i64", "i64"], "t := $1\nr0 := sort.Search(int($0), func(i int) bool { return int64(i) >= t })", [I("r0")], srch))
    out.append(sec("sort.Find", "sort", ["i64", "i64"], "t := $1\nr0, r1 := sort.Find(int($0), func(i int) int {\n\tif t < int64(2*i) {\n\t\treturn -1\n\t}\n\tif t == int64(2*i) {\n\t\treturn 0\n\t}\n\treturn 1\n})",
                   [I("r0"), B("r1")], [(n, t) for n, t in srch if n < 1 << 30]))
    out.append(sec("sort.IsSorted.IntSlice", "sort", ["ints"], "r0 := sort.IsSorted(sort.IntSlice($0))", [B("r0")], [(l,) for l in L[:60]] + [(sorted(l),) for l in L[:30]]))
    return out


LIST_PRE = '''
func listNth(l *list.List, k int) *list.Element {
	e := l.Front()
	for i := 0; i < k && e != nil; i++ {
		e = e.Next()
	}
	return e
}

func listDump(l *list.List) string {
	s := itoa64(int64(l.Len())) + "["
	for e := l.Front(); e != nil; e = e.Next() {
		s += itoa64(int64(e.Value.(int))) + " "
	}
	s += "|"
	for e := l.Back(); e != nil; e = e.Prev() {
		s += itoa64(int64(e.Value.(int))) + " "
	}
	return s + "]"
}

func listRun(k int, ops []int64) string {
	l := list.New()
	s := ""
	for i := 0; i+1 < len(ops); i += 2 {
		op, v := int(ops[i]), int(ops[i+1])
		n := l.Len()
		switch op {
		case 0:
			l.PushBack(v)
		case 1:
			l.PushFront(v)
		case 2:
			if n > 0 {
				r := l.Remove(listNth(l, v%n))
				s += "r" + itoa64(int64(r.(int)))
			}
		case 3:
			if n > 0 {
				l.MoveToFront(listNth(l, v%n))
			}
		case 4:
			if n > 0 {
				l.MoveToBack(listNth(l, v%n))
			}
		case 5:
			if n > 0 {
				l.InsertBefore(v, listNth(l, v%n))
			}
		case 6:
			if n > 0 {
				l.InsertAfter(v, listNth(l, v%n))
			}
		case 7:
			l.Init()
		case 8:
			o := list.New()
			o.PushBack(v)
			o.PushBack(v + 1)
			l.PushBackList(o)
		case 9:
			o := list.New()
			o.PushBack(v)
			o.PushBack(v + 1)
			l.PushFrontList(o)
		case 10:
			l.PushBackList(l)
		case 11:
			if n > 0 {
				e := listNth(l, v%n)
				l.Remove(e)
				l.Remove(e)
				l.MoveToFront(e)
				l.InsertBefore(99, e)
			}
		}
		s += listDump(l)
	}
	return s
}
'''

RING_PRE = '''
func ringDump(r *ring.Ring) string {
	if r == nil {
		return "nil"
	}
	s := itoa64(int64(r.Len())) + "("
	r.Do(func(x interface{}) {
		if x == nil {
			s += "_ "
		} else {
			s += itoa64(int64(x.(int))) + " "
		}
	})
	p := r
	s += "|"
	for i := 0; i < r.Len(); i++ {
		if p.Value != nil {
			s += itoa64(int64(p.Value.(int))) + " "
		}
		p = p.Prev()
	}
	return s + ")"
}

func ringRun(k int, ops []int64) string {
	n := int(ops[0])
	r := ring.New(n)
	s := ringDump(r)
	for i := 0; i < n; i++ {
		r.Value = i
		r = r.Next()
	}
	for i := 1; i+1 < len(ops); i += 2 {
		op, v := int(ops[i]), int(ops[i+1])
		switch op {
		case 0:
			if r != nil {
				r = r.Move(v)
			}
		case 1:
			if r != nil {
				q := r.Unlink(v)
				s += "u" + ringDump(q)
			}
		case 2:
			o := ring.New(2)
			o.Value = 100 + v
			o.Next().Value = 200 + v
			if r != nil {
				q := r.Link(o)
				s += "l" + ringDump(q)
			}
		case 3:
			if r != nil {
				r = r.Next()
			}
		case 4:
			if r != nil {
				r = r.Prev()
			}
		case 5:
			if r != nil && r.Len() > 0 {
				q := r.Link(r.Move(v))
				s += "L" + ringDump(q)
			}
		}
		s += ringDump(r)
	}
	return s
}
'''

HEAP_PRE = '''
type heapIntsT []int
type intHeapT struct {
	a heapIntsT
}

func (h *intHeapT) Len() int            { return len(h.a) }
func (h *intHeapT) Less(i, j int) bool  { return h.a[i] < h.a[j] }
func (h *intHeapT) Swap(i, j int)       { h.a[i], h.a[j] = h.a[j], h.a[i] }
func (h *intHeapT) Push(x interface{})  { h.a = append(h.a, x.(int)) }
func (h *intHeapT) Pop() interface{} {
	n := len(h.a)
	x := h.a[n-1]
	h.a = h.a[:n-1]
	return x
}

func heapRun(k int, init []int64, ops []int64, dump int) string {
	h := &intHeapT{}
	for i := 0; i < len(init); i++ {
		h.a = append(h.a, int(init[i]))
	}
	heap.Init(h)
	s := "i"
	for i := 0; i < len(h.a) && dump != 0; i++ {
		s += itoa64(int64(h.a[i])) + " "
	}
	for i := 0; i+1 < len(ops); i += 2 {
		op, v := int(ops[i]), int(ops[i+1])
		switch op {
		case 0:
			heap.Push(h, v)
		case 1:
			if h.Len() > 0 {
				s += "p" + itoa64(int64(heap.Pop(h).(int))) + " "
			}
		case 2:
			if h.Len() > 0 {
				s += "r" + itoa64(int64(heap.Remove(h, v%h.Len()).(int))) + " "
			}
		}
	}
	s += "|"
	for h.Len() > 0 {
		s += itoa64(int64(heap.Pop(h).(int))) + " "
	}
	return s
}
'''


def container_sections(rng, vol):
    out = []
    n = 40 + vol["rand"]
    lops = []
    for _ in range(n):
        ops = []
        for _ in range(rng.randrange(1, 25)):
            ops += [rng.choice([0, 0, 1, 1, 2, 3, 4, 5, 6, 8, 9, rng.randrange(12)]), rng.randrange(0, 50)]
        lops.append((ops,))
    out.append(sec("list.List.ops", "container/list", ["ints_raw"], "r0 := listRun(0, $0)", [S("hx(r0)")], lops, pre=LIST_PRE))
    rops = []
    for _ in range(n):
        ops = [rng.choice([0, 1, 2, 3, 5, 8])]
        for _ in range(rng.randrange(0, 12)):
            ops += [rng.randrange(6), rng.randrange(-7, 12)]
        rops.append((ops,))
    out.append(sec("ring.Ring.ops", "container/ring", ["ints_raw"], "r0 := ringRun(0, $0)", [S("hx(r0)")], rops, pre=RING_PRE))
    # (a) distinct elements: the whole trace (array after Init, Remove by index) is determined by the heap algorithm;
    # (b) duplicates, Push/Pop only: the popped sequence is determined by the heap CONTRACT;
    # (c) duplicates with Remove-by-index: depends on how ties are broken in `down` (kept apart: keyed heap.ops-ties)
    for kind in ("distinct", "pushpop", "ties"):
        hops = []
        for _ in range(n):
            pool = list(range(-60, 60))
            rng.shuffle(pool)
            k0 = rng.choice([0, 1, 2, 5, 9, 30])
            init = pool[:k0] if kind == "distinct" else [rng.randrange(-20, 20) for _ in range(k0)]
            rest = pool[k0:]
            ops = []
            for _ in range(rng.randrange(0, 30)):
                op = rng.choice([0, 0, 1, 2]) if kind != "pushpop" else rng.choice([0, 0, 1])
                if op == 0:
                    v = rest.pop() if kind == "distinct" and rest else rng.randrange(-20, 20)
                else:
                    v = rng.randrange(0, 100)
                ops += [op, v]
            hops.append((init, ops, 0 if kind == "pushpop" else 1))
        out.append(sec("heap.ops-" + kind, "container/heap", ["ints_raw", "ints_raw", "i64"], "r0 := heapRun(0, $0, $1, int($2))", [S("hx(r0)")], hops, pre=HEAP_PRE))
    return out


BUILDER_PRE = '''
func builderRun(k int, ops []int64, data string) string {
	var b strings.Builder
	s := ""
	for i := 0; i+1 < len(ops); i += 2 {
		op, v := int(ops[i]), int(ops[i+1])
		lo := 0
		if len(data) > 0 {
			lo = v % len(data)
		}
		switch op {
		case 0:
			n, e := b.WriteString(data[lo:])
			s += "w" + itoa64(int64(n)) + er(e)
		case 1:
			e := b.WriteByte(byte(v))
			s += "b" + er(e)
		case 2:
			n, e := b.WriteRune(rune(v * 37))
			s += "r" + itoa64(int64(n)) + er(e)
		case 3:
			n, e := b.Write([]byte(data[:lo]))
			s += "W" + itoa64(int64(n)) + er(e)
		case 4:
			b.Grow(v)
		case 5:
			b.Reset()
		case 6:
			n, e := b.WriteRune(rune(-v))
			s += "r" + itoa64(int64(n)) + er(e)
		}
		s += "L" + itoa64(int64(b.Len())) + " "
	}
	return s + hx(b.String())
}
'''

READER_TMPL = '''
func %(fn)s(k int, ops []int64, data string) string {
	r := %(ctor)s
	s := itoa64(int64(r.Len())) + "/" + itoa64(r.Size()) + " "
	for i := 0; i+1 < len(ops); i += 2 {
		op, v := int(ops[i]), int(ops[i+1])
		switch op {
		case 0:
			c, e := r.ReadByte()
			s += "b" + itoa64(int64(c)) + er(e)
		case 1:
			c, n, e := r.ReadRune()
			s += "r" + itoa64(int64(c)) + "," + itoa64(int64(n)) + er(e)
		case 2:
			s += "ub" + er(r.UnreadByte())
		case 3:
			s += "ur" + er(r.UnreadRune())
		case 4:
			p := make([]byte, v%%7)
			n, e := r.Read(p)
			if n < 0 || n > len(p) {
				n = 0
			}
			s += "R" + itoa64(int64(n)) + hb(0, p[:n]) + er(e)
		case 5:
			n, e := r.Seek(int64(v%%9-3), v%%3)
			s += "S" + itoa64(n) + er(e)
		case 6:
			p := make([]byte, v%%5)
			n, e := r.ReadAt(p, int64(v%%11-2))
			if n < 0 || n > len(p) {
				n = 0
			}
			s += "A" + itoa64(int64(n)) + hb(0, p[:n]) + er(e)
		case 7:
			r.Reset(%(reset)s)
		}
		s += "L" + itoa64(int64(r.Len())) + " "
	}
	return s
}
'''

BUFFER_PRE = '''
func bufferRun(k int, ops []int64, data string) string {
	var b *bytes.Buffer
	if len(ops) > 0 && ops[0]%2 == 0 {
		b = bytes.NewBufferString(data)
	} else {
		b = bytes.NewBuffer([]byte(data))
	}
	s := ""
	afterGrow := false
	for i := 0; i+1 < len(ops); i += 2 {
		op, v := int(ops[i]), int(ops[i+1])
		lo := 0
		if len(data) > 0 {
			lo = v % len(data)
		}
		// UnreadByte/UnreadRune right after Grow depend on whether Grow had to move the data, i.e. on the CAPACITY the
		// runtime gave the underlying slice (Go rounds to size classes) — not a library property: skipped
		if (op == 6 || op == 7) && afterGrow {
			continue
		}
		afterGrow = op == 14
		switch op {
		case 0:
			n, e := b.WriteString(data[lo:])
			s += "w" + itoa64(int64(n)) + er(e)
		case 1:
			s += "b" + er(b.WriteByte(byte(v)))
		case 2:
			n, e := b.WriteRune(rune(v * 37))
			s += "r" + itoa64(int64(n)) + er(e)
		case 3:
			n, e := b.Write([]byte(data[:lo]))
			s += "W" + itoa64(int64(n)) + er(e)
		case 4:
			c, e := b.ReadByte()
			s += "B" + itoa64(int64(c)) + er(e)
		case 5:
			c, n, e := b.ReadRune()
			s += "R" + itoa64(int64(c)) + "," + itoa64(int64(n)) + er(e)
		case 6:
			s += "ub" + er(b.UnreadByte())
		case 7:
			s += "ur" + er(b.UnreadRune())
		case 8:
			p := make([]byte, v%7)
			n, e := b.Read(p)
			if n < 0 || n > len(p) {
				n = 0
			}
			s += "D" + itoa64(int64(n)) + hb(0, p[:n]) + er(e)
		case 9:
			s += "N" + hb(0, b.Next(v%6))
		case 10:
			l, e := b.ReadBytes(byte(v))
			s += "y" + hb(0, l) + er(e)
		case 11:
			l, e := b.ReadString(byte(v))
			s += "g" + hx(l) + er(e)
		case 12:
			b.Truncate(v % (b.Len() + 1))
		case 13:
			b.Reset()
		case 14:
			b.Grow(v)
		}
		s += "L" + itoa64(int64(b.Len())) + " "
	}
	return s + hx(b.String()) + "/" + hb(0, b.Bytes())
}
'''


def textio_sections(rng, vol):
    out = []
    n = 40 + vol["rand"]
    datas = [b"", b"a", b"hello, world", U("héllo wörld 日本語 𝄞!"), b"a\xffb\xc3", b"\xe2\x82", b"line1\nline2\nline3", b"x" * 100, U("é") * 40, b"\xff\xfe\xfd", b"a,b,,c", b"\x00\x01\x02"]

    def opsgen(nops, maxlen, vmax=60):
        ops = []
        for _ in range(rng.randrange(1, maxlen)):
            ops += [rng.randrange(nops), rng.choice([rng.randrange(0, vmax), rng.randrange(0, 2000), 0x2c, 0x0a, 0x61, 0xff])]
        return ops

    out.append(sec("strings.Builder.ops", "strings", ["ints_raw", "str"], "r0 := builderRun(0, $0, $1)", [S("hx(r0)")],
                   [(opsgen(7, 20), rng.choice(datas)) for _ in range(n)], pre=BUILDER_PRE))
    out.append(sec("strings.Reader.ops", "strings", ["ints_raw", "str"], "r0 := sreaderRun(0, $0, $1)", [S("hx(r0)")],
                   [(opsgen(8, 25), rng.choice(datas)) for _ in range(n)],
                   pre=READER_TMPL % {"fn": "sreaderRun", "ctor": "strings.NewReader(data)", "reset": 'data + "z"'}))
    out.append(sec("bytes.Reader.ops", "bytes", ["ints_raw", "str"], "r0 := breaderRun(0, $0, $1)", [S("hx(r0)")],
                   [(opsgen(8, 25), rng.choice(datas)) for _ in range(n)],
                   pre=READER_TMPL % {"fn": "breaderRun", "ctor": "bytes.NewReader([]byte(data))", "reset": '[]byte(data + "z")'}))
    out.append(sec("bytes.Buffer.ops", "bytes", ["ints_raw", "str"], "r0 := bufferRun(0, $0, $1)", [S("hx(r0)")],
                   [(opsgen(15, 30), rng.choice(datas)) for _ in range(n)], pre=BUFFER_PRE))
    # Replacer: generic (several pairs), byte replacer (single bytes), single string
    T = [t for t in texts(rng, vol["rand"]) if len(t) < 300]
    reps = []
    for _ in range(n + 40):
        h = rng.choice(T)
        k = rng.random()
        if k < 0.3:                                   # byte -> byte
            pairs = []
            for _ in range(rng.randrange(1, 4)):
                pairs += [bytes([rng.choice(h) if h else 0x61]), bytes([rng.randrange(0x20, 0x7f)])]
        elif k < 0.5:                                 # byte -> string
            pairs = []
            for _ in range(rng.randrange(1, 4)):
                pairs += [bytes([rng.choice(h) if h else 0x61]), rng.choice([b"", b"<>", U("é"), b"&amp;"])]
        elif k < 0.7 and h:                           # single string
            i = rng.randrange(len(h))
            pairs = [h[i:i + rng.choice([1, 2, 3])], rng.choice([b"", b"X", b"--", h[:2]])]
        else:
            pairs = []
            for _ in range(rng.randrange(0, 4)):
                if h:
                    i = rng.randrange(len(h))
                    pairs += [h[i:i + rng.choice([0, 1, 2, 3, 5])], rng.choice([b"", b"X", b"<b>", U("日")])]
                else:
                    pairs += [b"", b"X"]
        reps.append((pairs, h))
    reps += [([b"a", b"1", b"aa", b"2", b"aaa", b"3"], b"aaaa"), ([b"aaa", b"3", b"aa", b"2", b"a", b"1"], b"aaaa"), ([b"", b"X"], b"abc"), ([b"", b""], b"abc"),
             ([b"a", b"b", b"b", b"a"], b"abab"), ([b"<", b"&lt;", b">", b"&gt;", b"&", b"&amp;"], b"<a href=\"x&y\">"), ([b"\xff", b"?"], b"a\xffb"), ([U("é"), b"e"], U("héllo")),
             ([b"a", b"1", b"a", b"2"], b"aaa"), ([b"abc", b"x", b"ab", b"y", b"b", b"z"], b"ababcab")]
    out.append(sec("strings.Replacer.Replace", "strings", ["strs", "str"], "r0 := strings.NewReplacer($0...).Replace($1)", [S("hx(r0)")], reps))
    return out


D_ = lambda e: ("dg(%s)" % e, "d")
DB_ = lambda e: ("dgb(0, %s)" % e, "d")


def unit_of(k):
    """a byte string of exactly k bytes whose content is not periodic with a period dividing 8192"""
    if k <= 16:
        return b"abcdefghijklmnopq"[:k]
    head = b"<%d>" % k
    body = (k - len(head)) // 13
    tail = b"0123456789ABC"[:k - len(head) - body * 13]
    return BigStr(head, b"abcdefghijklm", body, tail)


def needle_of(L):
    return bytes((i * 7 + 3) % 26 + 97 for i in range(L))


def size_sections(rng, vol):
    """argument classes at the sizes where the algorithms switch strategy: Repeat's 8 KiB chunking, the Index family on
    long haystacks full of near-misses, builder/buffer growth, thousands of parts, block boundaries of the codecs.
    Large results are compared by length + checksum + per-KiB block checksums (driver helper dg), never printed."""
    out = []
    thorough = vol["rand"] > 20
    # ---- Repeat
    rep_calls = []
    for k in (1, 3, 7, 4097, 8191, 8192, 8193):
        u = unit_of(k)
        targets = [8191, 8193, 16385, 20481, 24577, 32769, 65537] + ([131073, 262145] if thorough else [])
        counts = sorted(set(max(1, (t + k - 1) // k) for t in targets) | {2, 3})
        for c in counts:
            if k * c <= (300000 if thorough else 80000):
                rep_calls.append((u, c))
    rep_calls += [(b"ab", 4096), (b"ab", 4097), (b"abcde", 1639), (b"abcde", 4097), (U("é日"), 3000), (b"x", 8192), (b"x", 8193), (b"", 100000), (b"abc", 6827)]
    out.append(sec("strings.Repeat.large", "strings", ["str", "i64"], "r0 := strings.Repeat($0, $1)", [D_("r0")], rep_calls, casts=[None, "int"]))
    out.append(sec("bytes.Repeat.large", "bytes", ["bytes", "i64"], "r0 := bytes.Repeat($0, $1)", [DB_("r0")], rep_calls, casts=[None, "int"]))
    # ---- Index family on long haystacks with near-misses
    hay_calls = []
    Hs = [9000, 65536] + ([1000, 300000] if thorough else [])
    for L in (1, 2, 8, 16, 31, 32, 33, 63, 64, 65):
        nd = needle_of(L)
        miss = (nd[:-1] + b"#") if L > 1 else b"#"
        for H in Hs:
            n = max(1, H // len(miss))
            hay_calls.append((BigStr(b"", miss, n, nd), nd))                       # only occurrence at the very end
            hay_calls.append((BigStr(b"", miss, n, b""), nd))                      # absent
            if L in (2, 16, 33, 64):
                hay_calls.append((BigStr(nd, miss, n, nd + b"tail"), nd))          # first and near the end
                hay_calls.append((BigStr(b"", nd, max(1, H // L), b""), nd))       # back to back
    hay_calls += [(BigStr(b"", b"a", 20000, b"b"), b"a" * 31 + b"b"), (BigStr(b"", b"a", 20000, b""), b"a" * 64 + b"b"), (BigStr(b"", b"ab", 10000, b"ac"), b"abac"),
                  (BigStr(b"b", b"a", 20000, b""), b"ba"), (BigStr(b"", b"aaaa", 5000, b""), b"aa")]
    for pkg, kind, dgf, cat in (("strings", "str", D_, "catS"), ("bytes", "bytes", DB_, "catB")):
        P = pkg
        out.append(sec(P + ".Index.large", pkg, [kind, kind], "r0 := %s.Index($0, $1)\nr1 := %s.LastIndex($0, $1)\nr2 := %s.Count($0, $1)\nr3 := %s.Contains($0, $1)" % (P, P, P, P),
                       [I("r0"), I("r1"), I("r2"), B("r3")], hay_calls))
        out.append(sec(P + ".Replace.large", pkg, [kind, kind, "i64"], "r0 := %s.Replace($0, $1, %s, $2)" % (P, '"<=>"' if kind == "str" else '[]byte("<=>")'),
                       [dgf("r0")], [(h, nd, n) for (h, nd) in hay_calls[::2] for n in (-1, 2)], casts=[None, None, "int"]))
        out.append(sec(P + ".ReplaceAll.large", pkg, [kind, kind], "r0 := %s.ReplaceAll($0, $1, %s)" % (P, '""' if kind == "str" else "nil"), [dgf("r0")], hay_calls[1::2]))
        out.append(sec(P + ".Split.large", pkg, [kind, kind], "r0 := %s.Split($0, $1)\nr1 := %s.SplitAfterN($0, $1, 1000)" % (P, P),
                       [I("len(r0)"), D_("%s(0, r0)" % cat), I("len(r1)"), D_("%s(0, r1)" % cat)], hay_calls[::3]))
        # thousands of parts
        parts = [(BigStr(b"", b"ab,", n, b"z"), b",") for n in (1, 999, 1000, 1001, 5000)] + [(BigStr(b"", b",", 4000, b""), b","), (BigStr(b"", b"x", 3000, b""), b"")]
        out.append(sec(P + ".Split.many", pkg, [kind, kind], "r0 := %s.Split($0, $1)\nr1 := %s.Join(r0, %s)" % (P, P, '"--"' if kind == "str" else '[]byte("--")'),
                       [I("len(r0)"), D_("%s(0, r0)" % cat), dgf("r1")], parts))
        flds = [(BigStr(b" ", b"ab \t", n, b"  "),) for n in (1, 1000, 5000)] + [(BigStr(b"", U("é "), 3000, b""),), (BigStr(b"", b"a", 50000, b""),), (BigStr(b"", b" ", 50000, b""),)]
        out.append(sec(P + ".Fields.many", pkg, [kind], "r0 := %s.Fields($0)" % P, [I("len(r0)"), D_("%s(0, r0)" % cat)], flds))
        big1 = [(BigStr(b"  ", b"Hello, World! ", 3000, b"  "),), (BigStr(b"\t", b"MiXeD cAsE 123 ", 3000, b"\n"),), (BigStr(b"x", b"y", 70000, b"z"),)]
        out.append(sec(P + ".ToUpper.large", pkg, [kind], "r0 := %s.ToUpper($0)\nr1 := %s.TrimSpace($0)\nr2 := %s.ToLower($0)" % (P, P, P), [dgf("r0"), dgf("r1"), dgf("r2")], big1[::2] + big1[1:2]))
    # ---- growth of Builder / Buffer
    grow = [(c, t) for c in (1, 7, 63, 64, 65, 511, 512, 4095, 4096, 4097, 10000) for t in ((70000,) if c > 1 else (6000,))]
    out.append(sec("strings.Builder.grow", "strings", ["i64", "i64"],
                   "var sb strings.Builder\nchunk := rep(\"0123456789abcdefg\", int($0)/17+1)[:int($0)]\nfor sb.Len() < int($1) {\n\tsb.WriteString(chunk)\n\tsb.WriteByte(byte(sb.Len()))\n}",
                   [I("sb.Len()"), D_("sb.String()")], grow))
    out.append(sec("bytes.Buffer.grow", "bytes", ["i64", "i64"],
                   "var bb bytes.Buffer\nchunk := []byte(rep(\"0123456789abcdefg\", int($0)/17+1)[:int($0)])\nrd := make([]byte, int($0)/3+1)\nnr := 0\nfor bb.Len() < int($1) {\n\tbb.Write(chunk)\n\tbb.WriteByte(byte(bb.Len()))\n\tn, _ := bb.Read(rd)\n\tnr += n\n\tbb.WriteString(\"..\")\n}",
                   [I("bb.Len()"), I("nr"), DB_("bb.Bytes()")], grow))
    return out


ADV_PRE = '''
// McIlroy's "antiquicksort" adversary (A Killer Adversary for Quicksort, 1999; the one Go's sort_test.go TestAdversary
// uses): values are "gas" until a comparison forces them to freeze, which drives any quicksort into its worst case and
// so into its depth-limit fallback (heap sort on an inner partition).  The adversary adapts to the implementation, so
// only ORACLE results are printed (nothing that depends on the algorithm: no comparison counts, no permutation).
type advIntsT []int
type advT struct {
	nsolid    int
	candidate int
	gas       int
	data      advIntsT
	orig      advIntsT
}

func (d *advT) Len() int { return len(d.data) }
func (d *advT) Less(i, j int) bool {
	if d.data[i] == d.gas && d.data[j] == d.gas {
		if i == d.candidate {
			d.data[i] = d.nsolid
			d.nsolid++
		} else {
			d.data[j] = d.nsolid
			d.nsolid++
		}
	}
	if d.data[i] == d.gas {
		d.candidate = i
	} else if d.data[j] == d.gas {
		d.candidate = j
	}
	return d.data[i] < d.data[j]
}
func (d *advT) Swap(i, j int) {
	d.data[i], d.data[j] = d.data[j], d.data[i]
	d.orig[i], d.orig[j] = d.orig[j], d.orig[i]
}

type advKV struct {
	k int
	v int
}
type advKVs []advKV
type advByKey struct {
	a advKVs
}

func (p *advByKey) Len() int           { return len(p.a) }
func (p *advByKey) Less(i, j int) bool { return p.a[i].k < p.a[j].k }
func (p *advByKey) Swap(i, j int)      { p.a[i], p.a[j] = p.a[j], p.a[i] }

func advPad(v int) string {
	s := itoa64(int64(v))
	for len(s) < 7 {
		s = "0" + s
	}
	return s
}

// advRun: "misplaced after Sort(adversary), misplaced after Ints(killer), IntsAreSorted, misplaced after Float64s,
// misplaced after Strings, misplaced after Sort(byKey), misplaced after Stable(byKey), misplaced after Sort(Reverse)"
// — every count must be 0 (the result is the sorted permutation 0..n-1 of the input) under any correct sort.
func advRun(k int, n int) string {
	adv := &advT{gas: n - 1}
	adv.data = make([]int, n)
	adv.orig = make([]int, n)
	for i := 0; i < n; i++ {
		adv.data[i] = adv.gas
		adv.orig[i] = i
	}
	sort.Sort(adv)
	bad1 := 0
	for i := 0; i < n; i++ {
		if adv.data[i] != i {
			bad1++
		}
	}
	// the concrete permutation the adversary built: killer[original index] = final value
	killer := make([]int, n)
	for i := 0; i < n; i++ {
		killer[adv.orig[i]] = adv.data[i]
	}
	a := make([]int, n)
	f := make([]float64, n)
	st := make([]string, n)
	kv1 := &advByKey{}
	kv2 := &advByKey{}
	kv3 := &advByKey{}
	for i := 0; i < n; i++ {
		a[i] = killer[i]
		f[i] = float64(killer[i]) / 2
		st[i] = advPad(killer[i])
		kv1.a = append(kv1.a, advKV{killer[i], i})
		kv2.a = append(kv2.a, advKV{killer[i] / 3, i})
		kv3.a = append(kv3.a, advKV{killer[i], i})
	}
	sort.Ints(a)
	sort.Float64s(f)
	sort.Strings(st)
	sort.Sort(kv1)
	sort.Stable(kv2)
	sort.Sort(sort.Reverse(kv3))
	b2, b3, b4, b5, b6, b7 := 0, 0, 0, 0, 0, 0
	for i := 0; i < n; i++ {
		if a[i] != i {
			b2++
		}
		if f[i] != float64(i)/2 {
			b3++
		}
		if st[i] != advPad(i) {
			b4++
		}
		if kv1.a[i].k != i {
			b5++
		}
		if i > 0 && (kv2.a[i-1].k > kv2.a[i].k || (kv2.a[i-1].k == kv2.a[i].k && kv2.a[i-1].v > kv2.a[i].v)) {
			b6++
		}
		if kv3.a[i].k != n-1-i {
			b7++
		}
	}
	ok := "f"
	if sort.IntsAreSorted(a) && sort.IsSorted(kv1) {
		ok = "t"
	}
	return itoa64(int64(bad1)) + "," + itoa64(int64(b2)) + "," + ok + "," + itoa64(int64(b3)) + "," + itoa64(int64(b4)) + "," + itoa64(int64(b5)) + "," + itoa64(int64(b6)) + "," + itoa64(int64(b7))
}

// advPrefix: the same killer permutation embedded at an offset inside a longer slice (prefix of small values, suffix of
// large ones), so that the depth-limit fallback is reached on a partition that does not start at index 0
func advPrefix(k int, n int, off int) string {
	adv := &advT{gas: n - 1}
	adv.data = make([]int, n)
	adv.orig = make([]int, n)
	for i := 0; i < n; i++ {
		adv.data[i] = adv.gas
		adv.orig[i] = i
	}
	sort.Sort(adv)
	m := n + 2*off
	a := make([]int, m)
	for i := 0; i < off; i++ {
		a[i] = -1 - (i*7919)%off
		a[m-1-i] = n + (i*104729)%off
	}
	for i := 0; i < n; i++ {
		a[off+adv.orig[i]] = adv.data[i]
	}
	sort.Ints(a)
	bad := 0
	for i := 1; i < m; i++ {
		if a[i-1] > a[i] {
			bad++
		}
	}
	for i := 0; i < n; i++ {
		if a[off+i] != i {
			bad++
		}
	}
	return itoa64(int64(bad))
}
'''


def adversary_sections(rng, vol):
    thorough = vol["rand"] > 20
    ns = [2, 13, 100, 1000, 3000] + ([10000, 30000] if thorough else [])
    R = lambda e: (e, "r")
    return [sec("sort.adversary", "sort", ["i64"], "r0 := advRun(0, int($0))", [R("r0")], [(n,) for n in ns], pre=ADV_PRE),
            sec("sort.adversary-offset", "sort", ["i64", "i64"], "r0 := advPrefix(0, int($0), int($1))", [R("r0")],
                [(n, off) for n in (1000, 3000) for off in (1, 50, 997)], pre=ADV_PRE)]


HEX_FRACS = ["", "0", "4", "8", "c", "1", "f", "7f", "80", "81", "8000000000001", "7ffffffffffff", "67c38bf0f3a52", "fffffffffffff", "0000000000001",
             "fffffffffffff8", "ffffffffffffe8", "00000000000008", "000000000000080000001", "7fffffffffffffffffff", "80000000000000000000",
             "ffffffffffffffffffff", "fffffe", "fffffe8", "fffffe80001", "0000010000008", "aaaaaaaaaaaaaaaaaaaa", "123456789abcdef01234"]


def hexfloat_sections(rng, vol):
    """hexadecimal floating-point literals: 1..21 mantissa digits x every binary exponent around the boundaries of both
    widths (smallest subnormal, normal/subnormal limit, overflow), with discarded bits below / at / above the rounding
    midpoint — the denormalisation and round-to-even paths of atofHex; and the 'x' / 'X' formats of FormatFloat."""
    thorough = vol["rand"] > 20
    exps = list(range(-1160, -1068)) + list(range(-1030, -1014)) + list(range(-240, -142)) + list(range(-132, -120)) + list(range(118, 132)) + list(range(1016, 1028))
    strs = []
    for fi, frac in enumerate(HEX_FRACS):
        for e in exps:
            if not thorough and (e + fi) % 5 and frac not in ("4", "c", "67c38bf0f3a52"):
                continue
            strs.append("0x1%sp%d" % ("." + frac if frac else "", e))
    for head in ("0x.8", "0x.08", "0x3", "0xf.f", "0X1F", "0x1fffffffffffff", "0x1fffffffffffff8", "0x20000000000001", "0x1ffffffffffffff0001", "-0x1.4", "+0x1.c", "0x0.0000000000001",
                 "0x00000000000000000000001.8", "0x1_0.8", "0x10000000000000000000000"):
        for e in exps[::(3 if thorough else 9)]:
            strs.append("%s%s%d" % (head, "P" if head.startswith("0X") else "p", e))
    strs += ["0x1.4p-1075", "0x1.4p-150", "0x1.67c38bf0f3a52p-1029", "0x1p-1075", "0x1.0000000000001p-1075", "0x1p-150", "0x1.000002p-150", "0x1.fffffffffffffp1023", "0x1.fffffffffffff8p1023",
             "0x1.fffffffffffff7p1023", "0x1.fffffep127", "0x1.ffffffp127", "0x1.fffffefp127", "0x1p", "0x1p+", "0x1.p1", "0x.p1", "0xp1", "0x1p1p1", "0x1.8", "0x1e1", "0x1p99999999999", "0x1p-99999999999",
             "0x0p99999999999", "0x1.8p0x1", "0x_1p0", "0x1p_1", "0x1.8_8p0"]
    seen, calls = set(), []
    for st in strs:
        if st not in seen:
            seen.add(st)
            calls += [(st.encode(), 64), (st.encode(), 32)]
    out = [sec("strconv.ParseFloat.hex", "strconv", ["str", "i64"], "r0, r1 := strconv.ParseFloat($0, int($1))", [("math.Float64bits(r0)", "f"), E("r1")], calls)]
    # FormatFloat 'x' / 'X' at the boundaries
    vals = [0, 1, 2, 3, 0x000fffffffffffff, 0x0010000000000000, 0x0010000000000001, 0x000ffffffffffffe, 0x0008000000000000, 0x0000000000000400, 0x7fefffffffffffff, 0x7fe0000000000000,
            0x3ff0000000000000, 0x3ff8000000000000, 0x3ff0000000000001, 0x3fffffffffffffff, 0x3ff7ffffffffffff, 0x3ff8000000000001, 0x36a0000000000000, 0x3690000000000000, 0x36a8000000000000,
            0x380fffffe0000000, 0x3810000000000000, 0x47efffffe0000000, 0x47efffffefffffff, 0x47effffff0000000, 0x7ff0000000000000, 0x7ff8000000000001, 0x4024000000000000, 0x3fb999999999999a]
    vals += [rng.getrandbits(64) for _ in range(40 if thorough else 10)]
    fcalls = []
    for v in vals:
        for sign in (0, 1 << 63):
            for fmt in ("x", "X"):
                for prec in (-1, 0, 1, 2, 5, 12, 13, 14, 20):
                    for bs in (64, 32):
                        if thorough or prec in (-1, 0, 1, 13) or (v + prec) % 3 == 0:
                            fcalls.append((v | sign, ord(fmt), prec, bs))
    out.append(sec("strconv.FormatFloat.hex", "strconv", ["f64", "u64", "i64", "i64"], "r0 := strconv.FormatFloat($0, $1, int($2), int($3))", [S("hx(r0)")], fcalls, casts=[None, "byte", None, None]))
    return out


def all_scenarios(rng, vol):
    return (base64_sections(rng, vol) + base32_sections(rng, vol) + hex_sections(rng, vol) + utf8_sections(rng, vol) + binary_sections(rng, vol) +
            hash_sections(rng, vol) + sort_sections(rng, vol) + container_sections(rng, vol) + textio_sections(rng, vol) + size_sections(rng, vol) + adversary_sections(rng, vol) + hexfloat_sections(rng, vol))
