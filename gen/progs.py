"""gen/progs.py -- type-directed random program generator (python3 stdlib only).

The generated text is a Go `package main` that is also a WaGo (`*.wa.go`) program: the same
text is run through Wa (api.RunCode) and through `go run`; property C01 says both print the same.

API
    gen_program(rng, size='small'|'medium'|'large', features=None, stream='safe'|'probe') -> Program
    Program.render_go() -> str       the .wa.go / Go text
    Program.features -> set[str]     feature names used
    Program.stmt_groups -> [Group]   top-level statement groups (unit of shrinking)
    shrink(program, still_fails) -> Program   delta debugging (groups, statements, expressions, pool)
    feature_list() -> [str]

Design rules (why every program has a defined, panic-free Go execution)
  * `int`/`uint` are 32-bit in Wa, 64-bit in Go: expressions of these types carry a static bound and
    never leave [-2^30, 2^30] / [0, 2^31); arithmetic happens on explicit-width types.
  * indices are literals below a statically known length or `int(e % len)`; slice/map states of the
    aggregate groups are simulated at generation time (backing array, len, cap-or-unknown, key set).
  * divisors are guarded to be non-zero and (signed) never -1; safe-stream shift counts are < 32 / < 64.
  * no constant sub-expression with two constant operands (Go would fold and may reject on overflow).
  * calls with side effects occur only as whole statements (Go leaves the order of a variable read
    against a call in the same expression unspecified).
  * output only via println of integers, booleans, strings; floats as canonicalised bit patterns.
  * the `safe` stream avoids the trigger predicates of known Wa defects (see gen/findings.py); the
    `probe` stream adds exactly one labelled group (`probe:<name>`) that exercises one of them.
"""
import copy
import re

# ----------------------------------------------------------------------------------------------
# types

INT_T = {  # name -> (bits, signed)
    'uint8': (8, False), 'uint16': (16, False), 'int32': (32, True), 'uint32': (32, False),
    'int64': (64, True), 'uint64': (64, False),
}
INT_NAMES = list(INT_T)
UNSIGNED = [t for t in INT_NAMES if not INT_T[t][1]]
FLOAT_T = ['float32', 'float64']
SHORT = {'uint8': 'u8', 'uint16': 'u16', 'int32': 'i32', 'uint32': 'u32', 'int64': 'i64', 'uint64': 'u64',
         'int': 'n', 'uint': 'un', 'float32': 'f32', 'float64': 'f64', 'bool': 'b', 'string': 's'}
INT_BOUND = 1 << 30        # |value| of every `int` expression stays below this
UINT_BOUND = 1 << 31
POOL_INT_BOUND = 1 << 20   # what an `int`/`uint` pool variable may hold


def trange(t):
    bits, signed = INT_T[t]
    if signed:
        return -(1 << (bits - 1)), (1 << (bits - 1)) - 1
    return 0, (1 << bits) - 1


def regwidth(t):
    return 32 if INT_T[t][0] <= 32 else 64


FEATURES = [
    # expressions
    'int_arith', 'int_bitwise', 'int_divmod', 'int_unary', 'conv_int_int', 'conv_int_float', 'conv_float_int',
    'conv_float_float', 'compare_int', 'compare_float', 'compare_string', 'bool_logic', 'shift', 'shift_mixed_width',
    'shift_signed_count', 'compound_assign', 'incdec', 'parallel_assign', 'float_arith', 'int_small',
    # control
    'if_else', 'for_loop', 'for_nested', 'for_cond_only', 'switch_tag', 'switch_bool', 'switch_string',
    'switch_init', 'break', 'continue', 'labeled_break_continue',
    # functions
    'func_multi_result', 'func_pure_call', 'recursion', 'mutual_recursion', 'func_value', 'func_named_type',
    'closure_capture_mutate', 'closure_counter', 'closure_returning_closure', 'closure_slice',
    'func_variadic',
    # structs
    'struct_basic', 'struct_nested', 'struct_embedded', 'method_ptr_recv', 'method_promoted', 'ptr_to_struct',
    'struct_copy', 'struct_compare', 'struct_return', 'struct_in_slice', 'new_builtin', 'ptr_to_scalar',
    # arrays / slices
    'array_fixed', 'array_copy', 'array_2d', 'array_range', 'slice_make', 'slice_literal', 'slice_append_alias',
    'slice_append_grow', 'slice_append_loop', 'slice_3index', 'slice_reslice', 'slice_copy', 'slice_copy_overlap',
    'slice_of_slices', 'slice_range', 'slice_append_spread',
    # strings
    'str_index', 'str_slice', 'str_concat', 'str_len', 'str_range', 'str_compare', 'str_to_bytes', 'bytes_to_str',
    'str_runes', 'str_multibyte', 'str_append_bytes', 'str_from_rune',
    # maps
    'map_int_key', 'map_string_key', 'map_bool_key', 'map_struct_key', 'map_insert', 'map_overwrite', 'map_lookup',
    'map_comma_ok', 'map_len', 'map_delete', 'map_sorted_iter', 'map_compound_assign', 'map_literal',
    'map_struct_value',
    # interfaces
    'iface_dispatch', 'iface_slice', 'type_assert', 'type_assert_ok', 'type_switch', 'iface_empty',
    'iface_to_iface', 'iface_nil_check', 'iface_named_nonstruct',
    # defer
    'defer_lifo', 'defer_loop_closure', 'defer_named_result', 'defer_arg_eval', 'defer_method',
    # misc
    'globals', 'consts', 'float_bits',
]
PROBES = [
    'probe:shift_ge_width', 'probe:minint_div_neg1', 'probe:map_delete_general', 'probe:value_receiver',
    'probe:array_eq', 'probe:map_range_key_only', 'probe:field_slice_syntax', 'probe:global_int64_init',
    'probe:loopvar_closure', 'probe:nil_map_zero_value', 'probe:range_invalid_utf8', 'probe:fallthrough',
    'probe:eval_order', 'probe:global_uint64_init', 'probe:iface_to_iface_assign', 'probe:string_order_invalid_utf8',
    'probe:assert_fail_string_zero', 'probe:float_to_uint_high', 'probe:map_array_key',
    'probe:method_expr',
]


def feature_list():
    return list(FEATURES) + list(PROBES)


# ----------------------------------------------------------------------------------------------
# expression / statement trees

class E(object):
    """Typed expression. fmt is a template over the kids: '({0} + {1})'. `const`: Go constant
    expression. `atomic`: the node is a safety guard (divisor, index, shift count) -- the shrinker
    may simplify below it but never replace the node itself. `bound`: for int/uint, max |value|."""
    __slots__ = ('ty', 'fmt', 'kids', 'const', 'atomic', 'bound')

    def __init__(self, ty, fmt, kids=(), const=False, atomic=False, bound=None):
        self.ty, self.fmt, self.kids, self.const, self.atomic, self.bound = ty, fmt, list(kids), const, atomic, bound

    def render(self):
        if not self.kids:
            return self.fmt
        return self.fmt.format(*[k.render() for k in self.kids])

    def size(self):
        return 1 + sum(k.size() for k in self.kids)


class S(object):
    """Statement. tmpl is a list of lines; a line '{bK}' is replaced by block K (indented);
    '{K}' inside a line is expression slot K. `keep`: must not be dropped by the shrinker
    (declarations that later statements depend on)."""
    __slots__ = ('tmpl', 'exprs', 'blocks', 'keep')

    def __init__(self, tmpl, exprs=(), blocks=(), keep=False):
        if isinstance(tmpl, str):
            tmpl = tmpl.split('\n')
        self.tmpl, self.exprs, self.blocks, self.keep = tmpl, list(exprs), [list(b) for b in blocks], keep

    def render(self, ind):
        out = []
        pad = '\t' * ind
        for line in self.tmpl:
            m = re.match(r'^\s*\{b(\d+)\}\s*$', line)
            if m:
                for st in self.blocks[int(m.group(1))]:
                    out.extend(st.render(ind + 1 + (len(line) - len(line.lstrip('\t')))))
            else:
                if self.exprs:
                    line = _subst(line, self.exprs)
                out.append(pad + line)
        return out


def _subst(line, exprs):
    def rep(m):
        return exprs[int(m.group(1))].render()
    return re.sub(r'\{(\d+)\}', rep, line)


class Group(object):
    def __init__(self, name, idx):
        self.name = name          # generator kind
        self.idx = idx
        self.features = set()
        self.decls = []           # [(key, text)] top-level declarations this group needs
        self.stmts = []           # [S]
        self.helpers = set()      # names of shared prelude helpers used (documentation only)

    def render(self, ind):
        out = ['\t' * ind + '{ // group %d: %s' % (self.idx, self.name)]
        for st in self.stmts:
            out.extend(st.render(ind + 1))
        out.append('\t' * ind + '}')
        return out


PRELUDE = r'''
func fbits(f float64) uint64 {
	if f != f {
		return 9221120237041090561
	}
	return math.Float64bits(f)
}

func fbits32(f float32) uint32 {
	if f != f {
		return 2143289345
	}
	return math.Float32bits(f)
}

func clampS(f float64) float64 {
	if f != f {
		return 0
	}
	if f > 1000000000 {
		return 1000000000
	}
	if f < -1000000000 {
		return -1000000000
	}
	return f
}

func clampU(f float64) float64 {
	if f != f {
		return 0
	}
	if f > 200 {
		return 200
	}
	if f < 0 {
		return 0
	}
	return f
}

func clampS64(f float64) float64 {
	if f != f {
		return 0
	}
	if f > 9000000000000000000 {
		return 9000000000000000000
	}
	if f < -9000000000000000000 {
		return -9000000000000000000
	}
	return f
}

func clampP31(f float64) float64 {
	if f != f || f < 0 {
		return 0
	}
	if f > 2147483647 {
		return 2147483647
	}
	return f
}

func hashStr(s string) uint64 {
	var h uint64 = 14695981039346656037
	for i := 0; i < len(s); i++ {
		h ^= uint64(s[i])
		h *= 1099511628211
	}
	return h
}
'''


class Program(object):
    def __init__(self, stream, size):
        self.stream, self.size = stream, size
        self.pool = []            # [(name, type, init literal text)]
        self.stmt_groups = []
        self.seed_note = ''

    @property
    def features(self):
        f = set()
        for g in self.stmt_groups:
            f |= g.features
        return f

    def op_stats(self):
        """Counter of (operator template, result type) over every expression node of the program
        (distribution evidence: which operator x type combinations a run exercised)."""
        import collections
        c = collections.Counter()

        def walk(e):
            if e.kids:
                c[(re.sub(r'\{\d+\}', '_', e.fmt), e.ty)] += 1
                for k in e.kids:
                    walk(k)
        for g in self.stmt_groups:
            for st in _walk_stmts(g.stmts):
                for e in st.exprs:
                    walk(e)
        return c

    def pool_print(self, tag):
        parts = []
        for name, ty, _ in self.pool:
            if ty == 'float64':
                parts.append('fbits(%s)' % name)
            elif ty == 'float32':
                parts.append('fbits32(%s)' % name)
            elif ty == 'string':
                parts.append('len(%s), hashStr(%s)' % (name, name))
            else:
                parts.append(name)
        return 'println("%s", %s)' % (tag, ', '.join(parts)) if parts else 'println("%s")' % tag

    def render_go(self):
        out = ['// generated by gen/progs.py stream=%s size=%s %s' % (self.stream, self.size, self.seed_note),
               'package main', '', 'import "math"', PRELUDE]
        seen = set()
        for g in self.stmt_groups:
            for key, text in g.decls:
                if key in seen:
                    continue
                seen.add(key)
                out.append(text.rstrip('\n'))
                out.append('')
        out.append('func main() {')
        for name, ty, init in self.pool:
            out.append('\tvar %s %s = %s' % (name, ty, init))
        for name, ty, init in self.pool:
            out.append('\t_ = %s' % name)
        out.append('\t' + self.pool_print('#0'))
        for g in self.stmt_groups:
            out.extend(g.render(1))
            out.append('\t' + self.pool_print('#%d' % g.idx))
        out.append('}')
        return '\n'.join(out) + '\n'


# ----------------------------------------------------------------------------------------------
# literals

def boundary_values(t):
    lo, hi = trange(t)
    bits = INT_T[t][0]
    vals = {0, 1, 2, 3, 7, 10, hi, hi - 1, lo, lo + 1, hi // 2, hi // 2 + 1}
    for k in (7, 8, 15, 16, 31, 32, 63):
        if k < bits:
            vals |= {(1 << k) - 1, 1 << k, (1 << k) + 1}
    if lo < 0:
        vals |= {-1, -2, -3, -128, -129, -(1 << 15), -(1 << 15) - 1}
    return sorted(v for v in vals if lo <= v <= hi)


FLOAT_LITS = ['0.5', '1.0', '-1.0', '2.0', '0.1', '-0.25', '3.14159', '1e10', '-1e10', '1e-7', '16777216.0',
              '16777217.0', '1e18', '0.3333333', '255.0', '-128.5', '65535.9', '1024.0', '1e30', '-7.75']
STR_LITS = ['a', 'ab', 'hello', 'Wa', 'xyz', 'go-wa', '0123456789', 'A b\tc', 'q"uote', 'line\\n', 'héllo',
            '世界', 'mixß€z', '\U0001f600k', 'zz', 'M', 'abcabc', ' pad ']


def go_str(s):
    out = ['"']
    for ch in s:
        o = ord(ch)
        if ch == '"':
            out.append('\\"')
        elif ch == '\\':
            out.append('\\\\')
        elif ch == '\t':
            out.append('\\t')
        elif ch == '\n':
            out.append('\\n')
        elif 32 <= o < 127:
            out.append(ch)
        elif o < 0x10000:
            out.append('\\u%04x' % o)
        else:
            out.append('\\U%08x' % o)
    out.append('"')
    return ''.join(out)


class Env(object):
    """What is in scope at a generation point."""

    def __init__(self):
        self.read = {}       # type -> [names]
        self.write = {}      # type -> [names] assignable
        self.small = []      # [(name, bound)] int-typed variables with a static bound (loop counters, lengths)
        self.pure = []       # [(name, [param types], result type)] side-effect free functions
        self.in_loop = 0
        self.labels = []
        self.loop_mult = 1   # product of enclosing loop trip counts

    def child(self):
        e = Env()
        e.read = {k: list(v) for k, v in self.read.items()}
        e.write = {k: list(v) for k, v in self.write.items()}
        e.small = list(self.small)
        e.pure = self.pure
        e.in_loop = self.in_loop
        e.labels = list(self.labels)
        e.loop_mult = self.loop_mult
        return e

    def add(self, ty, name, writable=True):
        self.read.setdefault(ty, []).append(name)
        if writable:
            self.write.setdefault(ty, []).append(name)


class Gen(object):
    def __init__(self, rng, stream, size):
        self.rng, self.stream, self.size = rng, stream, size
        self.feat = set()      # features touched since last reset (moved into the group)
        self.uid = 0
        self.max_depth = {'small': 3, 'medium': 4, 'large': 4}[size]
        self.slices_ok = False   # string slices may split a UTF-8 sequence: never stored in variables

    # ---- helpers
    def fresh(self, p):
        self.uid += 1
        return '%s%d' % (p, self.uid)

    def chance(self, p):
        return self.rng.random() < p

    def pick(self, xs):
        return xs[self.rng.randrange(len(xs))]

    def wpick(self, pairs):
        tot = sum(w for _, w in pairs)
        r = self.rng.random() * tot
        for x, w in pairs:
            r -= w
            if r < 0:
                return x
        return pairs[-1][0]

    # ---- literals
    def int_value(self, t):
        lo, hi = trange(t)
        r = self.rng.random()
        if r < 0.55:
            return self.pick(boundary_values(t))
        if r < 0.8:
            return self.rng.randint(max(lo, -100), min(hi, 100))
        return self.rng.randint(lo, hi)

    def lit(self, t, v=None):
        if t in INT_T:
            if v is None:
                v = self.int_value(t)
            return E(t, '%s(%d)' % (t, v), const=True)
        if t == 'int':
            if v is None:
                v = self.pick([0, 1, 2, 3, 5, 7, 10, 100, 255, 1000, -1, -7, 65535])
            return E(t, '%d' % v if v >= 0 else '(%d)' % v, const=True, bound=abs(v))
        if t == 'uint':
            if v is None:
                v = self.pick([0, 1, 2, 3, 5, 7, 10, 100, 255, 1000, 65535])
            return E(t, 'uint(%d)' % v, const=True, bound=v)
        if t in FLOAT_T:
            return E(t, '%s(%s)' % (t, v if v is not None else self.pick(FLOAT_LITS)), const=True)
        if t == 'bool':
            return E(t, 'true' if (v if v is not None else self.chance(0.5)) else 'false', const=True)
        if t == 'string':
            return E(t, go_str(v if v is not None else self.pick(STR_LITS)), const=True)
        raise ValueError(t)

    def var(self, env, t):
        names = env.read.get(t)
        if not names:
            return None
        n = self.pick(names)
        b = None
        if t == 'int' or t == 'uint':
            b = POOL_INT_BOUND
            for nm, bd in env.small:
                if nm == n:
                    b = bd
        return E(t, n, bound=b)

    def leaf(self, env, t, want_var=False):
        if want_var or self.chance(0.72):
            v = self.var(env, t)
            if v is not None:
                return v
        return self.lit(t)

    def nonconst(self, env, t, e):
        """e, or a variable when e is constant (keeps Go from folding const op const)."""
        if not e.const:
            return e
        v = self.var(env, t)
        if v is not None:
            return v
        # no variable of that type in scope: derive a non-constant from an integer variable
        for u in INT_NAMES:
            x = self.var(env, u)
            if x is None:
                continue
            if t in INT_T or t in FLOAT_T:
                return E(t, '%s({0})' % t, [x])
            if t == 'int':
                return E(t, 'int({0} %% %s(100))' % u, [x], bound=100)
            if t == 'uint':
                return E(t, 'uint(({0} & %s(127)) %% %s(100))' % (u, u), [x], bound=100)
            if t == 'bool':
                return E(t, '({0} != %s(3))' % u, [x])
        return e

    # ---- expressions
    def expr(self, env, t, depth=None):
        if depth is None:
            depth = self.rng.randint(1, self.max_depth)
        if t in INT_T:
            return self.int_expr(env, t, depth)
        if t in ('int', 'uint'):
            return self.small_expr(env, t, depth)
        if t in FLOAT_T:
            return self.float_expr(env, t, depth)
        if t == 'bool':
            return self.bool_expr(env, t, depth)
        if t == 'string':
            return self.str_expr(env, depth)
        raise ValueError(t)

    def pair(self, env, t, depth):
        a = self.expr(env, t, depth - 1)
        b = self.expr(env, t, depth - 1)
        if a.const and b.const:
            if self.chance(0.5):
                a = self.nonconst(env, t, a)
            else:
                b = self.nonconst(env, t, b)
        return a, b

    def divisor(self, env, t, depth):
        """non-zero, and for signed types never -1 (MinInt / -1 traps in Wa: known defect)."""
        signed = INT_T[t][1]
        r = self.rng.random()
        if r < 0.25:
            lo, hi = trange(t)
            while True:
                v = self.int_value(t)
                if v not in (0, -1):
                    return self.lit(t, v)
        e = self.nonconst(env, t, self.expr(env, t, depth - 1))
        if not signed:
            if r < 0.6:
                return E(t, '({0} | %s(1))' % t, [e], atomic=True)
            return E(t, '({0} %% %s(%d) + %s(1))' % (t, self.pick([3, 7, 10, 100, 255]), t), [e], atomic=True)
        if r < 0.5:
            return E(t, '(({0} & %s(%d)) + %s(1))' % (t, self.pick([0xff, 0x7fff, 7]), t), [e], atomic=True)
        if r < 0.75:
            return E(t, '(-(({0} & %s(255)) + %s(2)))' % (t, t), [e], atomic=True)
        return E(t, '(({0} &^ %s(1)) | %s(2))' % (t, t), [e], atomic=True)

    def shift_count(self, env, t, depth):
        """safe stream: count < register width of the shifted type (32 for <=32-bit types, 64 otherwise)."""
        w = regwidth(t)
        r = self.rng.random()
        ct = self.wpick([('uint8', 3), ('uint16', 2), ('uint32', 3), ('uint64', 3), ('uint', 1),
                         ('int32', 1.2), ('int64', 1.2), ('int', 0.6)])
        if ct in INT_T and INT_T[ct][0] != INT_T[t][0]:
            self.feat.add('shift_mixed_width')
        if ct in ('int32', 'int64', 'int'):
            self.feat.add('shift_signed_count')
        if r < 0.3:
            k = self.pick([0, 1, 2, 3, 7, 8, 15, 16, 31, w - 1, INT_T[t][0] - 1, INT_T[t][0] % w])
            k = min(k, w - 1)
            if ct == 'int':
                return E(ct, '%d' % k, const=True, atomic=True, bound=k)
            return E(ct, '%s(%d)' % (ct, k), const=True, atomic=True)
        if ct in ('int', 'uint'):
            e = self.small_expr(env, ct, depth - 1)
        else:
            e = self.expr(env, ct, depth - 1)
        e = self.nonconst(env, ct, e)
        if ct in ('int32', 'int64', 'int') or r < 0.7:
            return E(ct, '({0} & %s)' % (('%s(%d)' % (ct, w - 1)) if ct != 'int' else '%d' % (w - 1)), [e],
                     atomic=True, bound=w)
        return E(ct, '({0} %% %s(%d))' % (ct, w), [e], atomic=True, bound=w)

    def int_expr(self, env, t, depth):
        if depth <= 0:
            return self.leaf(env, t)
        k = self.wpick([('leaf', 10), ('arith', 30), ('bit', 16), ('div', 9), ('shift', 12), ('un', 6),
                        ('conv', 14), ('fconv', 3), ('call', 5 if env.pure else 0), ('len', 2), ('small', 2)])
        if k == 'leaf':
            return self.leaf(env, t)
        if k == 'arith':
            a, b = self.pair(env, t, depth)
            self.feat.add('int_arith')
            return E(t, '({0} %s {1})' % self.pick(['+', '-', '*', '+', '-']), [a, b])
        if k == 'bit':
            a, b = self.pair(env, t, depth)
            self.feat.add('int_bitwise')
            return E(t, '({0} %s {1})' % self.pick(['&', '|', '^', '&^']), [a, b])
        if k == 'div':
            a = self.expr(env, t, depth - 1)
            d = self.divisor(env, t, depth)
            if a.const and d.const:
                a = self.nonconst(env, t, a)
            self.feat.add('int_divmod')
            return E(t, '({0} %s {1})' % self.pick(['/', '%']), [a, d])
        if k == 'shift':
            a = self.expr(env, t, depth - 1)
            c = self.shift_count(env, t, depth)
            if a.const and c.const:
                a = self.nonconst(env, t, a)
            self.feat.add('shift')
            return E(t, '({0} %s {1})' % self.pick(['<<', '>>']), [a, c])
        if k == 'un':
            a = self.nonconst(env, t, self.expr(env, t, depth - 1))
            self.feat.add('int_unary')
            return E(t, '(%s{0})' % self.pick(['-', '^']), [a])
        if k == 'conv':
            src = self.pick([x for x in INT_NAMES if x != t] + ['int'])
            if src == 'int':
                a = self.nonconst(env, src, self.small_expr(env, src, depth - 1))
            else:
                a = self.nonconst(env, src, self.expr(env, src, depth - 1))
            self.feat.add('conv_int_int')
            return E(t, '%s({0})' % t, [a])
        if k == 'fconv':
            a = self.nonconst(env, 'float64', self.float_expr(env, 'float64', depth - 1))
            self.feat.add('conv_float_int')
            # float -> unsigned stays below 2^31 / 2^63: Wa truncates with the signed instruction (see gen/findings.py)
            if t in ('uint8',):
                return E(t, '%s(clampU({0}))' % t, [a])
            if t == 'int64' and self.chance(0.5):
                return E(t, 'int64(clampS64({0}))', [a])
            if t == 'uint64' and self.chance(0.5):
                return E(t, 'uint64(clampS64({0} * {0}))', [a])
            if t in ('uint32', 'uint64') and self.chance(0.6):
                return E(t, '%s(clampP31({0}))' % t, [a])
            if INT_T[t][1]:
                return E(t, '%s(clampS({0}))' % t, [a])
            return E(t, '%s(clampU({0}) * float64(%s))' % (t, self.pick(['1.0', '2.5', '300.0'])), [a])
        if k == 'call':
            c = self.call_pure(env, t, depth)
            if c is not None:
                return c
            return self.leaf(env, t)
        if k == 'len':
            s = self.var(env, 'string')
            if s is not None:
                self.feat.add('str_len')
                return E(t, '%s(len({0}))' % t, [s])
            return self.leaf(env, t)
        a = self.nonconst(env, 'int', self.small_expr(env, 'int', depth - 1))
        self.feat.add('conv_int_int')
        return E(t, '%s({0})' % t, [a])

    def call_pure(self, env, t, depth):
        cands = [f for f in env.pure if f[2] == t]
        if not cands:
            return None
        name, params, _ = self.pick(cands)
        args = [self.expr(env, p, min(depth - 1, 1)) for p in params]
        self.feat.add('func_pure_call')
        return E(t, name + '(' + ', '.join('{%d}' % i for i in range(len(args))) + ')', args)

    def small_expr(self, env, t, depth):
        """`int` / `uint` expression with a static bound (32-bit in Wa, 64-bit in Go)."""
        self.feat.add('int_small')
        limit = INT_BOUND if t == 'int' else UINT_BOUND
        if depth <= 0 or self.chance(0.3):
            r = self.rng.random()
            if r < 0.35 and env.small and t == 'int':
                n, b = self.pick(env.small)
                return E(t, n, bound=b)
            if r < 0.6:
                v = self.var(env, t)
                if v is not None:
                    return v
            if r < 0.8:
                src = self.pick(['uint8', 'uint16'])
                a = self.nonconst(env, src, self.leaf(env, src, True))
                return E(t, '%s({0})' % t, [a], bound=trange(src)[1])
            return self.lit(t)
        k = self.wpick([('add', 4), ('sub', 3 if t == 'int' else 0), ('mod', 3), ('conv', 4), ('mul', 2), ('len', 1.5)])
        if k in ('add', 'sub'):
            a = self.small_expr(env, t, depth - 1)
            b = self.small_expr(env, t, depth - 1)
            if a.const and b.const:
                a = self.nonconst(env, t, a)
            if a.bound + b.bound < limit and not (a.const and b.const):
                return E(t, '({0} %s {1})' % ('+' if k == 'add' else '-'), [a, b], bound=a.bound + b.bound)
            return a
        if k == 'mod':
            a = self.nonconst(env, t, self.small_expr(env, t, depth - 1))
            m = self.pick([2, 3, 7, 10, 16, 100, 1000])
            return E(t, '({0} %% %s)' % ('%d' % m if t == 'int' else 'uint(%d)' % m), [a], bound=m)
        if k == 'mul':
            a = self.nonconst(env, t, self.small_expr(env, t, depth - 1))
            m = self.pick([2, 3, 5, 10])
            if a.bound * m < limit and not a.const:
                return E(t, '({0} * %s)' % ('%d' % m if t == 'int' else 'uint(%d)' % m), [a], bound=a.bound * m)
            return a
        if k == 'len':
            s = self.var(env, 'string')
            if s is not None:
                self.feat.add('str_len')
                return E(t, ('len({0})' if t == 'int' else 'uint(len({0}))'), [s], bound=1 << 16)
            return self.lit(t)
        # conv: from a wide type through a modulus so that the value is the same for 32- and 64-bit int
        src = self.pick(INT_NAMES)
        a = self.nonconst(env, src, self.expr(env, src, depth - 1))
        self.feat.add('conv_int_int')
        if src in ('uint8', 'uint16'):
            return E(t, '%s({0})' % t, [a], bound=trange(src)[1])
        m = self.pick([7, 100, 1000, 65536])
        if t == 'uint' and INT_T[src][1]:
            return E(t, 'uint(({0} & %s(32767)) %% %s(%d))' % (src, src, m), [a], bound=m)
        return E(t, '%s({0} %% %s(%d))' % (t, src, m), [a], bound=m)

    def float_expr(self, env, t, depth):
        if depth <= 0:
            return self.leaf(env, t)
        k = self.wpick([('leaf', 12), ('arith', 40), ('neg', 5), ('iconv', 18), ('fconv', 10),
                        ('call', 4 if env.pure else 0)])
        if k == 'leaf':
            return self.leaf(env, t)
        if k == 'arith':
            a, b = self.pair(env, t, depth)
            op = self.pick(['+', '-', '*', '/', '+', '*'])
            if op == '/' and b.const:
                b = self.nonconst(env, t, b)
                if b.const:
                    op = '*'
            self.feat.add('float_arith')
            return E(t, '({0} %s {1})' % op, [a, b])
        if k == 'neg':
            a = self.nonconst(env, t, self.float_expr(env, t, depth - 1))
            return E(t, '(-{0})', [a])
        if k == 'iconv':
            src = self.pick(INT_NAMES)
            a = self.nonconst(env, src, self.expr(env, src, depth - 1))
            self.feat.add('conv_int_float')
            return E(t, '%s({0})' % t, [a])
        if k == 'fconv':
            src = 'float32' if t == 'float64' else 'float64'
            a = self.nonconst(env, src, self.float_expr(env, src, depth - 1))
            self.feat.add('conv_float_float')
            return E(t, '%s({0})' % t, [a])
        c = self.call_pure(env, t, depth)
        return c if c is not None else self.leaf(env, t)

    def bool_expr(self, env, t, depth):
        if depth <= 0:
            return self.leaf(env, 'bool')
        k = self.wpick([('cmpi', 40), ('cmpf', 10), ('cmps', 8), ('logic', 18), ('not', 6), ('leaf', 8), ('cmpn', 5)])
        ops = ['==', '!=', '<', '<=', '>', '>=']
        if k == 'cmpi':
            ty = self.pick(INT_NAMES)
            a, b = self.pair(env, ty, depth)
            self.feat.add('compare_int')
            return E('bool', '({0} %s {1})' % self.pick(ops), [a, b])
        if k == 'cmpn':
            a = self.small_expr(env, 'int', depth - 1)
            b = self.small_expr(env, 'int', depth - 1)
            if a.const and b.const:
                a = self.nonconst(env, 'int', a)
            self.feat.add('compare_int')
            return E('bool', '({0} %s {1})' % self.pick(ops), [a, b])
        if k == 'cmpf':
            ty = self.pick(FLOAT_T)
            a, b = self.pair(env, ty, depth)
            self.feat.add('compare_float')
            return E('bool', '({0} %s {1})' % self.pick(ops), [a, b])
        if k == 'cmps':
            a = self.str_expr(env, min(depth - 1, 1))
            b = self.str_expr(env, min(depth - 1, 1))
            if a.const and b.const:
                a = self.nonconst(env, 'string', a)
            self.feat.add('compare_string')
            return E('bool', '({0} %s {1})' % self.pick(ops), [a, b])
        if k == 'logic':
            a = self.bool_expr(env, t, depth - 1)
            b = self.bool_expr(env, t, depth - 1)
            self.feat.add('bool_logic')
            return E('bool', '({0} %s {1})' % self.pick(['&&', '||']), [a, b])
        if k == 'not':
            a = self.bool_expr(env, t, depth - 1)
            self.feat.add('bool_logic')
            return E('bool', '(!{0})', [a])
        return self.leaf(env, 'bool')

    def str_expr(self, env, depth):
        if depth <= 0:
            return self.leaf(env, 'string')
        k = self.wpick([('leaf', 30), ('cat', 35), ('slice', 25 if self.slices_ok else 0)])
        if k == 'cat':
            a = self.str_expr(env, depth - 1)
            b = self.str_expr(env, 0)
            if a.const and b.const:
                a = self.nonconst(env, 'string', a)
            self.feat.add('str_concat')
            return E('string', '({0} + {1})', [a, b])
        if k == 'slice':
            s = self.var(env, 'string')
            if s is None:
                return self.lit('string')
            # string variables are never empty (invariant of every assignment form below)
            i = self.index_of(env, 'len(%s)' % s.fmt, None, depth)
            self.feat.add('str_slice')
            if self.chance(0.5):
                return E('string', '%s[{0}:]' % s.fmt, [i])
            return E('string', '%s[:{0}+1]' % s.fmt, [i])
        return self.leaf(env, 'string')

    def index_of(self, env, len_text, known_len, depth=2):
        """an `int` index in [0, len): literal if the length is known, else `int(e % uintN(len))`."""
        if known_len is not None and self.chance(0.5):
            v = self.rng.randrange(known_len)
            return E('int', '%d' % v, const=True, atomic=True, bound=v)
        src = self.pick(['uint8', 'uint16', 'uint32', 'uint64'])
        e = self.nonconst(env, src, self.expr(env, src, min(depth, 2) - 1))
        lt = '%d' % known_len if known_len is not None else len_text
        return E('int', 'int({0} %% %s(%s))' % (src, lt), [e], atomic=True, bound=1 << 16)

    # ------------------------------------------------------------------------------------------
    # statements over scalar variables

    def target(self, env, types=None):
        ts = [t for t in (types or env.write.keys()) if env.write.get(t)]
        if not ts:
            return None, None
        weights = {'int': 0.5, 'uint': 0.4, 'bool': 0.8, 'string': 0.8, 'float32': 0.8, 'float64': 0.9}
        t = self.wpick([(x, weights.get(x, 1.6)) for x in ts])
        return t, self.pick(env.write[t])

    def small_assign_expr(self, env, t):
        e = self.small_expr(env, t, 2)
        if e.bound is None or e.bound > POOL_INT_BOUND:
            e = E(t, '({0} %% %s)' % ('1000' if t == 'int' else 'uint(1000)'), [self.nonconst(env, t, e)], bound=1000)
        return e

    def assign_stmt(self, env):
        t, v = self.target(env)
        if t is None:
            return S('_ = 0')
        if t in ('int', 'uint'):
            return S('%s = {0}' % v, [self.small_assign_expr(env, t)])
        r = self.rng.random()
        if t in INT_T:
            if r < 0.38:
                return S('%s = {0}' % v, [self.expr(env, t)])
            if r < 0.72:
                self.feat.add('compound_assign')
                op = self.pick(['+', '-', '*', '&', '|', '^', '&^', '/', '%', '<<', '>>', '+', '-', '*', '^'])
                if op in ('/', '%'):
                    self.feat.add('int_divmod')
                    return S('%s %s= {0}' % (v, op), [self.divisor(env, t, 2)])
                if op in ('<<', '>>'):
                    self.feat.add('shift')
                    return S('%s %s= {0}' % (v, op), [self.shift_count(env, t, 2)])
                return S('%s %s= {0}' % (v, op), [self.expr(env, t, self.rng.randint(0, 2))])
            if r < 0.8:
                self.feat.add('incdec')
                return S('%s%s' % (v, self.pick(['++', '--'])))
            others = [x for x in env.write[t] if x != v]
            if others and r < 0.9:
                w = self.pick(others)
                self.feat.add('parallel_assign')
                if self.chance(0.5):
                    return S('%s, %s = %s, %s' % (v, w, w, v))
                return S('%s, %s = {0}, {1}' % (v, w), [self.expr(env, t, 2), self.expr(env, t, 2)])
            return S('%s = {0}' % v, [self.expr(env, t)])
        if t in FLOAT_T:
            if r < 0.5:
                return S('%s = {0}' % v, [self.expr(env, t)])
            if r < 0.8:
                self.feat.add('compound_assign')
                op = self.pick(['+', '-', '*', '/'])
                e = self.expr(env, t, self.rng.randint(0, 2))
                if op == '/' and e.const:
                    op = '*'
                return S('%s %s= {0}' % (v, op), [e])
            # renormalise so that the pool does not sit at Inf/NaN for the rest of the program
            src = self.pick(INT_NAMES)
            self.feat.add('conv_int_float')
            a = self.nonconst(env, src, self.expr(env, src, 2))
            return S('%s = %s({0} %% %s(100)) / %s(8)' % (v, t, src, t), [a])
        if t == 'bool':
            return S('%s = {0}' % v, [self.expr(env, 'bool')])
        if t == 'string':
            if r < 0.35 and env.loop_mult <= 12:
                self.feat.add('compound_assign')
                self.feat.add('str_concat')
                return S('%s += {0}' % v, [self.lit('string')])
            if r < 0.5 and env.loop_mult == 1:
                return S(['%s = {0}' % v, 'if len(%s) > 64 {' % v, '\t%s = {1}' % v, '}'], [self.str_expr(env, 2), self.lit('string')])
            # keep it non-empty and short
            return S('%s = {0}' % v, [self.lit('string')])
        return S('_ = 0')

    def print_stmt(self, env, tag):
        n = self.rng.randint(1, 3)
        es = []
        for _ in range(n):
            t = self.wpick([(x, 2) for x in INT_NAMES] + [('bool', 2), ('string', 1.5), ('int', 1), ('float64', 1)])
            if t == 'float64':
                self.feat.add('float_bits')
                es.append(E('uint64', 'fbits({0})', [self.expr(env, t, 2)]))
            elif t == 'int':
                es.append(self.small_expr(env, t, 2))
            else:
                es.append(self.expr(env, t, 2))
        return S('println("%s", %s)' % (tag, ', '.join('{%d}' % i for i in range(n))), es)

    def block(self, env, budget, depth):
        out = []
        while budget > 0:
            st, cost = self.stmt(env, budget, depth)
            out.append(st)
            budget -= cost
        return out

    def stmt(self, env, budget, depth):
        """returns (S, cost)"""
        if depth <= 0 or budget < 3:
            k = self.wpick([('assign', 8), ('print', 1.5)])
        else:
            k = self.wpick([('assign', 9), ('print', 1.2), ('if', 3.5), ('for', 3), ('switch', 2.2),
                            ('brk', 2.0 if env.in_loop else 0), ('while', 0.8)])
        if k == 'assign':
            return self.assign_stmt(env), 1
        if k == 'print':
            return self.print_stmt(env, self.fresh('p')), 1
        if k == 'if':
            self.feat.add('if_else')
            c = self.expr(env, 'bool', 2)
            b = max(1, budget // 3)
            if self.chance(0.55):
                return S(['if {0} {', '{b0}', '} else {', '{b1}', '}'], [c],
                         [self.block(env.child(), b, depth - 1), self.block(env.child(), b, depth - 1)]), 2 * b + 1
            if self.chance(0.3):
                c2 = self.expr(env, 'bool', 2)
                return S(['if {0} {', '{b0}', '} else if {1} {', '{b1}', '} else {', '{b2}', '}'], [c, c2],
                         [self.block(env.child(), b, depth - 1), self.block(env.child(), 1, depth - 1),
                          self.block(env.child(), 1, depth - 1)]), b + 3
            return S(['if {0} {', '{b0}', '}'], [c], [self.block(env.child(), b, depth - 1)]), b + 1
        if k == 'for':
            n = self.rng.randint(1, 6 if env.loop_mult * 6 <= 60 else 2)
            if env.loop_mult * n > 120:
                return self.assign_stmt(env), 1
            self.feat.add('for_loop')
            if env.in_loop:
                self.feat.add('for_nested')
            i = self.fresh('i')
            e2 = env.child()
            e2.small.append((i, n))
            e2.in_loop += 1
            e2.loop_mult *= n
            b = max(1, budget // 3)
            label = None
            if self.chance(0.15):
                label = self.fresh('L')
                e2.labels.append(label)
            body = self.block(e2, b, depth - 1)
            form = self.rng.random()
            if label:
                self.feat.add('labeled_break_continue')
                c = self.expr(e2, 'bool', 1)
                body.append(S(['if {0} {', '\t%s %s' % (self.pick(['break', 'continue']), label), '}'], [c], keep=True))
                return S(['%s:' % label, 'for %s := 0; %s < %d; %s++ {' % (i, i, n, i), '{b0}', '}'], [], [body]), b + 2
            if form < 0.2:
                # counting down
                return S(['for %s := %d; %s > 0; %s-- {' % (i, n, i, i), '{b0}', '}'], [], [body]), b + 1
            if form < 0.3:
                return S(['for %s := 0; %s < %d; %s += 2 {' % (i, i, n, i), '{b0}', '}'], [], [body]), b + 1
            return S(['for %s := 0; %s < %d; %s++ {' % (i, i, n, i), '{b0}', '}'], [], [body]), b + 1
        if k == 'while':
            # condition-only loop with an explicit decreasing counter
            n = self.rng.randint(1, 5)
            if env.loop_mult * n > 120:
                return self.assign_stmt(env), 1
            self.feat.add('for_cond_only')
            i = self.fresh('w')
            e2 = env.child()
            e2.small.append((i, n))
            e2.in_loop += 1
            e2.loop_mult *= n
            b = max(1, budget // 3)
            body = [S('%s--' % i, keep=True)] + self.block(e2, b, depth - 1)
            return S(['%s := %d' % (i, n), 'for %s > 0 {' % i, '{b0}', '}'], [], [body]), b + 2
        if k == 'brk':
            c = self.expr(env, 'bool', 2)
            kw = self.pick(['break', 'continue'])
            self.feat.add(kw)
            return S(['if {0} {', '\t' + kw, '}'], [c]), 1
        if k == 'switch':
            return self.switch_stmt(env, budget, depth)
        raise ValueError(k)

    def switch_stmt(self, env, budget, depth):
        r = self.rng.random()
        b = max(1, budget // 4)
        ncase = self.rng.randint(1, 3)
        blocks = [self.block_noloopctl(env, b, depth - 1) for _ in range(ncase + 1)]
        lines, exprs = [], []
        if r < 0.45:
            self.feat.add('switch_tag')
            t = self.pick(INT_NAMES)
            m = self.pick([3, 4, 5, 8])
            tag = self.nonconst(env, t, self.expr(env, t, 2))
            exprs.append(tag)
            if self.chance(0.3):
                self.feat.add('switch_init')
                x = self.fresh('sw')
                lines.append('switch %s := {0} %% %s(%d); %s {' % (x, t, m, x))
            else:
                lines.append('switch {0} %% %s(%d) {' % (t, m))
            vals = list(range(m)) if not INT_T[t][1] else list(range(-m + 1, m))
            self.rng.shuffle(vals)
            pos = 0
            for ci in range(ncase):
                k = 1 if self.chance(0.7) else 2
                vs = vals[pos:pos + k]
                pos += k
                if not vs:
                    vs = [m + ci + 1]
                lines.append('case %s:' % ', '.join('%s(%d)' % (t, v) for v in vs))
                lines.append('{b%d}' % ci)
        elif r < 0.8:
            self.feat.add('switch_bool')
            lines.append('switch {')
            for ci in range(ncase):
                exprs.append(self.expr(env, 'bool', 2))
                lines.append('case {%d}:' % ci)
                lines.append('{b%d}' % ci)
        else:
            self.feat.add('switch_string')
            sv = self.var(env, 'string')
            if sv is None:
                sv = self.lit('string')
            exprs.append(sv if not sv.const else self.lit('string'))
            lines.append('switch {0} {')
            lits = list(STR_LITS)
            self.rng.shuffle(lits)
            for ci in range(ncase):
                lines.append('case %s:' % go_str(lits[ci]))
                lines.append('{b%d}' % ci)
        if self.chance(0.75):
            lines.append('default:')
            lines.append('{b%d}' % ncase)
        lines.append('}')
        return S(lines, exprs, blocks), b * (ncase + 1) + 1

    def block_noloopctl(self, env, budget, depth):
        # `break` inside a switch would leave the switch, which is legal and well-defined in Go;
        # keep it (it is a distinct code path worth covering) but `continue` needs an enclosing loop.
        return self.block(env.child(), budget, depth)

    # ------------------------------------------------------------------------------------------
    # group generators.  Each fills grp.stmts / grp.decls; P is the group's name prefix.

    def budget(self):
        return {'small': 6, 'medium': 10, 'large': 16}[self.size]

    def g_arith(self, grp, env):
        n = self.budget() + 2
        for _ in range(n):
            grp.stmts.append(self.assign_stmt(env))
        grp.stmts.append(self.print_stmt(env, 'a%d' % grp.idx))

    def g_control(self, grp, env):
        grp.stmts.extend(self.block(env.child(), self.budget() * 2, 3))

    def scalar_type(self, floats=True, small=False, strings=False, bools=False):
        c = [(t, 2) for t in INT_NAMES]
        if floats:
            c += [('float64', 1.5), ('float32', 1)]
        if small:
            c += [('int', 0.7)]
        if strings:
            c += [('string', 1.5)]
        if bools:
            c += [('bool', 1)]
        return self.wpick(c)

    def func_env(self, params, pure):
        """environment inside a top-level function: params + one local per scalar type."""
        env = Env()
        env.pure = pure
        lines = []
        have = set()
        for name, t in params:
            if t in ('int', 'uint'):
                env.small.append((name, 1 << 16))     # callers pass bounded values
                env.read.setdefault(t, []).append(name)
            else:
                env.add(t, name)
            have.add(t)
        for t in INT_NAMES + ['float64', 'float32', 'bool', 'string']:
            if t in have and self.chance(0.5):
                continue
            n = self.fresh('l' + SHORT[t])
            lines.append(S(['var %s %s = {0}' % (n, t), '_ = %s' % n], [self.lit(t)], keep=True))
            env.add(t, n)
        n = self.fresh('ln')
        lines.append(S(['var %s int = {0}' % n, '_ = %s' % n], [self.lit('int', self.rng.randint(0, 9))], keep=True))
        env.add('int', n)
        return env, lines

    def render_func(self, name, params, results, body, recv=None):
        ps = ', '.join('%s %s' % (n, t) for n, t in params)
        if isinstance(results, str):
            rs = ' ' + results if results else ''
        else:
            rs = ' (' + ', '.join(results) + ')'
        head = 'func %s%s(%s)%s {' % ('(%s) ' % recv if recv else '', name, ps, rs)
        out = [head]
        for st in body:
            out.extend(st.render(1))
        out.append('}')
        return '\n'.join(out)

    def make_pure_func(self, P, pure, nres=1):
        name = self.fresh(P + 'f')
        params = [(self.fresh('p'), self.scalar_type(small=True, strings=True, bools=True))
                  for _ in range(self.rng.randint(1, 3))]
        env, body = self.func_env(params, pure)
        body.extend(self.block(env, self.rng.randint(2, 5), 2))
        rts = [self.scalar_type(strings=True, bools=True) for _ in range(nres)]
        body.append(S('return ' + ', '.join('{%d}' % i for i in range(nres)), [self.expr(env, t, 2) for t in rts], keep=True))
        return name, params, rts, body

    def bounded_arg(self, env, t):
        """argument expression for a parameter of type t (int/uint params get bounded values)."""
        if t in ('int', 'uint'):
            e = self.small_expr(env, t, 2)
            if e.bound > (1 << 16):
                e = E(t, '({0} %% %s)' % ('1000' if t == 'int' else 'uint(1000)'), [self.nonconst(env, t, e)], bound=1000)
            return e
        return self.expr(env, t, 2)

    def assign_result(self, env, t, name):
        """statement storing local `name` of type t into a pool variable (or printing it)."""
        if t in ('int', 'uint'):
            return None
        ws = env.write.get(t)
        if ws and self.chance(0.7):
            return S('%s = %s' % (self.pick(ws), name))
        return None

    def show(self, t, name):
        if t == 'float64':
            return 'fbits(%s)' % name
        if t == 'float32':
            return 'fbits32(%s)' % name
        return name

    def g_funcs(self, grp, env):
        P = 'g%d' % grp.idx
        st = grp.stmts
        pure = list(env.pure)
        # 1) pure single-result functions, usable in expressions from here on
        for _ in range(self.rng.randint(1, 2)):
            name, params, rts, body = self.make_pure_func(P, pure)
            grp.decls.append((name, self.render_func(name, params, rts[0], body)))
            pure.append((name, [t for _, t in params if True], rts[0]))
            if any(t in ('int', 'uint') for _, t in params):
                pure.pop()      # int params need bounded arguments: called explicitly only
            r = self.fresh('r')
            st.append(S(['%s := %s(%s)' % (r, name, ', '.join('{%d}' % i for i in range(len(params)))),
                         'println("%s", %s)' % (name, self.show(rts[0], r))],
                        [self.bounded_arg(env, t) for _, t in params]))
        env.pure = pure
        # 2) multi-result
        self.feat.add('func_multi_result')
        name, params, rts, body = self.make_pure_func(P, pure, nres=self.rng.randint(2, 3))
        grp.decls.append((name, self.render_func(name, params, rts, body)))
        rs = [self.fresh('m') for _ in rts]
        st.append(S(['%s := %s(%s)' % (', '.join(rs), name, ', '.join('{%d}' % i for i in range(len(params)))),
                     'println("%s", %s)' % (name, ', '.join(self.show(t, r) for t, r in zip(rts, rs)))] +
                    ['_ = %s' % r for r in rs],
                    [self.bounded_arg(env, t) for _, t in params], keep=True))
        for t, r in zip(rts, rs):
            a = self.assign_result(env, t, r)
            if a:
                st.append(a)
        # 3) recursion
        if self.chance(0.8):
            self.feat.add('recursion')
            t = self.scalar_type(floats=False)
            name = self.fresh(P + 'rec')
            fe = Env()
            fe.pure = pure
            fe.add(t, 'acc')
            fe.read.setdefault('int32', []).append('n')
            step = self.nonconst(fe, t, self.expr(fe, t, 2))
            kind = self.pick(['tail', 'nontail', 'tree'])
            if kind == 'tail':
                body = ['if n <= 0 {', '\treturn acc', '}', 'return %s(n-1, %s)' % (name, step.render())]
                depth = self.rng.randint(1, 25)
            elif kind == 'nontail':
                body = ['if n <= 0 {', '\treturn acc', '}',
                        'return %s %s %s(n-1, acc+%s(n))' % (step.render(), self.pick(['+', '^', '-', '*']), name, t)]
                depth = self.rng.randint(1, 25)
            else:
                body = ['if n <= 1 {', '\treturn acc + %s(n)' % t, '}',
                        'return %s(n-1, %s) + %s(n-2, acc)' % (name, step.render(), name)]
                depth = self.rng.randint(2, 11)
            grp.decls.append((name, 'func %s(n int32, acc %s) %s {\n\t%s\n}' % (name, t, t, '\n\t'.join(body))))
            st.append(S('println("%s", %s(%d, {0}))' % (name, name, depth), [self.expr(env, t, 1)]))
        if self.chance(0.5):
            self.feat.add('mutual_recursion')
            t = self.scalar_type(floats=False)
            a, b = self.fresh(P + 'ma'), self.fresh(P + 'mb')
            fe = Env()
            fe.pure = pure
            fe.add(t, 'x')
            fe.read.setdefault('int32', []).append('n')
            e1 = self.nonconst(fe, t, self.expr(fe, t, 2)).render()
            e2 = self.nonconst(fe, t, self.expr(fe, t, 2)).render()
            grp.decls.append((a, 'func %s(n int32, x %s) %s {\n\tif n <= 0 {\n\t\treturn x\n\t}\n\treturn %s(n-1, %s)\n}\n\n'
                              'func %s(n int32, x %s) %s {\n\tif n <= 0 {\n\t\treturn x + %s(1)\n\t}\n\treturn %s(n-2, %s)\n}'
                              % (a, t, t, b, e1, b, t, t, t, a, e2)))
            st.append(S('println("%s", %s(%d, {0}))' % (a, a, self.rng.randint(0, 20)), [self.expr(env, t, 1)]))
        # 4) function values / named function types / higher order
        if self.chance(0.8):
            self.feat.add('func_value')
            cands = [f for f in pure if f[0].startswith(P)]
            if cands:
                fname, pts, rt = self.pick(cands)
                sig = 'func(%s) %s' % (', '.join(pts), rt)
                fv = self.fresh('fv')
                if self.chance(0.5):
                    self.feat.add('func_named_type')
                    tn = self.fresh(P.upper() + 'F')
                    ap = self.fresh(P + 'apply')
                    grp.decls.append((tn, 'type %s %s' % (tn, sig)))
                    grp.decls.append((ap, 'func %s(f %s, %s) %s {\n\treturn f(%s)\n}' % (
                        ap, tn, ', '.join('a%d %s' % (i, t) for i, t in enumerate(pts)), rt,
                        ', '.join('a%d' % i for i in range(len(pts))))))
                    st.append(S(['var %s %s = %s' % (fv, tn, fname),
                                 'println("%s", %s)' % (fv, self.show(rt, '%s(%s, %s)' % (
                                     ap, fv, ', '.join('{%d}' % i for i in range(len(pts))))))],
                                [self.expr(env, t, 1) for t in pts]))
                else:
                    st.append(S(['var %s %s = %s' % (fv, sig, fname),
                                 'println("%s", %s)' % (fv, self.show(rt, '%s(%s)' % (
                                     fv, ', '.join('{%d}' % i for i in range(len(pts))))))],
                                [self.expr(env, t, 1) for t in pts]))
        if self.chance(0.5):
            self.feat.add('func_variadic')
            t = self.scalar_type(floats=False)
            name = self.fresh(P + 'var')
            grp.decls.append((name, 'func %s(k %s, xs ...%s) %s {\n\tfor i, x := range xs {\n\t\tk = k*%s(31) + x + %s(i)\n\t}\n'
                              '\treturn k + %s(len(xs))\n}' % (name, t, t, t, t, t, t)))
            n = self.rng.randint(0, 4)
            st.append(S('println("%s", %s(%s))' % (name, name, ', '.join('{%d}' % i for i in range(n + 1))),
                        [self.expr(env, t, 1) for _ in range(n + 1)]))

    def g_closures(self, grp, env):
        st = grp.stmts
        # 1) closure capturing and mutating pool variables; variable mutated after capture
        self.feat.add('closure_capture_mutate')
        t = self.scalar_type(floats=False)
        cap = self.pick(env.write[t])
        c = self.fresh('cl')
        cnt = self.fresh('cnt')
        ce = env.child()
        ce.add(t, 'd')
        body = self.block(ce, self.rng.randint(1, 4), 1)
        ret = self.expr(ce, t, 2)
        st.append(S(['%s := 0' % cnt, '%s := func(d %s) %s {' % (c, t, t), '\t%s++' % cnt, '\t%s += d' % cap, '{b0}',
                     '\treturn {0}', '}', '_ = %s' % c], [ret], [body], keep=True))
        for _ in range(self.rng.randint(2, 4)):
            r = self.fresh('r')
            st.append(S(['%s := %s({0})' % (r, c), 'println("%s", %s, %s, %s)' % (c, r, cnt, cap)], [self.expr(env, t, 1)]))
            st.append(self.assign_stmt(env))
            if self.chance(0.5):
                st.append(S('%s %s= {0}' % (cap, self.pick(['+', '*', '^', '-'])), [self.expr(env, t, 1)]))
        # 2) counter factory: two independent instances
        if self.chance(0.8):
            self.feat.add('closure_counter')
            self.feat.add('closure_returning_closure')
            t2 = self.scalar_type(floats=False)
            mk = self.fresh('mk')
            a, b = self.fresh('ca'), self.fresh('cb')
            fe = Env()
            fe.pure = env.pure
            fe.add(t2, 'c')
            fe.add(t2, 'step')
            upd = self.nonconst(fe, t2, self.expr(fe, t2, 2))
            # the factory is either a top-level function or a func literal nested in main (the nested form made
            # the back end abort until fix c6e0763, gen/findings.py #13)
            if self.chance(0.5):
                st.append(S(['%s := func(step %s) func() %s {' % (mk, t2, t2), '\tvar c %s' % t2, '\treturn func() %s {' % t2,
                             '\t\tc = {0}', '\t\tc += step', '\t\treturn c', '\t}', '}',
                             '%s := %s({1})' % (a, mk), '%s := %s({2})' % (b, mk), '_, _ = %s, %s' % (a, b)],
                            [upd, self.expr(env, t2, 1), self.expr(env, t2, 1)], keep=True))
            else:
                mk = 'g%d%s' % (grp.idx, mk)
                grp.decls.append((mk, 'func %s(step %s) func() %s {\n\tvar c %s\n\treturn func() %s {\n\t\tc = %s\n\t\tc += step\n\t\treturn c\n\t}\n}'
                                  % (mk, t2, t2, t2, t2, upd.render())))
                st.append(S(['%s := %s({0})' % (a, mk), '%s := %s({1})' % (b, mk), '_, _ = %s, %s' % (a, b)],
                            [self.expr(env, t2, 1), self.expr(env, t2, 1)], keep=True))
            for _ in range(self.rng.randint(2, 5)):
                w = self.pick([a, b])
                r = self.fresh('r')
                st.append(S(['%s := %s()' % (r, w), 'println("%s", %s)' % (w, r)]))
        # 3) slice of closures built in a loop (copying the loop variable: see gen/findings.py #18)
        if self.chance(0.7):
            self.feat.add('closure_slice')
            t3 = self.scalar_type(floats=False)
            fs = self.fresh('fs')
            n = self.rng.randint(1, 4)
            fe = env.child()
            fe.add(t3, 'j', writable=False)
            fe.add(t3, 'x', writable=False)
            body = self.expr(fe, t3, 2)
            tot = self.pick(env.write[t3])
            st.append(S(['var %s []func(%s) %s' % (fs, t3, t3), 'for i := 0; i < %d; i++ {' % n, '\tj := %s(i)' % t3, '\t_ = j',
                         '\t%s = append(%s, func(x %s) %s {' % (fs, fs, t3, t3), '\t\treturn {0}', '\t})', '}',
                         'for k, f := range %s {' % fs, '\tv := f(%s(k) + {1})' % t3, '\tprintln("%s", k, v)' % fs,
                         '\t%s ^= v' % tot, '}'], [body, self.expr(env, t3, 1)]))

    # ------------------------------------------------------------------------------------------
    # structs

    def struct_fields(self, n, strings=True):
        fs = []
        for i in range(n):
            fs.append(('f%d' % i, self.scalar_type(strings=strings, bools=True)))
        return fs

    def g_structs(self, grp, env):
        P = 'G%d' % grp.idx
        st = grp.stmts
        self.feat |= {'struct_basic', 'struct_nested', 'struct_embedded', 'method_ptr_recv', 'ptr_to_struct'}
        In, Out, Arr = P + 'In', P + 'Out', P + 'Arr'
        inf = self.struct_fields(self.rng.randint(2, 4))
        outf = self.struct_fields(self.rng.randint(1, 3))
        at = self.scalar_type(floats=False)
        alen = self.rng.randint(2, 4)
        # (array / slice typed fields need a named type: `name [N]T` does not parse in WaGo mode, see gen/findings.py)
        decl = ['type %s [%d]%s' % (Arr, alen, at), '', 'type %s struct {' % In]
        decl += ['\t%s %s' % f for f in inf] + ['}', '', 'type %s struct {' % Out, '\t%s' % In]
        decl += ['\tg%s %s' % (f[0][1:], f[1]) for f in outf] + ['\tin %s' % In, '\tarr %s' % Arr, '\tp *%s' % In, '}']
        grp.decls.append((P + 'types', '\n'.join(decl)))
        outf = [('g' + n[1:], t) for n, t in outf]
        # methods on *In (pointer receivers only: value receivers are a known Wa defect)
        menv = Env()
        menv.pure = env.pure
        for n, t in inf:
            if t not in ('int', 'uint'):
                menv.add(t, 'r.' + n)
        mt = self.pick([t for _, t in inf if t in INT_T] or ['int64'])
        menv.add(mt, 'd')
        get, mut = P + 'get', P + 'mut'
        body = self.block(menv, self.rng.randint(1, 3), 1)
        grp.decls.append((P + 'm1', self.render_func('Mut', [('d', mt)], '', body, recv='r *%s' % In)))
        rt = self.scalar_type(floats=False)
        grp.decls.append((P + 'm2', self.render_func(
            'Get', [('d', mt)], rt, [S('return {0}', [self.nonconst(menv, rt, self.expr(menv, rt, 2))])], recv='r *%s' % In)))
        # function taking a struct by value (mutates its copy) and one by pointer; returns a struct
        byv = self.fresh(P.lower() + 'byval')
        fe = Env()
        fe.pure = env.pure
        for n, t in inf:
            if t not in ('int', 'uint'):
                fe.add(t, 'o.' + n)
                fe.add(t, 'o.in.' + n)
        for n, t in outf:
            if t not in ('int', 'uint'):
                fe.add(t, 'o.' + n)
        fe.add(at, 'o.arr[%d]' % self.rng.randrange(alen))
        body = self.block(fe, self.rng.randint(2, 4), 1)
        body.append(S('return o, {0}', [self.expr(fe, rt, 2)]))
        grp.decls.append((byv, self.render_func(byv, [('o', Out)], [Out, rt], body)))
        self.feat |= {'struct_return', 'struct_copy', 'func_multi_result'}

        def dump(v):
            parts = []
            for n, t in inf:
                parts.append(self.show(t, '%s.%s' % (v, n)))
                parts.append(self.show(t, '%s.in.%s' % (v, n)))
            for n, t in outf:
                parts.append(self.show(t, '%s.%s' % (v, n)))
            parts += ['%s.arr[%d]' % (v, i) for i in range(alen)]
            return ', '.join(parts)

        o, q, p = self.fresh('o'), self.fresh('q'), self.fresh('pp')
        inits = []
        exprs = []
        for n, t in inf:
            if self.chance(0.7):
                inits.append('%s: {%d}' % (n, len(exprs)))
                exprs.append(self.bounded_arg(env, t))
        lit_in = '%s{%s}' % (In, ', '.join(inits))
        st.append(S(['var %s %s' % (o, Out), '%s.in = %s' % (o, lit_in), '%s.p = &%s.in' % (o, o), '_ = %s' % o], exprs, keep=True))
        senv = env.child()
        for n, t in inf:
            if t not in ('int', 'uint'):
                senv.add(t, '%s.%s' % (o, n))       # promoted field
                senv.add(t, '%s.in.%s' % (o, n))
                senv.add(t, '%s.p.%s' % (o, n))     # through the pointer: aliases o.in
        for n, t in outf:
            if t not in ('int', 'uint'):
                senv.add(t, '%s.%s' % (o, n))
        for i in range(alen):
            senv.add(at, '%s.arr[%d]' % (o, i))
        for _ in range(self.budget()):
            st.append(self.assign_stmt(senv))
        st.append(S('println("%s", %s)' % (o, dump(o))))
        # method calls: through promotion, on the nested field, through a pointer
        self.feat.add('method_promoted')
        for recv in self.rng.sample(['%s' % o, '%s.in' % o, '%s.p' % o, '%s.%s' % (o, In)], 3):
            st.append(S('%s.Mut({0})' % recv, [self.expr(senv, mt, 2)]))
            st.append(S('println("get", %s.Get({0}))' % recv, [self.expr(senv, mt, 1)]))
        st.append(S('println("%s", %s)' % (o, dump(o))))
        # copy semantics
        r = self.fresh('rv')
        st.append(S(['%s := %s' % (q, o), '%s.arr[0]++' % q, '%s, %s := %s(%s)' % (q, r, byv, q), '%s := &%s' % (p, q),
                     '%s.in.Mut({0})' % p, '%s.p.Mut({1})' % p,
                     'println("%s", %s, %s)' % (q, r, dump(q)), 'println("%s", %s)' % (o, dump(o))],
                    [self.expr(senv, mt, 1), self.expr(senv, mt, 1)], keep=True))
        self.feat.add('struct_compare')
        st.append(S('println("eq", %s.in == %s.in, %s.%s == %s.in, %s.%s != %s.%s)' % (o, q, o, In, o, o, In, q, In)))
        if self.chance(0.7):
            self.feat |= {'struct_in_slice', 'new_builtin'}
            sl, e, np_ = self.fresh('sl'), self.fresh('e'), self.fresh('np')
            st.append(S(['%s := []%s{%s.in, %s.%s}' % (sl, In, o, q, In), '%s = append(%s, %s)' % (sl, sl, lit_in),
                         '%s := &%s[1]' % (e, sl), '%s.Mut({%d})' % (e, len(exprs)), '%s := new(%s)' % (np_, In),
                         '*%s = %s[2]' % (np_, sl), '%s.Mut({%d})' % (np_, len(exprs) + 1),
                         'for i := range %s {' % sl, '\tprintln("%s", i, %s[i].Get({%d}), %s[i] == *%s)' % (sl, sl, len(exprs) + 2, sl, np_), '}'],
                        exprs + [self.expr(senv, mt, 1) for _ in range(3)]))
        if self.chance(0.6):
            self.feat.add('ptr_to_scalar')
            t = self.scalar_type(floats=False)
            v = self.pick(env.write[t])
            ptr = self.fresh('ptr')
            st.append(S(['%s := &%s' % (ptr, v), '*%s %s= {0}' % (ptr, self.pick(['+', '^', '*'])), '*%s++' % ptr, 'println("%s", *%s, %s)' % (ptr, ptr, v)],
                        [self.expr(env, t, 1)]))

    # ------------------------------------------------------------------------------------------
    # arrays

    def g_arrays(self, grp, env):
        st = grp.stmts
        self.feat |= {'array_fixed', 'array_copy', 'array_range'}
        t = self.scalar_type(floats=self.chance(0.2))
        n = self.rng.randint(1, 6)
        a, b = self.fresh('arr'), self.fresh('brr')
        init = [self.expr(env, t, 1) for _ in range(self.rng.randint(0, n))]
        st.append(S(['%s := [%d]%s{%s}' % (a, n, t, ', '.join('{%d}' % i for i in range(len(init)))), '_ = %s' % a], init, keep=True))
        aenv = env.child()
        for _ in range(self.budget() // 2 + 1):
            i = self.index_of(env, None, n)
            if t in FLOAT_T or self.chance(0.5):
                st.append(S('%s[{0}] = {1}' % a, [i, self.expr(env, t, 2)]))
            else:
                st.append(S('%s[{0}] %s= {1}' % (a, self.pick(['+', '-', '*', '^', '|'])), [i, self.expr(env, t, 2)]))
        acc = self.fresh('acc')
        st.append(S(['%s := %s' % (b, a), '%s[{0}] = {1}' % b, 'var %s %s' % (acc, t), 'for i, v := range %s {' % a,
                     '\t%s += v * %s(i+1)' % (acc, t), '}', 'for i := 0; i < len(%s); i++ {' % b, '\t%s -= %s[i]' % (acc, b), '}',
                     'println("%s", len(%s), %s, %s, %s)' % (a, a, self.show(t, acc), self.show(t, a + '[0]'), self.show(t, '%s[%d]' % (b, n - 1)))],
                    [self.index_of(env, None, n), self.expr(env, t, 1)]))
        del aenv
        if self.chance(0.7):
            self.feat.add('array_2d')
            r, c = self.rng.randint(1, 3), self.rng.randint(1, 4)
            m, m2 = self.fresh('mat'), self.fresh('mat')
            t2 = self.scalar_type(floats=False)
            st.append(S(['var %s [%d][%d]%s' % (m, r, c, t2), 'for i := 0; i < %d; i++ {' % r, '\tfor j := 0; j < %d; j++ {' % c,
                         '\t\t%s[i][j] = %s(i*%d+j) + {0}' % (m, t2, c), '\t}', '}', '%s := %s' % (m2, m),
                         '%s[{1}][{2}] ^= {3}' % m2, 'row := %s[{4}]' % m, 'row[0]++',
                         'println("%s", %s[%d][%d], %s[%d][%d], row[0], %s[{4}][0], len(%s), len(%s[0]))' % (m, m, r - 1, c - 1, m2, r - 1, c - 1, m, m, m),
                         'for i := range %s {' % m2, '\tfor _, v := range %s[i] {' % m2, '\t\t{5} += v', '\t}', '}'],
                        [self.expr(env, t2, 1), self.index_of(env, None, r), self.index_of(env, None, c), self.expr(env, t2, 1),
                         E('int', '%d' % self.rng.randrange(r), const=True, atomic=True, bound=r), E(t2, self.pick(env.write[t2]), atomic=True)]))
        if self.chance(0.5):
            # array passed by value to a function, returned modified
            t3 = self.scalar_type(floats=False)
            n3 = self.rng.randint(1, 5)
            tn, fn = 'G%dA' % grp.idx, 'g%darrf' % grp.idx
            grp.decls.append((tn, 'type %s [%d]%s\n\nfunc %s(a %s, k %s) (%s, %s) {\n\tvar s %s\n\tfor i := range a {\n\t\ta[i] = a[i]*k + %s(i)\n\t\ts ^= a[i]\n\t}\n\treturn a, s\n}'
                              % (tn, n3, t3, fn, tn, t3, tn, t3, t3, t3)))
            x, y, s = self.fresh('ax'), self.fresh('ay'), self.fresh('as')
            st.append(S(['var %s %s' % (x, tn), '%s[{0}] = {1}' % x, '%s, %s := %s(%s, {2})' % (y, s, fn, x),
                         'println("%s", %s[0], %s[%d], %s[0], %s[%d], %s)' % (fn, x, x, n3 - 1, y, y, n3 - 1, s)],
                        [self.index_of(env, None, n3), self.expr(env, t3, 1), self.expr(env, t3, 1)]))

    # ------------------------------------------------------------------------------------------
    # slices: the headers (backing array, offset, len, cap-or-unknown) are simulated here, so every
    # index is known to be in range and every observation of aliasing is one the Go spec defines
    # (after growth past capacity the new capacity is implementation-specific: cap=None, and such a
    # slice is pinned with a three-index expression before anything is appended to it again).

    def g_slices(self, grp, env):
        P = 'g%d' % grp.idx
        st = grp.stmts
        t = self.scalar_type(floats=False)
        sv = {}            # name -> [backing, off, len, cap]
        nback = [0]
        tn = 'G%dSl' % grp.idx
        fn = P + 'mod'
        used_fn = [False]

        def newback():
            nback[0] += 1
            return nback[0]

        def ex(d=1):
            return self.expr(env, t, d)

        def idx(n):
            return self.index_of(env, None, n)

        def declare():
            n = self.fresh('s')
            if self.chance(0.55):
                L = self.rng.randint(1, 4)
                C = L + self.rng.randint(0, 4)
                self.feat.add('slice_make')
                mk = 'make([]%s, %d, %d)' % (t, L, C) if C > L or self.chance(0.5) else 'make([]%s, %d)' % (t, L)
                st.append(S(['%s := %s' % (n, mk), '_ = %s' % n, 'for i := range %s {' % n, '\t%s[i] = %s(i)*{0} + {1}' % (n, t), '}'],
                            [self.nonconst(env, t, ex()), ex()], keep=True))
                sv[n] = [newback(), 0, L, C]
            else:
                L = self.rng.randint(1, 5)
                self.feat.add('slice_literal')
                es = [ex() for _ in range(L)]
                st.append(S(['%s := []%s{%s}' % (n, t, ', '.join('{%d}' % i for i in range(L))), '_ = %s' % n], es, keep=True))
                sv[n] = [newback(), 0, L, L]
            return n

        def pin(n):
            self.feat.add('slice_3index')
            st.append(S('%s = %s[:len(%s):len(%s)]' % (n, n, n, n), keep=True))
            sv[n][3] = sv[n][2]

        def show(n):
            b, o, L, C = sv[n]
            capt = ', cap(%s)' % n if C is not None else ''
            acc = self.fresh('sum')
            self.feat.add('slice_range')
            st.append(S(['var %s %s' % (acc, t), 'for i, v := range %s {' % n, '\t%s = %s*%s(3) + v + %s(i)' % (acc, acc, t, t), '}',
                         'println("%s", len(%s)%s, %s[0], %s[%d], %s)' % (n, n, capt, n, n, L - 1, acc)]))

        declare()
        declare()
        nops = self.budget() + 4
        for _ in range(nops):
            names = list(sv)
            s = self.pick(names)
            b, o, L, C = sv[s]
            op = self.wpick([('write', 3), ('append', 4), ('loop', 1.5), ('spread', 1.2), ('reslice', 3), ('copy', 2),
                             ('show', 2), ('two', 1.2), ('call', 1.2), ('declare', 0.8 if len(sv) < 6 else 0), ('alias', 2)])
            if op == 'declare':
                declare()
            elif op == 'write':
                if self.chance(0.5):
                    st.append(S('%s[{0}] = {1}' % s, [idx(L), ex(2)]))
                else:
                    st.append(S('%s[{0}] %s= {1}' % (s, self.pick(['+', '-', '*', '^', '|', '&'])), [idx(L), ex(2)]))
            elif op in ('append', 'alias'):
                if C is None:
                    pin(s)
                    C = L
                k = self.rng.randint(1, 3)
                if op == 'alias' and L < C:
                    k = min(k, C - L)
                es = [ex() for _ in range(k)]
                args = ', '.join('{%d}' % i for i in range(k))
                if self.chance(0.6) and len(sv) < 8:
                    d = self.fresh('s')
                    st.append(S(['%s := append(%s, %s)' % (d, s, args), '_ = %s' % d], es, keep=True))
                else:
                    d = s
                    st.append(S('%s = append(%s, %s)' % (d, s, args), es, keep=True))
                if L + k <= C:
                    self.feat.add('slice_append_alias')
                    sv[d] = [b, o, L + k, C]
                    if d != s:
                        # the classic: a write through one is visible through the other
                        st.append(S(['%s[{0}] = {1}' % d, 'println("alias", %s[%d], %s[%d], len(%s), len(%s))' % (s, L - 1, d, L, s, d)],
                                    [idx(L), ex()]))
                else:
                    self.feat.add('slice_append_grow')
                    sv[d] = [newback(), 0, L + k, None]
                    if d != s:
                        st.append(S(['%s[{0}] = {1}' % d, 'println("grown", %s[0], %s[%d], %s[0], len(%s))' % (s, s, L - 1, d, d)],
                                    [idx(L), ex()]))
            elif op == 'loop':
                if C is None:
                    pin(s)
                    C = L
                n = self.rng.randint(2, 12)
                self.feat.add('slice_append_loop')
                st.append(S(['for i := 0; i < %d; i++ {' % n, '\t%s = append(%s, %s(i)*{0}+{1})' % (s, s, t), '}'],
                            [self.nonconst(env, t, ex()), ex()], keep=True))
                if L + n <= C:
                    sv[s] = [b, o, L + n, C]
                else:
                    self.feat.add('slice_append_grow')
                    sv[s] = [newback(), 0, L + n, None]
            elif op == 'spread':
                if C is None:
                    pin(s)
                    C = L
                u = self.pick(names)
                ul = sv[u][2]
                self.feat.add('slice_append_spread')
                if u == s or (sv[u][0] == b and L + ul <= C):
                    # appending a slice onto its own backing array in place: defined (memmove) but keep it simple
                    u = None
                if u is None:
                    st.append(S('%s = append(%s, []%s{{0}, {1}}...)' % (s, s, t), [ex(), ex()], keep=True))
                    ul = 2
                else:
                    st.append(S('%s = append(%s, %s...)' % (s, s, u), keep=True))
                if L + ul <= C:
                    sv[s] = [b, o, L + ul, C]
                else:
                    sv[s] = [newback(), 0, L + ul, None]
            elif op == 'reslice':
                self.feat.add('slice_reslice')
                d = self.fresh('s') if len(sv) < 8 else s
                top = C if (C is not None and self.chance(0.4)) else L
                lo = self.rng.randrange(0, top)
                hi = self.rng.randint(lo + 1, top)
                if self.chance(0.45):
                    self.feat.add('slice_3index')
                    mx = self.rng.randint(hi, C if C is not None else L)
                    txt = '%s[%d:%d:%d]' % (s, lo, hi, mx)
                    nc = mx - lo
                else:
                    lot = '' if lo == 0 and self.chance(0.5) else '%d' % lo
                    hit = '' if hi == L and self.chance(0.5) else '%d' % hi
                    txt = '%s[%s:%s]' % (s, lot, hit)
                    nc = C - lo if C is not None else None
                if d == s:
                    st.append(S('%s = %s' % (d, txt), keep=True))
                else:
                    st.append(S(['%s := %s' % (d, txt), '_ = %s' % d], keep=True))
                sv[d] = [b, o + lo, hi - lo, nc]
            elif op == 'copy':
                u = self.pick(names)
                self.feat.add('slice_copy')
                if sv[u][0] == b:
                    self.feat.add('slice_copy_overlap')
                a = self.rng.randrange(L)
                c = self.rng.randrange(sv[u][2])
                nn = self.fresh('n')
                st.append(S(['%s := copy(%s[%d:], %s[%d:])' % (nn, s, a, u, c), 'println("copy", %s, %s[0], %s[%d])' % (nn, s, s, L - 1)]))
            elif op == 'show':
                show(s)
            elif op == 'two':
                self.feat.add('slice_of_slices')
                u = self.pick(names)
                w = self.pick(names)
                ss = self.fresh('ss')
                inner = self.rng.randint(1, 2)
                src = [s, u, w][inner]
                j = self.rng.randrange(sv[src][2])
                st.append(S(['%s := [][]%s{%s, %s}' % (ss, t, s, u), '%s = append(%s, %s)' % (ss, ss, w),
                             '%s[%d][%d] = {0}' % (ss, inner, j), '%s[0] = append(%s[0][:0:0], {1})' % (ss, ss),
                             'println("%s", len(%s), len(%s[0]), len(%s[2]), %s[%d][%d], %s[%d], %s[0][0])' % (ss, ss, ss, ss, ss, inner, j, src, j, ss)],
                            [ex(), ex()]))
            elif op == 'call':
                if not used_fn[0]:
                    used_fn[0] = True
                    grp.decls.append((fn, 'type %s []%s\n\nfunc %s(s %s, v %s) (%s, int) {\n\ts[0] += v\n\ts = append(s, v)\n\ts[len(s)-1]++\n\treturn s, len(s)\n}'
                                      % (tn, t, fn, tn, t, tn)))
                if C is None:
                    pin(s)
                    C = L
                d = self.fresh('s')
                n2 = self.fresh('n')
                st.append(S(['%s, %s := %s(%s, {0})' % (d, n2, fn, s), 'println("%s", %s, len(%s), %s[0], %s[0], %s[%d])' % (fn, n2, s, s, d, d, L),
                             '_ = %s' % d], [ex()], keep=True))
                if L + 1 <= C:
                    self.feat.add('slice_append_alias')
                    sv[d] = [b, o, L + 1, C]
                else:
                    self.feat.add('slice_append_grow')
                    sv[d] = [newback(), 0, L + 1, None]
        for n in list(sv):
            show(n)

    # ------------------------------------------------------------------------------------------
    # strings (string variables are never empty; only valid UTF-8 in the safe stream)

    def g_strings(self, grp, env):
        st = grp.stmts
        s1, s2 = self.fresh('str'), self.fresh('str')
        lits = [x for x in STR_LITS]
        a = self.pick(lits)
        b = self.pick([x for x in lits if any(ord(c) > 127 for c in x)])
        self.feat.add('str_multibyte')
        st.append(S(['%s := %s' % (s1, go_str(a)), '%s := %s + {0}' % (s2, go_str(b)), '_, _ = %s, %s' % (s1, s2)],
                    [self.leaf(env, 'string', True)], keep=True))
        senv = env.child()
        senv.add('string', s1)
        senv.add('string', s2)
        for _ in range(self.budget()):
            s = self.pick([s1, s2] + env.read.get('string', []))
            op = self.wpick([('index', 3), ('slice', 3), ('cat', 2.5), ('cmp', 2), ('range', 2), ('bytes', 2), ('runes', 1),
                             ('assign', 2), ('appendb', 1), ('fromrune', 0.8), ('loopidx', 1.5)])
            if op == 'index':
                self.feat.add('str_index')
                st.append(S('println("idx", %s[{0}], len(%s))' % (s, s), [self.index_of(env, 'len(%s)' % s, None)]))
            elif op == 'slice':
                self.feat.add('str_slice')
                lo, hi, d = self.fresh('lo'), self.fresh('hi'), self.fresh('sub')
                src1, src2 = self.pick(['uint8', 'uint16', 'uint32']), self.pick(['uint8', 'uint32', 'uint64'])
                st.append(S(['%s := int({0} %% %s(len(%s)))' % (lo, src1, s), '%s := %s + int({1} %% %s(len(%s)-%s)) + 1' % (hi, lo, src2, s, lo),
                             '%s := %s[%s:%s]' % (d, s, lo, hi), 'println("sub", %s, %s, len(%s), hashStr(%s), hashStr(%s[:%s]), hashStr(%s[%s:]))' % (lo, hi, d, d, s, hi, s, lo)],
                            [self.nonconst(env, src1, self.expr(env, src1, 1)), self.nonconst(env, src2, self.expr(env, src2, 1))]))
            elif op == 'cat':
                self.feat.add('str_concat')
                w = self.pick([s1, s2])
                if self.chance(0.5):
                    st.append(S('%s = {0} + {1}' % w, [self.leaf(senv, 'string', True), self.str_expr(senv, 1)]))
                else:
                    st.append(S('%s += {0}' % w, [self.str_expr(senv, 1)]))
                st.append(S(['if len(%s) > 200 {' % w, '\t%s = {0}' % w, '}', 'println("cat", len(%s), hashStr(%s))' % (w, w)], [self.lit('string')]))
            elif op == 'cmp':
                self.feat.add('compare_string')
                self.feat.add('str_compare')
                # ordering only between valid UTF-8 strings (Wa compares rune-wise and stops at an invalid
                # byte: see gen/findings.py); slices may split a sequence and are compared with == / != only
                o = self.str_expr(senv, 2)
                st.append(S('println("cmp", %s == {0}, %s < {0}, %s >= {0}, %s != {0})' % (s, s, s, s), [o]))
                self.slices_ok = True
                o = self.str_expr(senv, 2)
                self.slices_ok = False
                st.append(S('println("cmpeq", %s == {0}, %s != {0})' % (s, s), [o]))
            elif op == 'range':
                self.feat.add('str_range')
                h = self.fresh('h')
                st.append(S(['var %s int64' % h, 'for i, r := range %s {' % s, '\t%s = %s*131 + int64(r)*7 + int64(i)' % (h, h), '}',
                             'println("range", %s)' % h]))
                if self.chance(0.4):
                    st.append(S(['for i, r := range %s {' % s, '\tif i > 6 {', '\t\tbreak', '\t}', '\tprintln("r", i, int64(r))', '}']))
            elif op == 'loopidx':
                self.feat.add('str_index')
                h = self.fresh('h')
                t = self.pick(['uint32', 'uint64', 'uint8'])
                st.append(S(['var %s %s' % (h, t), 'for i := 0; i < len(%s); i++ {' % s, '\t%s = %s*%s(31) + %s(%s[i])' % (h, h, t, t, s), '}',
                             'println("bytes", %s)' % h]))
            elif op == 'bytes':
                self.feat |= {'str_to_bytes', 'bytes_to_str'}
                bs, s3 = self.fresh('bs'), self.fresh('str')
                st.append(S(['%s := []byte(%s)' % (bs, s), '%s[{0}] = {1}' % bs, '%s := string(%s)' % (s3, bs),
                             '%s[0] = 88' % bs, 'println("bytes", len(%s), hashStr(%s), hashStr(%s), %s == %s, hashStr(string(%s)))' % (bs, s3, s, s3, s, bs)],
                            [self.index_of(env, 'len(%s)' % bs, None), self.pick([self.lit('uint8', 65 + self.rng.randrange(26)), self.expr(env, 'uint8', 1)])]))
            elif op == 'appendb':
                self.feat.add('str_append_bytes')
                bs = self.fresh('bs')
                st.append(S(['%s := []byte({0})' % bs, '%s = append(%s, %s...)' % (bs, bs, s), '%s = append(%s, {1})' % (bs, bs),
                             'println("appendb", len(%s), hashStr(string(%s)))' % (bs, bs)], [self.lit('string'), self.expr(env, 'uint8', 1)]))
            elif op == 'runes':
                self.feat.add('str_runes')
                rs = self.fresh('rs')
                st.append(S(['%s := []rune(%s)' % (rs, s), 'println("runes", len(%s), int64(%s[0]), int64(%s[len(%s)-1]), hashStr(string(%s)))' % (rs, rs, rs, rs, rs)]))
            elif op == 'fromrune':
                self.feat.add('str_from_rune')
                cp = self.pick([65, 0x7f, 0x80, 0xe9, 0x7ff, 0x800, 0x4e16, 0xffff, 0x10000, 0x1f600])
                st.append(S(['println("fromrune", len(string(rune(%d) + rune({0} %% uint8(8)))), hashStr(string(rune(%d))))' % (cp, cp)],
                            [self.nonconst(env, 'uint8', self.expr(env, 'uint8', 1))]))
            else:
                w = self.pick([s1, s2])
                st.append(S('%s = {0}' % w, [self.pick([self.lit('string'), self.leaf(senv, 'string', True)])]))
        ws = env.write.get('string')
        if ws:
            w = self.pick(ws)
            st.append(S(['if len(%s) < 40 {' % s1, '\t%s = %s + {0}' % (w, s1), '} else {', '\t%s = {0}' % w, '}'], [self.lit('string')]))

    # ------------------------------------------------------------------------------------------
    # maps: the key set is simulated (keys are literals from a small universe), so the safe stream
    # can restrict `delete` to cases the known defect (removing a node with two children) cannot reach:
    # absent key, map with <= 2 entries, or (integer keys) the smallest/largest key.

    def g_maps(self, grp, env, general_delete=False):
        P = 'G%d' % grp.idx
        st = grp.stmts
        kk = self.wpick([('int', 4), ('string', 3), ('bool', 1.2), ('struct', 2.2)])
        self.feat.add('map_%s_key' % kk)
        if kk == 'int':
            kt = self.pick(INT_NAMES)
            uni = self.rng.sample(boundary_values(kt), 5) + [self.int_value(kt) for _ in range(3)]
            uni = sorted(set(uni))
            klit = lambda v: '%s(%d)' % (kt, v)
            less = lambda a, b: '%s < %s' % (a, b)
            kshow = lambda k: k
        elif kk == 'string':
            kt = 'string'
            uni = self.rng.sample(STR_LITS, 7)
            klit = go_str
            less = lambda a, b: '%s < %s' % (a, b)
            kshow = lambda k: k
        elif kk == 'bool':
            kt = 'bool'
            uni = [False, True]
            klit = lambda v: 'true' if v else 'false'
            less = lambda a, b: '!%s && %s' % (a, b)
            kshow = lambda k: k
        else:
            kt = P + 'K'
            ft = self.pick(['int32', 'uint8', 'int64', 'uint16'])
            grp.decls.append((kt, 'type %s struct {\n\ta %s\n\tb string\n}' % (kt, ft)))
            uni = [(self.pick(boundary_values(ft)[:6]), self.pick(['x', 'y', 'k€', ''])) for _ in range(6)]
            uni = sorted(set(uni))
            klit = lambda v: '%s{%s(%d), %s}' % (kt, ft, v[0], go_str(v[1]))
            less = lambda a, b: '%s.a < %s.a || (%s.a == %s.a && %s.b < %s.b)' % (a, b, a, b, a, b)
            kshow = lambda k: '%s.a, %s.b' % (k, k)
        vk = self.wpick([('int', 5), ('string', 2), ('bool', 1), ('struct', 1.5)])
        if vk == 'int':
            vt = self.pick(INT_NAMES)
            vshow = lambda v: v
            vexpr = lambda: self.expr(env, vt, 2)
        elif vk == 'string':
            vt = 'string'
            vshow = lambda v: v
            vexpr = lambda: self.str_expr(env, 1)
        elif vk == 'bool':
            vt = 'bool'
            vshow = lambda v: v
            vexpr = lambda: self.expr(env, 'bool', 2)
        else:
            self.feat.add('map_struct_value')
            vt = P + 'V'
            vft = self.pick(INT_NAMES)
            grp.decls.append((vt, 'type %s struct {\n\tx %s\n\ts string\n\tok bool\n}' % (vt, vft)))
            vshow = lambda v: '%s.x, %s.s, %s.ok' % (v, v, v)
            vexpr = lambda: E(vt, vt + '{{{0}, {1}, {2}}}', [self.expr(env, vft, 2), self.str_expr(env, 1), self.expr(env, 'bool', 1)])
        m = self.fresh('m')
        keys = set()
        if self.chance(0.4):
            self.feat.add('map_literal')
            init = self.rng.sample(uni, min(len(uni), self.rng.randint(1, 3)))
            es = [vexpr() for _ in init]
            st.append(S(['%s := map[%s]%s{%s}' % (m, kt, vt, ', '.join('%s: {%d}' % (klit(k), i) for i, k in enumerate(init))), '_ = %s' % m], es, keep=True))
            keys |= set(init)
        else:
            mk = 'make(map[%s]%s)' % (kt, vt) if self.chance(0.5) else 'map[%s]%s{}' % (kt, vt)
            st.append(S(['%s := %s' % (m, mk), '_ = %s' % m], keep=True))

        def sorted_iter():
            self.feat.add('map_sorted_iter')
            ks = self.fresh('ks')
            st.append(S(['%s := []%s{}' % (ks, kt), 'for k, v := range %s {' % m, '\t_ = v', '\t%s = append(%s, k)' % (ks, ks), '}',
                         'for i := 1; i < len(%s); i++ {' % ks, '\tfor j := i; j > 0 && (%s); j-- {' % less('%s[j]' % ks, '%s[j-1]' % ks),
                         '\t\t%s[j], %s[j-1] = %s[j-1], %s[j]' % (ks, ks, ks, ks), '\t}', '}',
                         'for _, k := range %s {' % ks, '\tv := %s[k]' % m, '\tprintln("kv", %s, %s)' % (kshow('k'), vshow('v')), '}']))

        for _ in range(self.budget() + 4):
            op = self.wpick([('set', 6), ('cmp', 2 if vk == 'int' else 0), ('get', 3), ('ok', 3), ('len', 2), ('del', 3), ('iter', 1.5),
                             ('inc', 1.2 if vk == 'int' else 0), ('loopset', 1.0 if kk == 'int' and not general_delete else 0)])
            k = self.pick(uni)
            if op == 'set':
                self.feat.add('map_overwrite' if k in keys else 'map_insert')
                st.append(S('%s[%s] = {0}' % (m, klit(k)), [vexpr()], keep=True))
                keys.add(k)
            elif op == 'cmp':
                self.feat.add('map_compound_assign')
                st.append(S('%s[%s] %s= {0}' % (m, klit(k), self.pick(['+', '-', '*', '^', '|'])), [vexpr()], keep=True))
                keys.add(k)
            elif op == 'inc':
                self.feat.add('map_compound_assign')
                st.append(S('%s[%s]++' % (m, klit(k)), keep=True))
                keys.add(k)
            elif op == 'get':
                self.feat.add('map_lookup')
                v = self.fresh('v')
                st.append(S(['%s := %s[%s]' % (v, m, klit(k)), 'println("get", %s)' % vshow(v)]))
            elif op == 'ok':
                self.feat.add('map_comma_ok')
                v, ok = self.fresh('v'), self.fresh('ok')
                if self.chance(0.5):
                    st.append(S(['%s, %s := %s[%s]' % (v, ok, m, klit(k)), 'println("ok", %s, %s)' % (vshow(v), ok)]))
                else:
                    st.append(S(['if %s, %s := %s[%s]; %s {' % (v, ok, m, klit(k), ok), '\tprintln("has", %s)' % vshow(v), '} else {',
                                 '\tprintln("hasnot", %s)' % vshow(v), '}']))
            elif op == 'len':
                self.feat.add('map_len')
                st.append(S('println("len", len(%s))' % m))
            elif op == 'del':
                safe = (k not in keys) or len(keys) <= 2 or (kk == 'int' and k in (min(keys), max(keys)))
                if not safe and not general_delete:
                    cands = [x for x in uni if x not in keys]
                    if kk == 'int':
                        cands += [min(keys), max(keys)]
                    if not cands:
                        continue
                    k = self.pick(cands)
                self.feat.add('map_delete')
                st.append(S(['delete(%s, %s)' % (m, klit(k)), 'println("del", len(%s))' % m], keep=True))
                keys.discard(k)
            elif op == 'loopset':
                # keys computed at run time, all inside the universe [base, base+n)
                lo, hi = trange(kt)
                base = self.rng.randint(max(lo, -50), min(hi - 8, 50))
                n = self.rng.randint(2, 6)
                self.feat.add('map_insert')
                st.append(S(['for i := 0; i < %d; i++ {' % n, '\t%s[%s(%d)+%s(i)] = {0}' % (m, kt, base, kt), '}'], [vexpr()], keep=True))
                for i in range(n):
                    keys.add(base + i)
                    if base + i not in uni:
                        uni.append(base + i)
            else:
                sorted_iter()
        st.append(S('println("len", len(%s))' % m))
        sorted_iter()

    # ------------------------------------------------------------------------------------------
    # interfaces

    def g_ifaces(self, grp, env):
        P = 'G%d' % grp.idx
        st = grp.stmts
        self.feat |= {'iface_dispatch', 'iface_slice', 'type_switch', 'type_assert_ok', 'method_ptr_recv'}
        I, N = P + 'Shape', P + 'Namer'
        rt = self.pick(['int64', 'uint32', 'int32', 'uint64'])
        decl = ['type %s interface {' % I, '\tArea(k %s) %s' % (rt, rt), '\tName() string', '\tScale(k %s)' % rt, '}', '',
                'type %s interface {' % N, '\tName() string', '}', '']
        impls = []
        nimpl = self.rng.randint(2, 3)
        for i in range(nimpl):
            tn = '%sT%d' % (P, i)
            if i == 2 or (i == 1 and self.chance(0.25)):
                # named non-struct type
                self.feat.add('iface_named_nonstruct')
                bt = self.pick(['int32', 'uint16', 'int64', 'uint8'])
                decl += ['type %s %s' % (tn, bt), '']
                fe = Env()
                fe.pure = env.pure
                fe.add(rt, 'k')
                area = E(rt, '%s(*r)' % rt)
                body = self.nonconst(fe, rt, self.expr(fe, rt, 2))
                decl += ['func (r *%s) Area(k %s) %s {' % (tn, rt, rt), '\treturn %s %s %s' % (area.render(), self.pick(['+', '^', '*']), body.render()), '}', '',
                         'func (r *%s) Name() string {' % tn, '\treturn %s' % go_str(self.pick(STR_LITS)), '}', '',
                         'func (r *%s) Scale(k %s) {' % (tn, rt), '\t*r = *r*%s(3) + %s(k)' % (tn, tn), '}', '']
                impls.append((tn, 'named', bt, None))
            else:
                fields = [('f%d' % j, self.scalar_type(floats=False)) for j in range(self.rng.randint(1, 3))]
                decl += ['type %s struct {' % tn] + ['\t%s %s' % f for f in fields] + ['\ttag string', '}', '']
                fe = Env()
                fe.pure = env.pure
                fe.add(rt, 'k')
                for n, t in fields:
                    fe.add(t, 'r.' + n)
                fe.add('string', 'r.tag')
                area = self.nonconst(fe, rt, self.expr(fe, rt, 3))
                sc = self.block(fe, self.rng.randint(1, 3), 1)
                decl += ['func (r *%s) Area(k %s) %s {' % (tn, rt, rt), '\treturn %s' % area.render(), '}', '',
                         'func (r *%s) Name() string {' % tn, '\treturn r.tag + %s' % go_str(self.pick(STR_LITS)), '}', '',
                         self.render_func('Scale', [('k', rt)], '', sc, recv='r *%s' % tn), '']
                impls.append((tn, 'struct', fields, None))
        grp.decls.append((P + 'iface', '\n'.join(decl)))
        vals = []
        names = []
        lines = []
        exprs = []
        for tn, kind, info, _ in impls:
            v = self.fresh('iv')
            names.append(v)
            if kind == 'named':
                lines.append('%s := %s({%d})' % (v, tn, len(exprs)))
                exprs.append(self.expr(env, info, 1))
            else:
                parts = []
                for n, t in info:
                    parts.append('%s: {%d}' % (n, len(exprs)))
                    exprs.append(self.expr(env, t, 1))
                parts.append('tag: %s' % go_str(self.pick(['t', 'tag', 'é'])))
                lines.append('%s := %s{%s}' % (v, tn, ', '.join(parts)))
        sh = self.fresh('shapes')
        order = [self.rng.randrange(nimpl) for _ in range(self.rng.randint(2, 5))]
        lines.append('%s := []%s{%s}' % (sh, I, ', '.join('&' + names[i] for i in order)))
        lines.append('_ = %s' % sh)
        st.append(S(lines, exprs, keep=True))
        ke = self.expr(env, rt, 1)
        cases = []
        for idx, (tn, kind, info, _) in enumerate(impls):
            if idx == nimpl - 1 and self.chance(0.4):
                continue    # falls to default
            if kind == 'named':
                cases += ['\tcase *%s:' % tn, '\t\tprintln("named", int64(*v))']
            else:
                cases += ['\tcase *%s:' % tn, '\t\tprintln("%s", %s, v.tag)' % (tn, ', '.join('v.' + n for n, _ in info))]
        t0 = impls[0][0]
        st.append(S(['for i, s := range %s {' % sh, '\tprintln("shape", i, s.Name(), s.Area({0}))', '\ts.Scale({1} + %s(i))' % rt,
                     '\tswitch v := s.(type) {'] + cases + ['\tdefault:', '\t\tprintln("other", v.Name())', '\t}',
                     '\tif c, ok := s.(*%s); ok {' % t0, '\t\tprintln("is %s", c.Name(), c == &%s)' % (t0, names[0]), '\t}', '}'],
                    [ke, self.expr(env, rt, 1)]))
        # effects through the interface are visible through the original variables
        shows = []
        for v, (tn, kind, info, _) in zip(names, impls):
            if kind == 'named':
                shows.append('int64(%s)' % v)
            else:
                shows += ['%s.%s' % (v, n) for n, _ in info]
        st.append(S('println("after", %s)' % ', '.join(shows)))
        if self.chance(0.8):
            self.feat |= {'iface_to_iface', 'type_assert', 'iface_nil_check'}
            n, z = self.fresh('nm'), self.fresh('z')
            k = self.rng.randrange(len(order))
            tk = impls[order[k]][0]
            # (Wa rejects the implicit interface-to-interface conversion `var n Namer = shape`: see gen/findings.py)
            st.append(S(['var %s %s = %s[%d].(%s)' % (n, N, sh, k, N), 'var %s %s' % (z, I), 'println("nil", %s == nil, %s != nil)' % (z, n),
                         '%s = %s.(%s)' % (z, n, I), 'println("conv", %s.Name(), %s == nil, %s.(*%s).Area({0}), %s == %s[%d])' % (n, z, z, tk, z, sh, k)],
                        [self.expr(env, rt, 1)]))
        if self.chance(0.8):
            self.feat.add('iface_empty')
            ts = self.rng.sample(INT_NAMES + ['string', 'bool', 'float64'], 4)
            ev = self.fresh('ev')
            lines = ['var %s []interface{}' % ev]
            exprs = []
            for t in ts:
                lines.append('%s = append(%s, {%d})' % (ev, ev, len(exprs)))
                exprs.append(self.nonconst(env, t, self.expr(env, t, 1)))
            lines.append('%s = append(%s, &%s)' % (ev, ev, names[0]))
            lines += ['for i, e := range %s {' % ev, '\tswitch x := e.(type) {']
            for t in self.rng.sample(ts, 3):
                lines += ['\tcase %s:' % t, '\t\tprintln("%s", i, %s)' % (t, self.show(t, 'x'))]
            lines += ['\tcase %s:' % N, '\t\tprintln("namer", i, x.Name())', '\tdefault:', '\t\tprintln("dflt", i)', '\t}', '}']
            st.append(S(lines, exprs))

    # ------------------------------------------------------------------------------------------
    # defer

    def g_defer(self, grp, env):
        P = 'g%d' % grp.idx
        st = grp.stmts
        self.feat |= {'defer_lifo', 'defer_named_result', 'defer_loop_closure', 'defer_arg_eval'}
        t = self.scalar_type(floats=False)
        name = self.fresh(P + 'def')
        fe = Env()
        fe.pure = env.pure
        fe.add(t, 'k')
        fe.add(t, 'r')
        n = self.rng.randint(1, 4)
        e1 = self.nonconst(fe, t, self.expr(fe, t, 2)).render()
        e2 = self.nonconst(fe, t, self.expr(fe, t, 2)).render()
        e3 = self.nonconst(fe, t, self.expr(fe, t, 2)).render()
        body = ['defer func() {', '\tr = %s' % e1, '\tprintln("d-named", r)', '}()',
                'for i := 0; i < %d; i++ {' % n, '\tj := %s(i)' % t, '\tdefer func() {', '\t\tr += j', '\t\tprintln("d-loop", j, r)', '\t}()']
        if self.chance(0.6):
            body += ['\tdefer func(a int, b %s) {' % t, '\t\tprintln("d-arg", a, b)', '\t}(i, k)', '\tk += %s(i + 1)' % t]
        body += ['}', 'defer println("d-eval", k)', 'k = %s' % e2, 'r = %s' % e3]
        if self.chance(0.5):
            body += ['if k > r {', '\tdefer println("d-cond", r)', '\treturn k', '}']
        body += ['return r + %s(1)' % t]
        grp.decls.append((name, 'func %s(k %s) (r %s) {\n\t%s\n}' % (name, t, t, '\n\t'.join(body))))
        for _ in range(self.rng.randint(1, 2)):
            r = self.fresh('dr')
            st.append(S(['%s := %s({0})' % (r, name), 'println("%s", %s)' % (name, r)], [self.expr(env, t, 1)]))
            a = self.assign_result(env, t, r)
            if a:
                st[-1].tmpl.append(a.tmpl[0])
        if self.chance(0.7):
            # defers that mutate state reachable by the caller + deferred method call
            self.feat.add('defer_method')
            tn = P.upper() + 'Box'
            f2 = self.fresh(P + 'dm')
            grp.decls.append((tn, 'type %s struct {\n\tv %s\n\tlog string\n}\n\nfunc (b *%s) Add(d %s, s string) {\n\tb.v = b.v*%s(2) + d\n\tb.log += s\n}\n\n'
                              'func %s(b *%s, d %s) %s {\n\tdefer b.Add(d, "x")\n\tdefer b.Add(d+%s(1), "y")\n\tb.Add(%s(5), "z")\n\tdefer func() {\n\t\tb.log += "w"\n\t}()\n\treturn b.v\n}'
                              % (tn, t, tn, t, t, f2, tn, t, t, t, t)))
            bx = self.fresh('box')
            st.append(S(['%s := &%s{v: {0}}' % (bx, tn), 'bres := %s(%s, {1})' % (f2, bx), 'println("%s", bres, %s.v, %s.log)' % (f2, bx, bx),
                         'println("%s", %s.v, %s.log)' % (f2, bx, bx)], [self.expr(env, t, 1), self.expr(env, t, 1)]))

    # ------------------------------------------------------------------------------------------
    # probe stream: one labelled group per known defect trigger (see gen/findings.py)

    def g_probe(self, grp, env, which):
        P = 'g%d' % grp.idx
        st = grp.stmts
        self.feat.add(which)
        w = which.split(':', 1)[1]
        if w == 'shift_ge_width':
            for _ in range(4):
                t = self.pick(INT_NAMES)
                ct = self.pick(['uint8', 'uint32', 'uint64', 'uint16'])
                cnt = self.pick([regwidth(t), regwidth(t) + 1, 33, 40, 64, 65, 100, 255])
                c, x = self.fresh('c'), self.fresh('x')
                st.append(S(['%s, %s := {0}, %s(%d)' % (x, c, ct, cnt), 'println("shl", %s << %s, "shr", %s >> %s)' % (x, c, x, c)],
                            [self.lit(t)]))
        elif w == 'minint_div_neg1':
            for t in ('int32', 'int64'):
                x, y = self.fresh('x'), self.fresh('y')
                st.append(S(['%s, %s := %s(%d), %s(-1)' % (x, y, t, trange(t)[0], t), 'println("rem", %s %% %s)' % (x, y), 'println("quo", %s / %s)' % (x, y)]))
        elif w == 'map_delete_general':
            m = self.fresh('m')
            n = self.rng.randint(7, 14)
            d = self.pick([4, 4, 2, 6, self.rng.randint(1, n)])     # 4 has two children for every n >= 7
            st.append(S(['%s := map[int32]int32{}' % m, 'for i := 1; i <= %d; i++ {' % n, '\t%s[int32(i)] = int32(i * 10)' % m, '}',
                         'delete(%s, %d)' % (m, d), 'for i := 0; i <= %d; i++ {' % (n + 1), '\tv, ok := %s[int32(i)]' % m, '\tprintln("probe-del", i, v, ok, len(%s))' % m, '}']))
            self.g_maps(grp, env, general_delete=True)
        elif w == 'value_receiver':
            tn = P.upper() + 'Val'
            grp.decls.append((tn, 'type %s struct {\n\ta int32\n\tb int64\n}\n\nfunc (v %s) Sum() int64 {\n\tv.a++\n\treturn int64(v.a) + v.b\n}' % (tn, tn)))
            st.append(S(['pv := %s{3, 4}' % tn, 'println("valrecv", pv.Sum(), pv.a)']))
        elif w == 'array_eq':
            st.append(S(['var pa [3]int32', 'pb := pa', 'pb[1] = {0}', 'println("arreq", pa == pb, pa != pb, pa == pa)'], [self.expr(env, 'int32', 1)]))
        elif w == 'map_range_key_only':
            st.append(S(['pm := map[int32]int32{1: 2, 3: 4}', 'var ps int32', 'for k := range pm {', '\tps += k', '}', 'println("rangekey", ps)']))
        elif w == 'field_slice_syntax':
            tn = P.upper() + 'Fs'
            grp.decls.append((tn, 'type %s struct {\n\ta int32\n\tb []int32\n\tc [2]uint8\n}\n\nfunc %sfs(s []int32, a [2]uint8) int32 {\n\treturn s[0] + int32(a[1])\n}' % (tn, P)))
            st.append(S(['var pf %s' % tn, 'pf.b = append(pf.b, 5)', 'pf.c[1] = 7', 'println("fieldsyntax", %sfs(pf.b, pf.c))' % P]))
        elif w == 'global_int64_init':
            gn = P.upper() + 'Glob'
            v = self.pick([77, 64, 1000000, -77, 32, -33])
            grp.decls.append((gn, 'var %s int64 = %d' % (gn, v)))
            st.append(S('println("global", %s)' % gn))
        elif w == 'global_uint64_init':
            gn = P.upper() + 'GlobU'
            v = self.pick([1 << 63, (1 << 64) - 1, (1 << 63) + 12345])
            grp.decls.append((gn, 'var %s uint64 = %d\n\nvar %sArr = [2]uint64{%d, 1}' % (gn, v, gn, v)))
            st.append(S('println("globalu", %s, %sArr[0], %sArr[1])' % (gn, gn, gn)))
        elif w == 'loopvar_closure':
            st.append(S(['var pfs []func() int', 'for i := 0; i < 3; i++ {', '\tpfs = append(pfs, func() int { return i })', '}',
                         'for _, f := range pfs {', '\tprintln("loopvar", f())', '}']))
        elif w == 'nil_map_zero_value':
            st.append(S(['var pnm map[string]int32', 'println("nilmap", pnm["x"], len(pnm))']))
        elif w == 'range_invalid_utf8':
            st.append(S(['for i, r := range "a\\xffb\\xe4\\xb8c" {', '\tprintln("badutf", i, int64(r))', '}']))
        elif w == 'fallthrough':
            st.append(S(['switch pv := {0} % uint8(3); pv {', 'case 0:', '\tprintln("ft0")', '\tfallthrough', 'case 1:', '\tprintln("ft1")', 'default:', '\tprintln("ftd")', '}'],
                        [self.nonconst(env, 'uint8', self.leaf(env, 'uint8', True))]))
        elif w == 'eval_order':
            st.append(S(['pcnt := 0', 'pinc := func(n int) int {', '\tpcnt += n', '\treturn pcnt', '}', 'pinc(2)', 'println("evalorder", pcnt, pinc(1))']))
        elif w == 'assert_fail_string_zero':
            st.append(S(['var pe interface{} = {0}', 'ps, pok := pe.(string)', 'println("assertstr", len(ps), pok, ps == "")'], [self.nonconst(env, 'uint8', self.leaf(env, 'uint8', True))]))
        elif w == 'float_to_uint_high':
            st.append(S(['pf := float64({0} % uint32(1000)) + 3e9', 'println("f2u32", uint32(pf))', 'println("f2u64", uint64(pf * 4e9))'],
                        [self.nonconst(env, 'uint32', self.leaf(env, 'uint32', True))]))
        elif w == 'map_array_key':
            st.append(S(['pma := map[[2]int32]int32{}', 'pma[[2]int32{1, 2}] = {0}', 'pma[[2]int32{1, 2}]++', 'println("maparr", len(pma), pma[[2]int32{1, 2}])'], [self.expr(env, 'int32', 1)]))
        elif w == 'method_expr':
            tn = P.upper() + 'Me'
            grp.decls.append((tn, 'type %s struct {\n\tv int32\n}\n\nfunc (m *%s) Plus(d int32) int32 {\n\treturn m.v + d\n}' % (tn, tn)))
            st.append(S(['pmf := (*%s).Plus' % tn, 'pmm := &%s{{0}}' % tn, 'println("methodexpr", pmf(pmm, {1}))'], [self.expr(env, 'int32', 1), self.expr(env, 'int32', 1)]))
        elif w == 'iface_to_iface_assign':
            tn = P.upper()
            grp.decls.append((tn + 'ii', 'type %sBig interface {\n\tA() int32\n\tB() int32\n}\n\ntype %sSmall interface {\n\tB() int32\n}\n\n'
                              'type %sImp struct {\n\tv int32\n}\n\nfunc (p *%sImp) A() int32 {\n\treturn p.v\n}\n\nfunc (p *%sImp) B() int32 {\n\treturn p.v + 1\n}' % (tn, tn, tn, tn, tn)))
            st.append(S(['var pbig %sBig = &%sImp{v: 4}' % (tn, tn), 'var psmall %sSmall = pbig' % tn, 'println("ifaceassign", psmall.B())']))
        elif w == 'string_order_invalid_utf8':
            st.append(S(['pso := "h\u00e9llo"', 'for k := 0; k < len(pso); k++ {', '\tprintln("strorder", k, pso < pso[k:], pso[k:] < pso, pso == pso[k:])', '}']))
        else:
            raise ValueError(which)


# group kind -> (method, weight, features it can produce)
KINDS = {
    'arith': ('g_arith', 3.0, ['int_arith', 'int_bitwise', 'int_divmod', 'int_unary', 'conv_int_int', 'conv_int_float',
                               'conv_float_int', 'conv_float_float', 'compare_int', 'compare_float', 'compare_string',
                               'bool_logic', 'shift', 'shift_mixed_width', 'shift_signed_count', 'compound_assign', 'incdec',
                               'parallel_assign', 'float_arith', 'int_small', 'float_bits', 'str_len']),
    'control': ('g_control', 3.0, ['if_else', 'for_loop', 'for_nested', 'for_cond_only', 'switch_tag', 'switch_bool',
                                   'switch_string', 'switch_init', 'break', 'continue', 'labeled_break_continue']),
    'funcs': ('g_funcs', 2.0, ['func_multi_result', 'func_pure_call', 'recursion', 'mutual_recursion', 'func_value',
                               'func_named_type', 'func_variadic']),
    'closures': ('g_closures', 2.0, ['closure_capture_mutate', 'closure_counter', 'closure_returning_closure', 'closure_slice']),
    'structs': ('g_structs', 2.0, ['struct_basic', 'struct_nested', 'struct_embedded', 'method_ptr_recv', 'method_promoted',
                                   'ptr_to_struct', 'struct_copy', 'struct_compare', 'struct_return', 'struct_in_slice',
                                   'new_builtin', 'ptr_to_scalar']),
    'arrays': ('g_arrays', 1.5, ['array_fixed', 'array_copy', 'array_2d', 'array_range']),
    'slices': ('g_slices', 2.5, ['slice_make', 'slice_literal', 'slice_append_alias', 'slice_append_grow', 'slice_append_loop',
                                 'slice_3index', 'slice_reslice', 'slice_copy', 'slice_copy_overlap', 'slice_of_slices',
                                 'slice_range', 'slice_append_spread']),
    'strings': ('g_strings', 2.0, ['str_index', 'str_slice', 'str_concat', 'str_range', 'str_compare', 'str_to_bytes',
                                   'bytes_to_str', 'str_runes', 'str_multibyte', 'str_append_bytes', 'str_from_rune']),
    'maps': ('g_maps', 2.5, ['map_int_key', 'map_string_key', 'map_bool_key', 'map_struct_key', 'map_insert', 'map_overwrite',
                             'map_lookup', 'map_comma_ok', 'map_len', 'map_delete', 'map_sorted_iter', 'map_compound_assign',
                             'map_literal', 'map_struct_value']),
    'ifaces': ('g_ifaces', 2.0, ['iface_dispatch', 'iface_slice', 'type_assert', 'type_assert_ok', 'type_switch', 'iface_empty',
                                 'iface_to_iface', 'iface_nil_check', 'iface_named_nonstruct']),
    'defer': ('g_defer', 1.5, ['defer_lifo', 'defer_loop_closure', 'defer_named_result', 'defer_arg_eval', 'defer_method']),
    'globals': ('g_globals', 0.8, ['globals', 'consts']),
}


def _g_globals(self, grp, env):
    """package-level variables and constants (int64 globals are initialised in main: see gen/findings.py)."""
    P = 'G%d' % grp.idx
    st = grp.stmts
    self.feat |= {'globals', 'consts'}
    decl = []
    genv = env.child()
    consts = []
    for t in self.rng.sample([x for x in INT_NAMES if x != 'int64'] + ['string'], 3):
        n = '%sv%s' % (P, SHORT[t])
        init = self.lit(t)
        if t == 'uint64':
            # a package-level uint64 initialised with a constant >= 2^63 reads as 0 in Wa (see gen/findings.py)
            init = self.lit(t, self.rng.randint(0, (1 << 63) - 1))
        decl.append('var %s %s = %s' % (n, t, init.render()))
        genv.add(t, n)
    n64 = P + 'vi64'
    decl.append('var %s int64' % n64)
    genv.add('int64', n64)
    ct = self.pick(INT_NAMES)
    cn = P + 'C'
    decl.append('const %s %s = %d' % (cn, ct, self.rng.randint(1, 100)))
    decl.append('const %sS = %s' % (P, go_str(self.pick(STR_LITS))))
    an = P + 'arr'
    at = self.pick(['uint16', 'int32', 'uint8'])
    decl.append('var %s [4]%s' % (an, at))
    for i in range(4):
        genv.add(at, '%s[%d]' % (an, i))
    fn = P.lower() + 'bump'
    decl.append('\nfunc %s(d int64) int64 {\n\t%s += d\n\t%s[1]++\n\treturn %s\n}' % (fn, n64, an, n64))
    grp.decls.append((P + 'globals', '\n'.join(decl)))
    st.append(S('%s = {0}' % n64, [self.expr(env, 'int64', 1)], keep=True))
    for _ in range(self.budget()):
        st.append(self.assign_stmt(genv))
        if self.chance(0.25):
            r = self.fresh('gr')
            st.append(S(['%s := %s({0})' % (r, fn), 'println("%s", %s)' % (fn, r)], [self.expr(genv, 'int64', 1)]))
    tv = self.pick(env.write[ct])
    st.append(S(['%s += %s' % (tv, cn), 'println("globals", %s, len(%sS), %s)' % (
        ', '.join(x for t in genv.read for x in genv.read[t] if x.startswith(P) and t not in FLOAT_T), P, tv)]))


Gen.g_globals = _g_globals

SIZES = {'small': (3, 4), 'medium': (6, 8), 'large': (12, 16)}


def make_pool(g, prog):
    env = Env()
    for t in INT_NAMES:
        for k in range(2):
            n = '%s%s' % ('ab'[k], SHORT[t])
            prog.pool.append((n, t, g.lit(t).render()))
            env.add(t, n)
    for t in FLOAT_T:
        for k in range(2):
            n = '%s%s' % ('ab'[k], SHORT[t])
            prog.pool.append((n, t, g.lit(t).render()))
            env.add(t, n)
    for k in range(2):
        n = '%sb' % 'ab'[k]
        prog.pool.append((n, 'bool', g.lit('bool').render()))
        env.add('bool', n)
        n = '%ss' % 'ab'[k]
        prog.pool.append((n, 'string', g.lit('string').render()))
        env.add('string', n)
    prog.pool.append(('an', 'int', g.lit('int').render()))
    env.add('int', 'an')
    prog.pool.append(('aun', 'uint', g.lit('uint').render()))
    env.add('uint', 'aun')
    return env


def gen_program(rng, size='small', features=None, stream='safe'):
    """features: optional iterable of feature names; only group kinds able to produce one of them are used."""
    g = Gen(rng, stream, size)
    prog = Program(stream, size)
    env = make_pool(g, prog)
    kinds = list(KINDS)
    if features:
        fs = set(features)
        kinds = [k for k in kinds if fs & set(KINDS[k][2])] or kinds
    lo, hi = SIZES[size]
    n = rng.randint(lo, hi)
    chosen = []
    for i in range(n):
        # favour kinds not used yet so that a medium program spans most of the feature families
        ws = [(k, KINDS[k][1] * (0.35 if k in chosen else 1.0)) for k in kinds]
        chosen.append(g.wpick(ws))
    probe_at = None
    probe = None
    if stream == 'probe':
        wanted = [f for f in (features or []) if f in PROBES]
        probe = rng.choice(wanted or PROBES)
        probe_at = rng.randint(0, n)
    idx = 0
    for i, k in enumerate(chosen + [None]):
        if probe_at == i:
            idx += 1
            grp = Group('probe', idx)
            g.feat = set()
            g.g_probe(grp, env, probe)
            grp.features = set(g.feat)
            prog.stmt_groups.append(grp)
        if k is None:
            break
        idx += 1
        grp = Group(k, idx)
        g.feat = set()
        getattr(g, KINDS[k][0])(grp, env)
        grp.features = set(g.feat)
        prog.stmt_groups.append(grp)
    return prog


# ----------------------------------------------------------------------------------------------
# shrinking (delta debugging).  Works in place on a deep copy with undo; `still_fails(program)`
# is the caller's oracle (re-render, run both sides, compare) and must return True iff the SAME
# kind of failure is still present.  A candidate that no longer compiles simply is not a failure.

def _ddmin_list(lst, droppable, test, floor=0):
    """remove as many droppable elements of lst (in place) as possible while test() stays True."""
    cand = [x for x in lst if droppable(x)]
    if not cand:
        return
    n = 1            # first try removing everything
    while cand:
        chunk = max(1, (len(cand) + n - 1) // n)
        removed_any = False
        i = 0
        while i < len(cand):
            sub = cand[i:i + chunk]
            ids = set(id(x) for x in sub)
            saved = list(lst)
            lst[:] = [x for x in lst if id(x) not in ids]
            if len(lst) >= floor and test():
                cand = [x for x in cand if id(x) not in ids]
                removed_any = True
            else:
                lst[:] = saved
                i += chunk
        if chunk == 1:
            if not removed_any:
                break
        else:
            n = min(len(cand), n * 2) if cand else 1
            if n < 2:
                n = 2


def _walk_stmts(stmts):
    for s in stmts:
        yield s
        for b in s.blocks:
            for x in _walk_stmts(b):
                yield x


def _simple_lit(ty):
    if ty in INT_T:
        return [E(ty, '%s(1)' % ty, const=True), E(ty, '%s(0)' % ty, const=True)]
    if ty == 'int':
        return [E(ty, '1', const=True, bound=1)]
    if ty == 'uint':
        return [E(ty, 'uint(1)', const=True, bound=1)]
    if ty in FLOAT_T:
        return [E(ty, '%s(1.0)' % ty, const=True)]
    if ty == 'bool':
        return [E(ty, 'true', const=True), E(ty, 'false', const=True)]
    if ty == 'string':
        return [E(ty, '"a"', const=True)]
    return []


def _expr_sites(e, holder, key):
    """yield (holder, key, node) for every node; holder[key] is where the node is stored."""
    yield holder, key, e
    for i, k in enumerate(e.kids):
        for x in _expr_sites(k, e.kids, i):
            yield x


def shrink(program, still_fails, max_tests=250):
    """Delta debugging: drop statement groups, then statements (outer blocks first), then replace
    sub-expressions by a same-typed child or a literal, then drop unreferenced pool variables.
    Returns a new Program (the argument is not modified)."""
    prog = copy.deepcopy(program)
    budget = [max_tests]

    def test():
        if budget[0] <= 0:
            return False
        budget[0] -= 1
        try:
            return bool(still_fails(prog))
        except Exception:
            return False

    # 1) groups
    _ddmin_list(prog.stmt_groups, lambda g: True, test)
    # 1b) top-level declarations of the surviving groups that nothing needs any more
    def drop_decls():
        for g in prog.stmt_groups:
            if g.decls and budget[0] > 0:
                _ddmin_list(g.decls, lambda d: True, test)
    # 2) statements, breadth first over nesting depth
    level = [g.stmts for g in prog.stmt_groups]
    while level and budget[0] > 0:
        nxt = []
        for lst in level:
            _ddmin_list(lst, lambda s: not s.keep, test)
            for s in lst:
                nxt.extend(b for b in s.blocks if b)
        level = nxt
    drop_decls()
    # 3) expressions
    changed = True
    rounds = 0
    while changed and budget[0] > 0 and rounds < 3:
        changed = False
        rounds += 1
        for g in prog.stmt_groups:
            for s in _walk_stmts(g.stmts):
                for i in range(len(s.exprs)):
                    progress = True
                    while progress and budget[0] > 0:
                        progress = False
                        for holder, key, node in list(_expr_sites(s.exprs[i], s.exprs, i)):
                            if node.atomic or not node.kids:
                                continue
                            cands = [k for k in node.kids if k.ty == node.ty and not k.atomic] + _simple_lit(node.ty)
                            for c in cands:
                                holder[key] = c
                                if test():
                                    progress = changed = True
                                    break
                                holder[key] = node
                            if progress:
                                break
    # 4) pool variables nobody references any more
    if budget[0] > 0:
        body = '\n'.join('\n'.join(g.render(1)) + '\n'.join(t for _, t in g.decls) for g in prog.stmt_groups)
        keep = [p for p in prog.pool if re.search(r'\b%s\b' % re.escape(p[0]), body)]
        if len(keep) < len(prog.pool):
            saved = prog.pool
            prog.pool = keep
            if not test():
                prog.pool = saved
    return prog


# ----------------------------------------------------------------------------------------------
# idioms: small classic Go semantics checks with random operands plugged in

IDIOM_FEATURES = [
    'idiom_range_array_copy', 'idiom_range_len_once', 'idiom_method_value', 'idiom_struct_with_slice_map',
    'idiom_map_of_slices', 'idiom_nested_literals', 'idiom_named_basic_types', 'idiom_recursive_closure',
    'idiom_variadic_spread', 'idiom_call_forwarding', 'idiom_shortcircuit_calls', 'idiom_shadowing',
    'idiom_ptr_escape', 'idiom_swap_index', 'idiom_iota', 'idiom_untyped_const', 'idiom_anon_struct',
    'idiom_embedded_ptr', 'idiom_assert_fail_zero', 'idiom_copy_string_bytes', 'idiom_string_build_runes',
    'idiom_ptr_to_ptr', 'idiom_array_of_struct_range', 'idiom_multi_case_typeswitch', 'idiom_closure_over_field',
    'idiom_linked_list', 'idiom_matrix_slices', 'idiom_bytes_compare', 'idiom_nil_slice', 'idiom_iface_equality',
    'idiom_map_of_maps', 'idiom_func_map', 'idiom_rune_parse', 'idiom_elem_method', 'idiom_embedded_iface',
    'idiom_bare_return', 'idiom_slice_of_aggregates', 'idiom_label_break_switch', 'idiom_map_misc_keys',
    'idiom_struct_conversion', 'idiom_alloc_churn', 'idiom_tree_build',
]
FEATURES.extend(IDIOM_FEATURES)


def _g_idioms(self, grp, env):
    P = 'G%d' % grp.idx
    p = 'g%d' % grp.idx
    st = grp.stmts
    n = {'small': 3, 'medium': 5, 'large': 8}[self.size]
    t = self.scalar_type(floats=False)
    T = lambda d=1: self.expr(env, t, d)
    pool_t = self.pick(env.write[t])
    for name in self.rng.sample(IDIOM_FEATURES, n):
        self.feat.add(name)
        k = name[6:]
        u = self.fresh('q')
        if k == 'range_array_copy':
            # range over an array evaluates (copies) the array once; over a slice it sees the writes
            st.append(S(['%sa := [4]%s{{0}, {1}, {2}, {3}}' % (u, t), '%ss := %sa[:]' % (u, u), 'var %sx, %sy %s' % (u, u, t),
                         'for i, v := range %sa {' % u, '\t%sa[3-i] += %s(10)' % (u, t), '\t%sx = %sx*%s(3) + v' % (u, u, t), '}',
                         'for i, v := range %ss {' % u, '\t%ss[3-i] += %s(10)' % (u, t), '\t%sy = %sy*%s(3) + v' % (u, u, t), '}',
                         'println("rangecopy", %sx, %sy, %sa[0], %sa[3])' % (u, u, u, u)], [T(), T(), T(), T()]))
        elif k == 'range_len_once':
            st.append(S(['%ss := []%s{{0}, {1}}' % (u, t), '%sc := 0' % u, 'for i := range %ss {' % u, '\t%ss = append(%ss, %s(i) + {2})' % (u, u, t), '\t%sc++' % u, '}',
                         'println("rangelen", %sc, len(%ss), %ss[len(%ss)-1])' % (u, u, u, u)], [T(), T(), T()]))
        elif k == 'method_value':
            grp.decls.append((P + 'MV', 'type %sMV struct {\n\tv %s\n}\n\nfunc (m *%sMV) Add(d %s) %s {\n\tm.v += d\n\treturn m.v\n}' % (P, t, P, t, t)))
            st.append(S(['%sm := &%sMV{{0}}' % (u, P), '%sf := %sm.Add' % (u, u), '%sr1 := %sf({1})' % (u, u), '%sm.v ^= {2}' % u, '%sr2 := %sf({1})' % (u, u),
                         'println("methodvalue", %sr1, %sr2, %sm.v)' % (u, u, u)], [T(), T(), T()]))
        elif k == 'struct_with_slice_map':
            grp.decls.append((P + 'SM', 'type %sSl []%s\n\ntype %sMp map[string]%s\n\ntype %sSM struct {\n\txs %sSl\n\tm %sMp\n\tn int\n}\n\n'
                              'func (s *%sSM) Put(k string, v %s) {\n\ts.xs = append(s.xs, v)\n\ts.m[k] += v\n\ts.n++\n}' % (P, t, P, t, P, P, P, P, t)))
            st.append(S(['%s := %sSM{m: %sMp{}}' % (u, P, P), '%s.Put("a", {0})' % u, '%s.Put("b", {1})' % u, '%s.Put("a", {2})' % u, '%sc := %s' % (u, u),
                         '%sc.Put("b", {0})' % u, '%sc.xs[0]++' % u,
                         'println("slicemap", %s.n, %sc.n, len(%s.xs), len(%sc.xs), %s.xs[0], %s.m["a"], %s.m["b"], len(%s.m))' % (u, u, u, u, u, u, u, u)], [T(), T(), T()]))
        elif k == 'map_of_slices':
            st.append(S(['%s := map[string][]%s{}' % (u, t), '%s["x"] = append(%s["x"], {0})' % (u, u), '%s["x"] = append(%s["x"], {1})' % (u, u), '%s["y"] = append(%s["y"], {2})' % (u, u),
                         '%s["x"][0] += {2}' % u, 'println("mapslices", len(%s), len(%s["x"]), len(%s["z"]), %s["x"][0], %s["x"][1], %s["y"][0])' % (u, u, u, u, u, u)], [T(), T(), T()]))
        elif k == 'nested_literals':
            grp.decls.append((P + 'NL', 'type %sPt struct {\n\tx, y %s\n}' % (P, t)))
            st.append(S(['%sa := []%sPt{{{0}, {1}}, {x: {2}}}' % (u, P),
                         '%sm := map[string]%sPt{"k": {{1}, {2}}}' % (u, P), '%sp := []*%sPt{{{0}, {2}}, &%sa[1]}' % (u, P, u),
                         '%sr := [...]%s{{0}, {1}, {2}}' % (u, t), '%sp[1].y = {0}' % u,
                         'println("literals", %sa[0].y, %sa[1].x, %sa[1].y, %sm["k"].x, %sm["q"].y, %sp[0].y, len(%sr), %sr[2])' % (u, u, u, u, u, u, u, u)], [T(), T(), T()]))
        elif k == 'named_basic_types':
            bt = t
            grp.decls.append((P + 'NB', 'type %sNum %s\n\ntype %sStr string\n\nfunc (n *%sNum) Twice() %sNum {\n\treturn *n * 2\n}\n\nfunc %sjoin(a %sStr, b string) %sStr {\n\treturn a + %sStr(b)\n}'
                              % (P, bt, P, P, P, p, P, P, P)))
            st.append(S(['%sn := %sNum({0})' % (u, P), '%sn += %sNum({1})' % (u, P), '%sw := %sn.Twice()' % (u, u), '%ss := %sjoin("ab", {2})' % (u, p),
                         'println("named", %s(%sn), %s(%sw), string(%ss), len(%ss), %sn < %sw)' % (bt, u, bt, u, u, u, u, u)], [T(), T(), self.leaf(env, 'string', True)]))
        elif k == 'recursive_closure':
            st.append(S(['var %sf func(n int32, a %s) %s' % (u, t, t), '%sf = func(n int32, a %s) %s {' % (u, t, t), '\tif n <= 0 {', '\t\treturn a', '\t}',
                         '\treturn %sf(n-1, a*%s(3)+%s(n))' % (u, t, t), '}', 'println("recclosure", %sf(%d, {0}))' % (u, self.rng.randint(0, 12))], [T()]))
        elif k == 'variadic_spread':
            grp.decls.append((P + 'VS', 'func %svs(base %s, xs ...%s) (%s, int) {\n\tfor _, x := range xs {\n\t\tbase = base*%s(7) + x\n\t}\n\tif len(xs) > 0 {\n\t\txs[0] = base\n\t}\n\treturn base, len(xs)\n}'
                              % (p, t, t, t, t)))
            st.append(S(['%ss := []%s{{0}, {1}, {2}}' % (u, t), '%sa, %sn := %svs({0}, %ss...)' % (u, u, p, u), '%sb, %sm := %svs({1})' % (u, u, p), '%sc, %sk := %svs({2}, {0}, {1})' % (u, u, p),
                         'println("variadic", %sa, %sn, %sb, %sm, %sc, %sk, %ss[0])' % (u, u, u, u, u, u, u)], [T(), T(), T()]))
        elif k == 'call_forwarding':
            grp.decls.append((P + 'CF', 'func %stwo(a %s) (%s, %s) {\n\treturn a + %s(1), a * %s(2)\n}\n\nfunc %ssum(a, b %s) %s {\n\treturn a - b\n}' % (p, t, t, t, t, t, p, t, t)))
            st.append(S('println("forward", %ssum(%stwo({0})))' % (p, p), [T()]))
        elif k == 'shortcircuit_calls':
            grp.decls.append((P + 'SC', 'func %ssay(tag string, v bool) bool {\n\tprintln("say", tag, v)\n\treturn v\n}' % p))
            st.append(S(['%sr := %ssay("a", {0}) && %ssay("b", {1}) || %ssay("c", {2}) && !%ssay("d", {0})' % (u, p, p, p, p), 'println("shortcircuit", %sr)' % u],
                        [self.expr(env, 'bool', 1), self.expr(env, 'bool', 1), self.expr(env, 'bool', 1)]))
        elif k == 'shadowing':
            st.append(S(['%s := {0}' % u, '{', '\t%s := %s + {1}' % (u, u), '\tif %s := %s * %s(2); %s > {2} {' % (u, u, t, u), '\t\tprintln("shadow-in", %s)' % u, '\t}',
                         '\t%s++' % u, '\tprintln("shadow-mid", %s)' % u, '}', 'println("shadow-out", %s)' % u], [T(), T(), T()]))
        elif k == 'ptr_escape':
            grp.decls.append((P + 'PE', 'type %sCell struct {\n\tv %s\n\tnext *%sCell\n}\n\nfunc %snew(v %s) *%sCell {\n\tvar c %sCell\n\tc.v = v\n\treturn &c\n}\n\nfunc %slocal(v %s) *%s {\n\tx := v + %s(1)\n\treturn &x\n}'
                              % (P, t, P, p, t, P, P, p, t, t, t)))
            st.append(S(['%sa, %sb := %snew({0}), %snew({1})' % (u, u, p, p), '%sa.next = %sb' % (u, u), '%sb.v += {2}' % u, '%sp, %sq := %slocal({0}), %slocal({0})' % (u, u, p, p), '*%sp += {1}' % u,
                         'println("escape", %sa.v, %sa.next.v, *%sp, *%sq, %sp == %sq, %sa.next == %sb, %sb.next == nil)' % (u, u, u, u, u, u, u, u, u)], [T(), T(), T()]))
        elif k == 'swap_index':
            st.append(S(['%s := []%s{{0}, {1}, {2}}' % (u, t), '%si, %sj := {3}, {4}' % (u, u), '%s[%si], %s[%sj] = %s[%sj], %s[%si]' % (u, u, u, u, u, u, u, u),
                         '%si, %s[%sj] = %sj, %s(%si)' % (u, u, u, u, t, u), 'println("swap", %s[0], %s[1], %s[2], %si, %sj)' % (u, u, u, u, u)],
                        [T(), T(), T(), self.index_of(env, None, 3), self.index_of(env, None, 3)]))
        elif k == 'iota':
            grp.decls.append((P + 'IO', 'const (\n\t%sA %s = iota + 1\n\t%sB\n\t%sC\n\t%sD = %sC << 2\n)\n\nconst (\n\t%sF0 uint32 = 1 << iota\n\t%sF1\n\t%sF2\n)' % (P, t, P, P, P, P, P, P, P)))
            st.append(S('println("iota", %sA, %sB, %sC, %sD, %sF0|%sF2, {0} + %sC, {1} & (%sF1 | %sF2))' % (P, P, P, P, P, P, P, P, P), [self.nonconst(env, t, T()), self.nonconst(env, 'uint32', self.expr(env, 'uint32', 1))]))
        elif k == 'untyped_const':
            grp.decls.append((P + 'UC', 'const %sBig = 1 << 40\n\nconst %sRatio = 2.5\n\nconst %sName = "c" + "d"' % (P, P, P)))
            st.append(S('println("untyped", int64(%sBig>>20) + {0}, uint64(%sBig) * 3, {1} * %sRatio > 10, int32(%sBig >> 38), len(%sName), %sName + {2})' % (P, P, P, P, P, P),
                        [self.nonconst(env, 'int64', self.expr(env, 'int64', 1)), self.nonconst(env, 'float64', self.expr(env, 'float64', 1)), self.leaf(env, 'string', True)]))
        elif k == 'anon_struct':
            st.append(S(['%s := struct {' % u, '\ta %s' % t, '\tb string', '}{{0}, "anon"}', '%sc := %s' % (u, u), '%sc.a += {1}' % u, '%sp := &%s' % (u, u), '%sp.b += "!"' % u,
                         'println("anon", %s.a, %s.b, %sc.a, %sc.b, %s == %sc)' % (u, u, u, u, u, u)], [T(), T()]))
        elif k == 'embedded_ptr':
            grp.decls.append((P + 'EP', 'type %sBase struct {\n\tv %s\n}\n\nfunc (b *%sBase) Inc(d %s) {\n\tb.v += d\n}\n\ntype %sWrap struct {\n\t*%sBase\n\tw %s\n}' % (P, t, P, t, P, P, t)))
            st.append(S(['%sb := &%sBase{{0}}' % (u, P), '%sx := %sWrap{%sb, {1}}' % (u, P, u), '%sy := %sx' % (u, u), '%sx.Inc({2})' % u, '%sy.v += {1}' % u, '%sy.w++' % u,
                         'println("embptr", %sb.v, %sx.v, %sy.v, %sx.w, %sy.w, %sx.%sBase == %sy.%sBase)' % (u, u, u, u, u, u, P, u, P)], [T(), T(), T()]))
        elif k == 'assert_fail_zero':
            st.append(S(['var %se interface{} = {0}' % u, '%sa, %sok1 := %se.(%s)' % (u, u, u, t), '%sb, %sok2 := %se.(float64)' % (u, u, u), '%sc, %sok3 := %se.(bool)' % (u, u, u),
                         # (a failed `v, ok := e.(string)` yields the string "0" in Wa: see gen/findings.py; not used here)
                         'println("assertzero", %sa, %sok1, %sb == 0, %sok2, %sc, %sok3)' % (u, u, u, u, u, u)], [self.nonconst(env, t, T())]))
        elif k == 'copy_string_bytes':
            st.append(S(['%sb := make([]byte, 4)' % u, '%sn := copy(%sb, {0})' % (u, u), '%sm := copy(%sb[1:], "zz")' % (u, u), 'println("copystr", %sn, %sm, %sb[0], %sb[1], %sb[3], hashStr(string(%sb)))' % (u, u, u, u, u, u)],
                        [self.leaf(env, 'string', True)]))
        elif k == 'string_build_runes':
            st.append(S(['%ss := ""' % u, 'for _, r := range {0} {', '\tif r > 127 {', '\t\t%ss += "?"' % u, '\t} else {', '\t\t%ss = string(r) + %ss' % (u, u), '\t}', '}',
                         'println("build", %ss, len(%ss))' % (u, u)], [self.leaf(env, 'string', True)]))
        elif k == 'ptr_to_ptr':
            st.append(S(['%sv := {0}' % u, '%sp := &%sv' % (u, u), '%spp := &%sp' % (u, u), '**%spp += {1}' % u, '%sw := {2}' % u, '*%spp = &%sw' % (u, u), '*%sp += %s(1)' % (u, t),
                         'println("ptrptr", %sv, %sw, **%spp, %sp == &%sw)' % (u, u, u, u, u)], [self.nonconst(env, t, T()), T(), self.nonconst(env, t, T())]))
        elif k == 'array_of_struct_range':
            grp.decls.append((P + 'AS', 'type %sIt struct {\n\tv %s\n\tn string\n}' % (P, t)))
            st.append(S(['%s := [3]%sIt{{v: {0}, n: "a"}, {v: {1}, n: "b"}, {v: {2}, n: "c"}}' % (u, P),
                         'for _, it := range %s {' % u, '\tit.v += %s(100)' % t, '}', 'for i := range %s {' % u, '\t%s[i].v += %s(i)' % (u, t), '\t%s[i].n += "x"' % u, '}',
                         '%sp := &%s[1]' % (u, u), '%sp.v *= %s(2)' % (u, t), 'println("arrstruct", %s[0].v, %s[1].v, %s[2].v, %s[1].n, %sp.n)' % (u, u, u, u, u)], [T(), T(), T()]))
        elif k == 'multi_case_typeswitch':
            st.append(S(['%svals := []interface{}{{0}, {1}, "s", {2}, nil}' % u, 'for i, e := range %svals {' % u, '\tswitch x := e.(type) {', '\tcase %s, %s:' % tuple(self.rng.sample(INT_NAMES, 2)),
                         '\t\tprintln("ints", i, x != nil)', '\tcase string, bool:', '\t\tprintln("strbool", i, x != nil)', '\tcase nil:', '\t\tprintln("nil", i, x == nil)', '\tdefault:', '\t\tprintln("other", i)', '\t}', '}'],
                        [self.nonconst(env, 'uint8', self.expr(env, 'uint8', 1)), self.nonconst(env, 'int64', self.expr(env, 'int64', 1)), self.nonconst(env, 'bool', self.expr(env, 'bool', 1))]))
        elif k == 'closure_over_field':
            grp.decls.append((P + 'CO', 'type %sCalls [3]int32\n\ntype %sAcc struct {\n\ttot %s\n\tcalls %sCalls\n}' % (P, P, t, P)))
            st.append(S(['var %sa %sAcc' % (u, P), '%sadd := func(i int, d %s) {' % (u, t), '\t%sa.tot += d' % u, '\t%sa.calls[i]++' % u, '}', '%sadd(0, {0})' % u, '%sadd({3}, {1})' % u, '%sb := %sa' % (u, u), '%sadd(2, {2})' % u,
                         'println("closurefield", %sa.tot, %sb.tot, %sa.calls[0], %sa.calls[1], %sa.calls[2], %sb.calls[2])' % (u, u, u, u, u, u)], [T(), T(), T(), self.index_of(env, None, 3)]))
        elif k == 'linked_list':
            grp.decls.append((P + 'LL', 'type %sNode struct {\n\tv %s\n\tnext *%sNode\n}\n\nfunc %spush(h *%sNode, v %s) *%sNode {\n\treturn &%sNode{v, h}\n}\n\nfunc %srev(h *%sNode) *%sNode {\n\tvar r *%sNode\n\tfor h != nil {\n\t\tn := h.next\n\t\th.next = r\n\t\tr = h\n\t\th = n\n\t}\n\treturn r\n}'
                              % (P, t, P, p, P, t, P, P, p, P, P, P)))
            nn = self.rng.randint(1, 8)
            st.append(S(['var %sh *%sNode' % (u, P), 'for i := 0; i < %d; i++ {' % nn, '\t%sh = %spush(%sh, %s(i)*{0} + {1})' % (u, p, u, t), '}', '%sh = %srev(%sh)' % (u, p, u), 'var %sacc %s' % (u, t), '%scnt := 0' % u,
                         'for n := %sh; n != nil; n = n.next {' % u, '\t%sacc = %sacc*%s(5) + n.v' % (u, u, t), '\t%scnt++' % u, '}', 'println("list", %scnt, %sacc, %sh.v)' % (u, u, u)], [self.nonconst(env, t, T()), T()]))
        elif k == 'matrix_slices':
            r, c = self.rng.randint(1, 4), self.rng.randint(1, 4)
            st.append(S(['%sm := make([][]%s, %d)' % (u, t, r), 'for i := range %sm {' % u, '\t%sm[i] = make([]%s, %d)' % (u, t, c), '\tfor j := range %sm[i] {' % u, '\t\t%sm[i][j] = %s(i*%d+j) ^ {0}' % (u, t, c), '\t}', '}',
                         '%srow := %sm[%d]' % (u, u, r - 1), '%srow[0] += {1}' % u, 'var %sacc %s' % (u, t), 'for _, rw := range %sm {' % u, '\tfor j, v := range rw {', '\t\t%sacc += v * %s(j+1)' % (u, t), '\t}', '}',
                         'println("matrix", %sacc, %sm[%d][0], len(%sm), len(%sm[0]))' % (u, u, r - 1, u, u)], [self.nonconst(env, t, T()), T()]))
        elif k == 'bytes_compare':
            st.append(S(['%sa, %sb := []byte({0}), []byte({1})' % (u, u), '%seq := len(%sa) == len(%sb)' % (u, u, u), 'for i := 0; %seq && i < len(%sa); i++ {' % (u, u), '\tif %sa[i] != %sb[i] {' % (u, u), '\t\t%seq = false' % u, '\t}', '}',
                         'println("byteseq", %seq, string(%sa) == string(%sb), {0} == {1})' % (u, u, u)], [self.leaf(env, 'string', True), self.leaf(env, 'string', True)]))
        elif k == 'nil_slice':
            st.append(S(['var %s []%s' % (u, t), 'println("nilslice", %s == nil, len(%s), cap(%s))' % (u, u, u), 'for range %s {' % u, '\tprintln("never")', '}', '%s = append(%s, {0})' % (u, u),
                         '%sz := %s[:0]' % (u, u), 'println("nilslice", %s == nil, len(%s), %s[0], %sz == nil, len(%sz), len(append([]%s(nil), %s...)))' % (u, u, u, u, u, t, u)], [T()]))
        elif k == 'iface_equality':
            t2 = self.pick([x for x in INT_NAMES if x != t])
            st.append(S(['var %sa, %sb interface{} = {0}, {0}' % (u, u), 'var %sc interface{} = %s({0})' % (u, t2), 'var %sd interface{} = "s"' % u, 'var %se interface{}' % u,
                         'println("ifaceeq", %sa == %sb, %sa == %sc, %sa != %sd, %sd == "s", %se == nil, %sa == nil, %sa == {0})' % (u, u, u, u, u, u, u, u, u, u)], [self.nonconst(env, t, T())]))
        elif k == 'map_of_maps':
            st.append(S(['%s := map[string]map[%s]%s{}' % (u, t, t), '%s["a"] = map[%s]%s{}' % (u, t, t), '%s["a"][{0}] = {1}' % u, '%s["a"][{0}] += {2}' % u, '%s["b"] = %s["a"]' % (u, u), '%s["b"][{2}] = {0}' % u,
                         'println("mapmap", len(%s), len(%s["a"]), %s["a"][{0}], len(%s["zz"]), %s["zz"][{0}])' % (u, u, u, u, u)], [T(), T(), T()]))
        elif k == 'func_map':
            st.append(S(['%s := map[string]func(%s) %s{' % (u, t, t), '\t"a": func(v %s) %s { return v + {0} },' % (t, t), '\t"b": func(v %s) %s { return v * {1} },' % (t, t), '}',
                         '%sr1 := %s["a"]({2})' % (u, u), '%sr2 := %s["b"](%sr1)' % (u, u, u), 'println("funcmap", %sr1, %sr2, %s["zz"] == nil, len(%s))' % (u, u, u, u)], [T(), T(), T()]))
        elif k == 'rune_parse':
            st.append(S(['var %sn int64' % u, '%sl := 0' % u, 'for _, r := range {0} + "7x42" {', '\tif r >= \'0\' && r <= \'9\' {', '\t\t%sn = %sn*10 + int64(r-\'0\')' % (u, u), '\t} else if r > 127 {', '\t\t%sl += 2' % u, '\t} else {', '\t\t%sl++' % u, '\t}', '}',
                         'println("runeparse", %sn, %sl)' % (u, u)], [self.leaf(env, 'string', True)]))
        elif k == 'elem_method':
            grp.decls.append((P + 'EM', 'type %sEl struct {\n\tv %s\n}\n\nfunc (e *%sEl) Bump(d %s) %s {\n\te.v = e.v*%s(3) + d\n\treturn e.v\n}' % (P, t, P, t, t, t)))
            st.append(S(['%ss := []%sEl{{v: {0}}, {v: {1}}}' % (u, P), '%sa := [2]%sEl{{v: {1}}, {v: {2}}}' % (u, P), '%sm := map[string]*%sEl{"k": &%ss[0]}' % (u, P, u),
                         '%sr1 := %ss[1].Bump({2})' % (u, u), '%sr2 := %sa[0].Bump({0})' % (u, u), '%sr3 := %sm["k"].Bump({1})' % (u, u),
                         'println("elemmethod", %sr1, %sr2, %sr3, %ss[0].v, %ss[1].v, %sa[0].v, %sa[1].v)' % (u, u, u, u, u, u, u)], [T(), T(), T()]))
        elif k == 'embedded_iface':
            grp.decls.append((P + 'EI', 'type %sSayer interface {\n\tSay(k %s) %s\n}\n\ntype %sS1 struct {\n\tv %s\n}\n\nfunc (s *%sS1) Say(k %s) %s {\n\treturn s.v + k\n}\n\ntype %sHold struct {\n\t%sSayer\n\tn int32\n}'
                              % (P, t, t, P, t, P, t, t, P, P)))
            st.append(S(['%s := %sHold{&%sS1{v: {0}}, 2}' % (u, P, P), '%sc := %s' % (u, u), '%sc.%sSayer = &%sS1{v: {1}}' % (u, P, P),
                         'println("embiface", %s.Say({2}), %sc.Say({2}), %s.%sSayer != nil, %sc.n)' % (u, u, u, P, u)], [T(), T(), T()]))
        elif k == 'bare_return':
            grp.decls.append((P + 'BR', 'func %sbare(a %s, f bool) (x, y %s, ok bool) {\n\tx = a + %s(1)\n\tif f {\n\t\ty = x * %s(2)\n\t\treturn\n\t}\n\tfor i := 0; i < 3; i++ {\n\t\ty += x\n\t\tif y > a {\n\t\t\tok = true\n\t\t\treturn\n\t\t}\n\t}\n\treturn y, x, false\n}' % (p, t, t, t, t)))
            st.append(S(['%sx, %sy, %sk := %sbare({0}, {1})' % (u, u, u, p), 'println("bare", %sx, %sy, %sk)' % (u, u, u)], [T(), self.expr(env, 'bool', 1)]))
        elif k == 'slice_of_aggregates':
            grp.decls.append((P + 'SA', 'type %sRec struct {\n\tname string\n\tv %s\n\tok bool\n}' % (P, t)))
            st.append(S(['%sr := make([]%sRec, 1, 2)' % (u, P), '%sr[0] = %sRec{"a", {0}, true}' % (u, P), '%sr2 := append(%sr, %sRec{"b", {1}, false})' % (u, u, P), '%sr3 := append(%sr, %sRec{name: "c"})' % (u, u, P),
                         'for i := 0; i < 5; i++ {', '\t%sr3 = append(%sr3, %sRec{"g", %s(i) + {2}, i%%2 == 0})' % (u, u, P, t), '}', '%sr3[0].v++' % u,
                         '%sss := []string{"x", {3}}' % u, 'for i := 0; i < 6; i++ {', '\t%sss = append(%sss, %sss[i]+"y")' % (u, u, u), '}',
                         'println("aggr", %sr2[1].name, %sr[0].v, %sr3[0].v, %sr3[6].v, %sr3[5].ok, len(%sr3), len(%sss), %sss[7], hashStr(%sss[6]))' % (u, u, u, u, u, u, u, u, u)],
                        [T(), T(), T(), self.leaf(env, 'string', True)]))
        elif k == 'label_break_switch':
            lb = self.fresh('LB')
            st.append(S(['%sc := 0' % u, '%s:' % lb, 'for i := 0; i < 6; i++ {', '\tswitch {', '\tcase i == {0}:', '\t\tbreak %s' % lb, '\tcase i%2 == 0:', '\t\tcontinue %s' % lb, '\tdefault:', '\t\tif i == 3 {', '\t\t\tbreak', '\t\t}', '\t\t%sc += 10' % u, '\t}', '\t%sc++' % u, '}',
                         'println("labelswitch", %sc)' % u], [self.index_of(env, None, 7)]))
        elif k == 'map_misc_keys':
            grp.decls.append((P + 'MK', 'type %sKp struct {\n\tv int32\n}' % P))
            st.append(S(['%sf := map[float64]%s{}' % (u, t), '%sf[1.5] = {0}' % u, '%sf[-0.25] = {1}' % u, '%sf[1.5] += {2}' % u, '%sa, %sb := &%sKp{v: 1}, &%sKp{v: 1}' % (u, u, P, P), '%sp := map[*%sKp]%s{%sa: {0}}' % (u, P, t, u), '%sp[%sb] = {1}' % (u, u), '%sp[%sa] ^= {2}' % (u, u),
                         '%si := map[interface{}]%s{}' % (u, t), '%si[int32(1)] = {0}' % u, '%si["s"] = {1}' % u, '%si[int32(1)] += {2}' % u, '%si[true] = {2}' % u,
                         'println("misckeys", len(%sf), %sf[1.5], %sf[0], len(%sp), %sp[%sa], %sp[%sb], len(%si), %si[int32(1)], %si["s"], %si[int64(1)], %si[true])' % (u, u, u, u, u, u, u, u, u, u, u, u, u)], [T(), T(), T()]))
        elif k == 'struct_conversion':
            grp.decls.append((P + 'SC2', 'type %sA1 struct {\n\tx %s\n\ts string\n}\n\ntype %sA2 struct {\n\tx %s\n\ts string\n}' % (P, t, P, t)))
            st.append(S(['%sa := %sA1{{0}, "cv"}' % (u, P), '%sb := %sA2(%sa)' % (u, P, u), '%sb.x += {1}' % u, '%sc := %sA1(%sb)' % (u, P, u), 'println("structconv", %sa.x, %sb.x, %sc.x, %sc.s, %sc == %sa)' % (u, u, u, u, u, u)], [T(), T()]))
        elif k == 'alloc_churn':
            # many short-lived slices / strings, a few retained in a ring: exercises allocation, release and reuse
            n, r = self.rng.randint(50, 300), self.pick([3, 5, 8])
            st.append(S(['var %sring [%d][]%s' % (u, r, t), 'var %sstr [%d]string' % (u, r), 'var %stot %s' % (u, t), 'for i := 0; i < %d; i++ {' % n,
                         '\ts := make([]%s, i%%%d+1)' % (t, self.pick([5, 17, 33])), '\tfor j := range s {', '\t\ts[j] = %s(i*j) + {0}' % t, '\t}', '\t%sring[i%%%d] = s' % (u, r),
                         '\tw := "x"', '\tfor j := 0; j < i%5; j++ {', '\t\tw += "yz"', '\t}', '\told := %sstr[i%%%d]' % (u, r), '\t%sstr[(i*3)%%%d] = w + old[:len(old)/2]' % (u, r),
                         '\tif len(%sstr[(i*3)%%%d]) > 40 {' % (u, r), '\t\t%sstr[(i*3)%%%d] = "r"' % (u, r), '\t}', '}',
                         'for i := 0; i < %d; i++ {' % r, '\tfor _, v := range %sring[i] {' % u, '\t\t%stot = %stot*%s(7) + v' % (u, u, t), '\t}', '\t%stot += %s(len(%sstr[i]))' % (u, t, u), '}',
                         'println("churn", %stot)' % u], [self.nonconst(env, t, T())]))
        elif k == 'tree_build':
            grp.decls.append((P + 'TB', 'type %sKids []*%sTn\n\ntype %sTn struct {\n\tv %s\n\tname string\n\tkids %sKids\n\tm map[int32]string\n}\n\n'
                              'func %stbuild(d int32, k %s, tag string) *%sTn {\n\tn := &%sTn{v: k + %s(d), name: tag + "n", m: map[int32]string{}}\n\tif d > 0 {\n\t\tfor i := int32(0); i < 3; i++ {\n'
                              '\t\t\tc := %stbuild(d-1, k*%s(3)+%s(i), n.name)\n\t\t\tn.kids = append(n.kids, c)\n\t\t\tn.m[i] = c.name\n\t\t}\n\t}\n\treturn n\n}\n\n'
                              'func %stsum(n *%sTn) %s {\n\tt := n.v + %s(len(n.name)) + %s(len(n.m))\n\tfor _, c := range n.kids {\n\t\tt = t*%s(3) + %stsum(c)\n\t}\n\treturn t\n}'
                              % (P, P, P, t, P, p, t, P, P, t, p, t, t, p, P, t, t, t, t, p)))
            st.append(S(['for r := 0; r < %d; r++ {' % self.rng.randint(1, 3), '\ttr := %stbuild(%d, {0}, "t")' % (p, self.rng.randint(1, 4)), '\tprintln("tree", %stsum(tr), len(tr.kids))' % p, '}'], [T()]))
        else:
            raise ValueError(name)
    st.append(S('%s ^= {0}' % pool_t, [T()]))


Gen.g_idioms = _g_idioms
KINDS['idioms'] = ('g_idioms', 2.5, IDIOM_FEATURES)
