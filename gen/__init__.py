"""Shared type-directed random program generator for the WaGo (.wa.go) / Go single-source stream.

    from gen import progs
    p = progs.gen_program(random.Random(1), size='small', stream='safe')
    text = p.render_go()
"""
