"""C14: generator of single-source differential drivers for Wa's standard-library ports.

A *section* is one exported function (or one method / scenario) with a table of argument tuples; a *program* is a
`package main` in Go syntax holding several sections of one package.  The same text is run by Wa (WaGo mode, imports
resolve to waroot/src) and by `go run` (imports resolve to Go's standard library).  Every call prints ONE line

    S<section> <call index> <token> <token> ...

Tokens are produced by helpers written in the driver itself (no library under test on the printing path): byte strings
as lowercase hex ("-" = empty), integers in decimal via int64/uint64 (never a rune, never a float: floats are printed
as their IEEE bit pattern), booleans, errors as "nil" or "E<hex of Error()>", lists as comma-joined tokens.
Wa's `int` is 32 bits: `int` arguments stay inside int32 and functions whose RESULT depends on the size of int are
excluded (EXCLUDE below, with the reason).
"""
import re, struct

# ------------------------------------------------------------------------------------------ Go text helpers

HELPERS = r'''
const hexdigits = "0123456789abcdef"

func hx(s string) string {
	if len(s) == 0 {
		return "-"
	}
	b := make([]byte, len(s)*2)
	for i := 0; i < len(s); i++ {
		b[2*i] = hexdigits[s[i]>>4]
		b[2*i+1] = hexdigits[s[i]&15]
	}
	return string(b)
}

func hb(k int, b []byte) string { return hx(string(b)) }

func er(e error) string {
	if e == nil {
		return "nil"
	}
	return "E" + hx(e.Error())
}

func itoa64(v int64) string {
	if v == 0 {
		return "0"
	}
	neg := v < 0
	var u uint64
	if neg {
		u = uint64(-(v + 1)) + 1
	} else {
		u = uint64(v)
	}
	var buf [24]byte
	n := 24
	for u > 0 {
		n--
		buf[n] = byte('0' + u%10)
		u /= 10
	}
	if neg {
		n--
		buf[n] = '-'
	}
	return string(buf[n:])
}

func jstr(k int, v []string) string {
	s := "l:"
	for i := 0; i < len(v); i++ {
		if i > 0 {
			s += ","
		}
		s += hx(v[i])
	}
	return s
}

func jbb(k int, v [][]byte) string {
	s := "l:"
	for i := 0; i < len(v); i++ {
		if i > 0 {
			s += ","
		}
		s += hx(string(v[i]))
	}
	return s
}

func jint(k int, v []int64) string {
	s := "n:"
	for i := 0; i < len(v); i++ {
		if i > 0 {
			s += ","
		}
		s += itoa64(v[i])
	}
	return s
}

func rep(s string, n int) string {
	b := make([]byte, 0, len(s)*n)
	for i := 0; i < n; i++ {
		b = append(b, s...)
	}
	return string(b)
}

func zs(n int) string { return string(make([]byte, n)) }

func fnvOf(s string, a int, b int) uint32 {
	h := uint32(2166136261)
	for i := a; i < b; i++ {
		h ^= uint32(s[i])
		h *= 16777619
	}
	return h
}

// dg: digest of a large result — "length:checksum,checksum of each 1 KiB block,..." (checksums computed here, not by
// a library); the comparison side derives the first differing block from it
func dg(s string) string {
	parts := make([]byte, 0, 64)
	parts = append(parts, itoa64(int64(len(s)))...)
	parts = append(parts, ':')
	parts = append(parts, itoa64(int64(fnvOf(s, 0, len(s))))...)
	for i := 0; i < len(s); i += 1024 {
		e := i + 1024
		if e > len(s) {
			e = len(s)
		}
		parts = append(parts, ',')
		parts = append(parts, itoa64(int64(fnvOf(s, i, e)))...)
	}
	return string(parts)
}

func dgb(k int, b []byte) string { return dg(string(b)) }

func catS(k int, v []string) string {
	n := 0
	for i := 0; i < len(v); i++ {
		n += len(v[i]) + 1
	}
	b := make([]byte, 0, n)
	for i := 0; i < len(v); i++ {
		b = append(b, v[i]...)
		b = append(b, '|')
	}
	return string(b)
}

func catB(k int, v [][]byte) string {
	n := 0
	for i := 0; i < len(v); i++ {
		n += len(v[i]) + 1
	}
	b := make([]byte, 0, n)
	for i := 0; i < len(v); i++ {
		b = append(b, v[i]...)
		b = append(b, '|')
	}
	return string(b)
}

func nz(s string) string {
	b := make([]byte, 0, len(s))
	for i := 0; i < len(s); i++ {
		if s[i] == 1 && i+1 < len(s) {
			i++
			b = append(b, s[i]-'0')
		} else {
			b = append(b, s[i])
		}
	}
	return string(b)
}

func tobss(k int, v []string) [][]byte {
	r := make([][]byte, len(v))
	for i := 0; i < len(v); i++ {
		r[i] = []byte(v[i])
	}
	return r
}

func torunes(k int, v []int64) []rune {
	r := make([]rune, len(v))
	for i := 0; i < len(v); i++ {
		r[i] = rune(v[i])
	}
	return r
}

func tou16s(k int, v []int64) []uint16 {
	r := make([]uint16, len(v))
	for i := 0; i < len(v); i++ {
		r[i] = uint16(v[i])
	}
	return r
}

func toints(k int, v []int64) []int {
	r := make([]int, len(v))
	for i := 0; i < len(v); i++ {
		r[i] = int(v[i])
	}
	return r
}

func tof64s(k int, v []uint64) []float64 {
	r := make([]float64, len(v))
	for i := 0; i < len(v); i++ {
		r[i] = math.Float64frombits(v[i])
	}
	return r
}

func fromrunes(k int, v []rune) []int64 {
	r := make([]int64, len(v))
	for i := 0; i < len(v); i++ {
		r[i] = int64(v[i])
	}
	return r
}

func fromu16s(k int, v []uint16) []int64 {
	r := make([]int64, len(v))
	for i := 0; i < len(v); i++ {
		r[i] = int64(v[i])
	}
	return r
}

func fromints(k int, v []int) []int64 {
	r := make([]int64, len(v))
	for i := 0; i < len(v); i++ {
		r[i] = int64(v[i])
	}
	return r
}

func fromf64s(k int, v []float64) []int64 {
	r := make([]int64, len(v))
	for i := 0; i < len(v); i++ {
		r[i] = int64(math.Float64bits(v[i]))
	}
	return r
}

func pVowel(r rune) bool   { return r == 'a' || r == 'e' || r == 'i' || r == 'o' || r == 'u' }
func pUpperA(r rune) bool  { return r >= 'A' && r <= 'Z' }
func pNonASCII(r rune) bool { return r >= 0x80 }
func pRuneErr(r rune) bool { return r == 0xFFFD }
func pSpaceA(r rune) bool  { return r == ' ' || r == '\t' || r == '\n' || r == ',' }
func pAlways(r rune) bool  { return true }
func pNever(r rune) bool   { return false }
func pWide(r rune) bool    { return r >= 0x800 }

func pred(k int) func(rune) bool {
	switch k {
	case 0:
		return pVowel
	case 1:
		return pUpperA
	case 2:
		return pNonASCII
	case 3:
		return pRuneErr
	case 4:
		return pSpaceA
	case 5:
		return pAlways
	case 6:
		return pWide
	}
	return pNever
}

func mRot(r rune) rune {
	if r >= 'a' && r <= 'z' {
		return 'a' + (r-'a'+13)%26
	}
	return r
}
func mDropVowel(r rune) rune {
	if pVowel(r) {
		return -1
	}
	return r
}
func mWiden(r rune) rune {
	if r < 0x80 {
		return r + 0x100
	}
	return 'x'
}
func mInvalid(r rune) rune {
	if r == 'a' {
		return 0x110000
	}
	if r == 'b' {
		return 0xD800
	}
	return r
}
func mIdent(r rune) rune { return r }
func mErrToQ(r rune) rune {
	if r == 0xFFFD {
		return '?'
	}
	return r
}

func mapper(k int) func(rune) rune {
	switch k {
	case 0:
		return mRot
	case 1:
		return mDropVowel
	case 2:
		return mWiden
	case 3:
		return mInvalid
	case 4:
		return mErrToQ
	}
	return mIdent
}
'''


class BigStr(bytes):
    """a large byte string `pre + unit*n + suf`, materialised on the Python side (classification, model tie, replay) but
    rendered in the driver as `pre + rep(unit, n) + suf`, so that 64 KiB arguments cost a few bytes of source"""

    def __new__(cls, pre, unit, n, suf=b""):
        o = super().__new__(cls, bytes(pre) + bytes(unit) * n + bytes(suf))
        o.parts = (pre, unit, n, suf)
        return o


def go_str(b):
    """Go interpreted string literal for the byte string b (non-printable / non-ASCII bytes as \\xNN)."""
    if isinstance(b, str):
        b = b.encode("utf-8")
    if isinstance(b, BigStr):
        pre, unit, n, suf = b.parts
        e = "rep(%s, %d)" % (go_str(unit) if isinstance(unit, BigStr) else go_str(bytes(unit)), n)
        if len(pre):
            e = (go_str(pre) if isinstance(pre, BigStr) else go_str(bytes(pre))) + " + " + e
        if len(suf):
            e = e + " + " + (go_str(suf) if isinstance(suf, BigStr) else go_str(bytes(suf)))
        return "(" + e + ")"
    if b and not any(b):
        # an all-zero literal would be de-duplicated by the Wa compiler against zero-initialised (mutable) global
        # storage of the data segment (wir/wat/data_seg.go Append) — build it at run time instead
        return "zs(%d)" % len(b)
    if 0 in b:
        # likewise a literal that starts or ends with NUL bytes can be placed over the zero bytes of a mutable global
        # next to other data: NUL never appears in a literal, it is written \x01 0 (and \x01 as \x01 1) and decoded by nz()
        return "nz(%s)" % go_str(b.replace(b"\x01", b"\x011").replace(b"\x00", b"\x010"))
    if len(b) >= 256:                       # long periodic strings are built at run time
        for unit in (1, 2, 3, 4, 5, 6, 7, 8, 10, 12, 16):
            if len(b) % unit == 0 and b == b[:unit] * (len(b) // unit):
                return "rep(%s, %d)" % (go_str(b[:unit]), len(b) // unit)
    out = []
    for c in b:
        if c == 0x22:
            out.append('\\"')
        elif c == 0x5c:
            out.append("\\\\")
        elif 0x20 <= c < 0x7f:
            out.append(chr(c))
        else:
            out.append("\\x%02x" % c)
    return '"' + "".join(out) + '"'


def go_i64(v):
    if v == -(1 << 63):
        return "-9223372036854775807 - 1"
    return str(v)


def go_u64(v):
    return "0x%x" % v if v > 1 << 40 else str(v)


def f64bits(x):
    return struct.unpack("<Q", struct.pack("<d", x))[0]


def f32bits(x):
    return struct.unpack("<I", struct.pack("<f", x))[0]


# arg kind -> (table element type, literal renderer, expression using table element `a`)
def _lit_list(render):
    return lambda vs: "{" + ", ".join(render(v) for v in vs) + "}"


KIND = {
    "str": ("string", go_str, "{a}"),
    "bytes": ("string", go_str, "[]byte({a})"),
    "i64": ("int64", go_i64, "{a}"),
    "u64": ("uint64", go_u64, "{a}"),
    "f64": ("uint64", go_u64, "math.Float64frombits({a})"),
    "bool": ("bool", lambda v: "true" if v else "false", "{a}"),
    "strs": ("[]string", _lit_list(go_str), "{a}"),
    "bss": ("[]string", _lit_list(go_str), "tobss(0, {a})"),
    "runes": ("[]int64", _lit_list(go_i64), "torunes(0, {a})"),
    "u16s": ("[]int64", _lit_list(go_i64), "tou16s(0, {a})"),
    "ints": ("[]int64", _lit_list(go_i64), "toints(0, {a})"),
    "ints_raw": ("[]int64", _lit_list(go_i64), "{a}"),
    "f64s": ("[]uint64", _lit_list(go_u64), "tof64s(0, {a})"),
    "pred": ("int64", go_i64, "pred(int({a}))"),
    "mapper": ("int64", go_i64, "mapper(int({a}))"),
}

# normalised Go type -> (kind, cast)
TYPE_KIND = {
    "string": ("str", None), "[]uint8": ("bytes", None), "bool": ("bool", None), "float64": ("f64", None),
    "int": ("i64", "int"), "int8": ("i64", "int8"), "int16": ("i64", "int16"), "int32": ("i64", "rune"), "int64": ("i64", None),
    "uint": ("u64", "uint"), "uint8": ("u64", "byte"), "uint16": ("u64", "uint16"), "uint32": ("u64", "uint32"), "uint64": ("u64", None),
    "[]string": ("strs", None), "[][]uint8": ("bss", None), "[]int32": ("runes", None), "[]uint16": ("u16s", None),
    "[]int": ("ints", None), "[]float64": ("f64s", None), "func(int32) bool": ("pred", None), "func(int32) int32": ("mapper", None),
}

# result type -> (token expression over `r`, token tag)
RES_TOKEN = {
    "string": ("hx({r})", "s"), "[]uint8": ("hb(0, {r})", "s"), "bool": ("{r}", "b"), "error": ("er({r})", "e"),
    "float64": ("math.Float64bits({r})", "f"),
    "int": ("int64({r})", "i"), "int8": ("int64({r})", "i"), "int16": ("int64({r})", "i"), "int32": ("int64({r})", "i"), "int64": ("{r}", "i"),
    "uint": ("uint64({r})", "u"), "uint8": ("uint64({r})", "u"), "uint16": ("uint64({r})", "u"), "uint32": ("uint64({r})", "u"), "uint64": ("{r}", "u"),
    "[]string": ("jstr(0, {r})", "l"), "[][]uint8": ("jbb(0, {r})", "l"),
    "[]int32": ("jint(0, fromrunes(0, {r}))", "n"), "[]uint16": ("jint(0, fromu16s(0, {r}))", "n"), "[]int": ("jint(0, fromints(0, {r}))", "n"),
    "[]float64": ("jint(0, fromf64s(0, {r}))", "n"),
}


class Sec:
    """one output section"""

    def __init__(self, key, pkg, kinds, stmts, toks, calls, imports=(), pre="", casts=None, note=""):
        self.key, self.pkg = key, pkg
        self.kinds = kinds                  # arg kinds (KIND keys)
        self.casts = casts or [None] * len(kinds)
        self.stmts = stmts                  # Go statements, $0.. = argument expressions
        self.toks = toks                    # [(go expression, tag)]
        self.calls = calls                  # list of argument tuples (python values)
        self.imports = set(imports) | {pkg}
        self.pre = pre                      # extra top-level declarations
        self.note = note
        self.id = None

    def render(self, sid, skip=()):
        self.id = sid
        idx = [i for i in range(len(self.calls)) if i not in skip]
        L = ["func s%d() {" % sid, '\tprintln("BEGIN", %d)' % sid]
        if not self.kinds:
            idx = idx[:1]
        for k, kind in enumerate(self.kinds):
            et, lit, _ = KIND[kind]
            L.append("\ta%d := []%s{" % (k, et))
            row = []
            for i in idx:
                row.append(lit(self.calls[i][k]))
                if sum(len(x) for x in row) > 120:
                    L.append("\t\t" + ", ".join(row) + ",")
                    row = []
            if row:
                L.append("\t\t" + ", ".join(row) + ",")
            L.append("\t}")
        ixexpr = "i"
        if skip and self.kinds:
            L.append("\tix := []int64{%s}" % ", ".join(str(i) for i in idx))
            ixexpr = "ix[i]"
        n = "len(a0)" if self.kinds else "1"
        L.append("\tfor i := 0; i < %s; i++ {" % n)
        body = self.stmts
        for k, kind in enumerate(self.kinds):
            e = KIND[kind][2].replace("{a}", "a%d[i]" % k)
            if self.casts[k]:
                e = "%s(%s)" % (self.casts[k], e)
            body = body.replace("$%d" % k, e)
        for line in body.strip("\n").split("\n"):
            L.append("\t\t" + line)
        L.append('\t\tprintln("S%d", %s, %s)' % (sid, ixexpr, ", ".join(t[0] for t in self.toks)))
        L.append("\t}")
        L.append('\tprintln("END", %d)' % sid)
        L.append("}")
        return "\n".join(L)


def render_program(secs, first_id=0, skip=None):
    """skip: {section index in secs: set(call indices)} -> (source text, line map [(first line, last line, [section indices])])"""
    skip = skip or {}
    imports = {"math"}
    pres = []                       # (text, [section indices that need it])
    bodies = []
    for k, s in enumerate(secs):
        imports |= s.imports
        if s.pre:
            for p in pres:
                if p[0] == s.pre:
                    p[1].append(k)
                    break
            else:
                pres.append((s.pre, [k]))
        bodies.append(s.render(first_id + k, skip.get(k, ())))
    head = "\n".join(["package main", "", "import ("] + ['\t"%s"' % i for i in sorted(imports)] + [")", HELPERS])
    parts = [(head, [])] + [(p[0], p[1]) for p in pres] + [(b, [k]) for k, b in enumerate(bodies)]
    tail = "\n".join(["", "func main() {"] + ["\ts%d()" % (first_id + k) for k in range(len(secs))] + ['\tprintln("DONE")', "}", ""])
    parts.append((tail, []))
    linemap, line, texts = [], 1, []
    for txt, owners in parts:
        n = txt.count("\n") + 1
        linemap.append((line, line + n - 1, owners))
        line += n
        texts.append(txt)
    return "\n".join(texts), linemap


def parse_output(lines):
    """-> ({(sid, idx): [tokens]}, last (sid, idx) seen or None, set of finished sids, done flag)"""
    res, last, ended, done, began = {}, None, set(), False, []
    for l in lines:
        f = l.split()
        if not f:
            continue
        if f[0] == "BEGIN" and len(f) == 2:
            began.append(int(f[1]))
        elif f[0] == "END" and len(f) == 2:
            ended.add(int(f[1]))
        elif f[0] == "DONE":
            done = True
        elif re.fullmatch(r"S\d+", f[0]) and len(f) >= 2 and re.fullmatch(r"\d+", f[1]):
            last = (int(f[0][1:]), int(f[1]))
            res[last] = f[2:]
    return res, last, ended, done, began


# ------------------------------------------------------------------------------------------ value pools

U = lambda s: s.encode("utf-8")

TEXT_FIXED = [
    b"", b"a", b"abc", b"Hello, World", b"  \t\n trimmed \r\n ", b"a,b,,c", b"aaa", b"aaaa", b"abcabcabc", b"ABCabc123", b"The Quick Brown Fox",
    b"one two  three", b"x=1;y=2;;z", b"mississippi", b"\x00", b"a\x00b", b"\x7f", b"~!@#$%^&*()", b"tab\there", b"line1\nline2\r\n",
    U("é"), U("héllo"), U("héllo wörld"), U("ÀÉÎÕÜ àéîõü"), U("日本語"), U("日本語テキスト"), U("𝄞"), U("a𝄞b"), U("é"), U("İ"), U("ı"), U("ǅ"), U("ǆ"),
    U("ß"), U("ſ"), U("K"), U("σς Σ"), U("ΑΒΓ αβγ"), U("Привет Мир"), U(" "), U("\u0085x\u0085"), U(" x "), U("　x　"),
    U("﻿bom"), U("�"), U("a�b"), U("\U0010ffff"), U("߿ࠀ￿\U00010000"), U("ǰ"), U("ŉ"), U("ﬁ"), U("Ⅷ ⅷ"), U("ⓐ Ⓐ"),
    b"\xff", b"\xc0\x80", b"\xed\xa0\x80", b"\xf4\x90\x80\x80", b"a\xffb", b"\xe2\x82", b"\xf0\x9f", b"\x80", b"\xc3", b"\xc3(", b"ab\xc3",
    b"\xf0\x9f\x98", b"\xe4\xb8", b"\xfe\xfe\xff\xff", b"\xef\xbf\xbd\xff", b"h\xc3\xa9\xffllo", b" \xff ", b"\xff\xfe\xfd", b"\xc2\x85", b"\xe2\x80",
    b"ab" * 200, b"x" * 1000, U("é") * 300, b"a " * 300, b"abcdefghij" * 120 + b"needle" + b"abcdefghij" * 5, b"\xff" * 257, U("日本") * 100 + b"!",
]


ADVERSARIAL_PAIRS = [(b"a" * 40 + b"b", b"aaaab"), (b"ab" * 30 + b"ac", b"abac"), (b"a" * 100 + b"ba", b"aaaaaaaaab"), (b"xxxxxxxxxxxxxxxxxxxxxxy", b"xxxy"),
                     (b"aaaaaaaaaaaaaaaaaaaaaaaaaaaaaaaaaaaaaaaaaaaaaaaaaaaaaaaaaaaaaaab" * 3, b"aaaaaaab"), (U("é") * 30 + U("è"), U("éè")), (b"abcabcabcabcabcabcabcabcabd", b"abcabd"),
                     (b"b" + b"a" * 40, b"ba"), (b"aaaab" + b"a" * 40, b"aaaab"), (b"a" * 30, b"aaaaab")]


def rand_text(rng):
    k = rng.random()
    n = rng.choice([1, 2, 3, 5, 8, 13, 20, 33, 64, 100])
    if k < 0.3:
        return bytes(rng.choice(b"abcABC ,.;xyz012\t\n") for _ in range(n))
    if k < 0.6:
        cps = [rng.choice([0x41, 0x61, 0x20, 0xe9, 0xc9, 0x3b1, 0x391, 0x416, 0x436, 0x4e2d, 0x1f600, 0x130, 0x131, 0x1c5, 0xdf, 0x17f, 0x212a, 0x2028,
                           rng.randrange(0x20, 0x7f), rng.randrange(0xa0, 0x250), rng.randrange(0x370, 0x530), rng.randrange(0x2000, 0x2100),
                           rng.randrange(0x10000, 0x10200)]) for _ in range(n)]
        return "".join(chr(c) for c in cps).encode("utf-8")
    if k < 0.8:                                   # valid text with an invalid byte spliced in
        b = bytearray(rand_text_ascii(rng, n) + "é日".encode("utf-8"))
        for _ in range(rng.randrange(1, 3)):
            b.insert(rng.randrange(0, len(b) + 1), rng.choice([0xff, 0x80, 0xc0, 0xe2, 0xf0, 0xbf, 0xed]))
        return bytes(b)
    return bytes(rng.getrandbits(8) for _ in range(n))


def rand_text_ascii(rng, n):
    return bytes(rng.choice(b"abcdeABCDE ,x") for _ in range(n))


def texts(rng, nrand):
    return list(TEXT_FIXED) + [rand_text(rng) for _ in range(nrand)]


def runes_of(b):
    return [ord(c) for c in b.decode("utf-8", errors="replace")]


def derived(rng, h, others):
    """a second text argument related to haystack h"""
    k = rng.randrange(12)
    if k == 0 or not h:
        return rng.choice([b"", b"a", b",", b" ", h])
    if k == 1:
        return h
    if k == 2:
        return h[:rng.randrange(0, len(h) + 1)]
    if k == 3:
        return h[rng.randrange(0, len(h) + 1):]
    if k in (4, 5, 6):
        i = rng.randrange(0, len(h))
        return h[i:i + rng.choice([1, 1, 2, 3, 5])]
    if k == 7:                                   # one whole rune of h
        try:
            s = h.decode("utf-8")
            return rng.choice(s).encode("utf-8")
        except UnicodeDecodeError:
            return h[-1:]
    if k == 8:
        try:
            return h.decode("utf-8").swapcase().encode("utf-8")
        except UnicodeDecodeError:
            return h.swapcase()
    if k == 9:
        return h + b"x"
    if k == 10:
        return b""
    return rng.choice(others)


def charset(rng, h):
    k = rng.randrange(6)
    if k == 0 or not h:
        return rng.choice([b"", b" ", b" \t\r\n", b"abc", U("é"), b"\xff", U("日本"), b"a\xff"])
    try:
        s = h.decode("utf-8")
        cs = rng.sample(list(s), min(len(s), rng.choice([1, 2, 3])))
        return "".join(cs).encode("utf-8") + (b"\xff" if k == 1 else b"")
    except UnicodeDecodeError:
        return bytes(rng.sample(list(h), min(len(h), 2)))


RUNES_FIXED = [0, 1, 0x09, 0x0a, 0x20, 0x22, 0x27, 0x5c, 0x41, 0x5a, 0x61, 0x7a, 0x7e, 0x7f, 0x80, 0x85, 0xa0, 0xad, 0xb5, 0xdf, 0xe9, 0xff, 0x100, 0x130, 0x131, 0x149,
               0x17f, 0x1c4, 0x1c5, 0x1c6, 0x1f0, 0x2bc, 0x300, 0x301, 0x345, 0x37a, 0x390, 0x3a3, 0x3c2, 0x3c3, 0x3f4, 0x4e2d, 0x7ff, 0x800, 0x1680, 0x180e, 0x1e9e,
               0x2000, 0x200b, 0x2028, 0x2029, 0x202f, 0x205f, 0x2126, 0x212a, 0x212b, 0x2160, 0x24b6, 0x3000, 0xd7ff, 0xd800, 0xdbff, 0xdc00, 0xdfff, 0xe000, 0xfb00, 0xfeff,
               0xfffd, 0xfffe, 0xffff, 0x10000, 0x10400, 0x10428, 0x1d11e, 0x1f600, 0x1ffff, 0x20000, 0xe0001, 0xf0000, 0x10fffd, 0x10ffff, 0x110000, 0x7fffffff, -1,
               -0x80000000, 0x200000]


def runes(rng, nrand):
    out = list(RUNES_FIXED)
    for _ in range(nrand):
        k = rng.random()
        out.append(rng.randrange(0, 0x80) if k < 0.15 else rng.randrange(0x80, 0x800) if k < 0.4 else rng.randrange(0x800, 0x10000) if k < 0.75
                   else rng.randrange(0x10000, 0x110000) if k < 0.95 else rng.randrange(-(1 << 31), 1 << 31))
    return out


def ints_of(bits, signed, rng, nrand):
    lo, hi = (-(1 << (bits - 1)), (1 << (bits - 1)) - 1) if signed else (0, (1 << bits) - 1)
    vals = set([lo, hi, 0, 1, lo + 1, hi - 1, hi // 2, hi // 2 + 1, 10, 100, 255, 256, 65535, 65536, 99, 1000000007])
    for k in range(0, bits + 1):
        for d in (-1, 0, 1):
            for s in ((1, -1) if signed else (1,)):
                vals.add(s * (1 << k) + d)
    for k in range(1, 20):
        for d in (-1, 0, 1):
            vals.add(10 ** k + d)
            if signed:
                vals.add(-(10 ** k) + d)
    vals = sorted(v for v in vals if lo <= v <= hi)
    for _ in range(nrand):
        w = rng.randrange(1, bits + 1)
        v = rng.getrandbits(w)
        if signed and rng.random() < 0.5:
            v = -v
        if lo <= v <= hi:
            vals.append(v)
    return vals


def float_bits(rng, nrand):
    """float64 bit patterns: specials, subnormals, limits, powers of ten and two, rounding ties, float32-exact values"""
    xs = [0.0, -0.0, 1.0, -1.0, 0.1, 0.5, 1.5, 2.5, 0.25, 100.0, 1e21, 1e20, 999999.0, 1e-5, 1e-4, 1e-7, 123456789.0, 1.7976931348623157e308, 2.2250738585072014e-308,
          5e-324, 1e-323, 2.225073858507201e-308, 4.9406564584124654e-324, 3.4028234663852886e38, 1.401298464324817e-45, 1.1754943508222875e-38, 16777216.0, 16777217.0,
          9007199254740992.0, 9007199254740993.0, 9007199254740991.0, 0.3, 2.0 / 3, 1e23, 8.41e21, 5e-324 * 3, 1e22, 1e15, 1e16, 1e17, 123456.7, 1.005, 2.675, 0.125,
          0.000001, 0.0000001, 1234567.0, 12345678.0, 4.35, 0.045, 1e100, 1e-100, 6.02214076e23, 3.141592653589793, 2.718281828459045, 4503599627370496.5, 0.5e-323,
          32.5, 2.5e-5, 1.25e10, 5e22, 1.9999999999999998, 4294967296.0, 9.223372036854775807e18, 1.8446744073709552e19, 33554432.5, 0.30000000000000004]
    out = []
    for x in xs:
        out += [f64bits(x), f64bits(-x)]
    out += [0x7ff0000000000000, 0xfff0000000000000, 0x7ff8000000000000, 0x7ff8000000000001, 0xfff8000000000000, 0x7ff0000000000001, 0x000fffffffffffff,
            0x0010000000000000, 0x0000000000000001, 0x0000000000000002, 0x7fefffffffffffff, 0x3ff0000000000001, 0x3fefffffffffffff, 0x4340000000000001]
    for k in range(-30, 31):
        out.append(f64bits(10.0 ** k))
    for k in (-1074, -1073, -1023, -1022, -150, -149, -127, -126, -64, -1, 10, 23, 24, 52, 53, 63, 64, 127, 128, 1023):
        out.append(f64bits(2.0 ** k))
    for k in range(1, 12):                       # ties at a decimal position: x.5, x.25, x.125
        out += [f64bits(k + 0.5), f64bits(k / 8.0), f64bits(k * 0.05), f64bits(k * 1e15 + 0.5)]
    for _ in range(nrand):
        k = rng.random()
        if k < 0.5:
            out.append(rng.getrandbits(64))
        elif k < 0.7:                            # float32-representable
            out.append(f64bits(struct.unpack("<f", struct.pack("<I", rng.getrandbits(32) & 0x7f7fffff | (rng.getrandbits(1) << 31)))[0]))
        elif k < 0.85:
            out.append(f64bits(rng.randrange(-10 ** 9, 10 ** 9) / rng.choice([1, 10, 100, 1000, 10 ** 6])))
        else:
            out.append(f64bits(rng.random() * 10.0 ** rng.randrange(-320, 308)))
    seen, res = set(), []
    for b in out:
        if b not in seen:
            seen.add(b)
            res.append(b)
    return res


def int_strings(rng, nrand):
    S = ["", "0", "-0", "+0", "1", "-1", "+1", "12345", "-12345", "012", "0x1f", "0X1F", "0b101", "0B101", "0o17", "0O17", "017", "1_000", "0x_1f", "1__0", "_1", "1_",
         "0x", "0b", "0o", "-", "+", "--1", "+-1", " 1", "1 ", "1a", "a", "ff", "FF", "zz", "ZZ", "z", "10", "7fffffffffffffff", "8000000000000000", "ffffffffffffffff",
         "10000000000000000", "-8000000000000000", "-8000000000000001", "1e3", "1.0", "0x1p3", "٣", "１", "\xff", "0_0", "0b_1", "0_b1", "-0x80", "+0x7f", "0x80",
         "1y2p0ij32e8e7", "1y2p0ij32e8e8", "3w5e11264sgsf", "3w5e11264sgsg", "-1y2p0ij32e8e8", "-1y2p0ij32e8e9",
         "0" * 50 + "7", "9" * 30, "-" + "9" * 30, "1" + "0" * 19, "1" * 64, "1" * 65, "1" + "0" * 64]
    for bits in (8, 16, 32, 64):
        for v in ((1 << (bits - 1)) - 1, 1 << (bits - 1), (1 << (bits - 1)) + 1, (1 << bits) - 1, 1 << bits, (1 << bits) + 1):
            S += [str(v), "-" + str(v), "%x" % v, "0x%x" % v, "-0x%x" % v, "%o" % v, "0b" + bin(v)[2:]]
    for _ in range(nrand):
        v = rng.getrandbits(rng.choice([3, 7, 8, 15, 16, 31, 32, 33, 63, 64, 65, 70]))
        f = rng.choice(["%d", "-%d", "+%d", "%x", "0x%x", "%o", "0o%o", "%X"]) % v
        if rng.random() < 0.15:
            i = rng.randrange(0, len(f) + 1)
            f = f[:i] + rng.choice(["_", " ", "g", "-", "."]) + f[i:]
        S.append(f)
    return [s.encode("utf-8") if isinstance(s, str) else s for s in S]


def float_strings(rng, nrand):
    S = ["", "0", "-0", "+0", "0.0", ".5", "5.", ".", "1e", "1e+", "e1", "1e1", "1E1", "1e+1", "1e-1", "1.5e3", "inf", "Inf", "-inf", "+Inf", "infinity", "INFINITY", "-Infinity",
         "infinit", "nan", "NaN", "NAN", "-nan", "+NaN", "1_0", "1_0.5", "1._5", "0x1p-2", "0x1.8p1", "0X1P+3", "0x.8p0", "0x1p", "0x1", "0x1.fffffffffffffp1023",
         "0x1p1024", "0x1p-1074", "0x1p-1075", "0x0.8p-1074", "0x1.00000000000008p0", "0x1.000000000000081p0", "0x1.00000000000018p0", "1e309", "-1e309", "1.7976931348623157e308",
         "1.7976931348623158e308", "1.7976931348623159e308", "1.797693134862315808e308", "4.9e-324", "5e-324", "2.4703282292062327e-324", "2.4703282292062328e-324",
         "2.47e-324", "1e-400", "1e400", "1e-323", "2.2250738585072011e-308", "2.2250738585072014e-308", "2.2250738585072012e-308", "0.1", "0.2", "0.3", "1e23", "8.41e21",
         "9007199254740993", "9007199254740992.5", "9007199254740993.0000000001", "123456789012345678901234567890", "0." + "0" * 30 + "1", "1" + "0" * 400, "0." + "0" * 400 + "1",
         "3.4028235e38", "3.4028236e38", "3.40282356779733661637539395458142568448e38", "1.401298464324817e-45", "7e-46", "7.1e-46", "1.00000017881393432617187499",
         "1.000000178813934326171875", "1.00000017881393432617187501", "16777217", "16777216.5", "33554434", "1e-45", "1.17549435e-38", "1.1754942e-38",
         "1.0000000000000002", "1.00000000000000011102230246251565404236316680908203125", "1.00000000000000011102230246251565404236316680908203124",
         "1.00000000000000011102230246251565404236316680908203126", "100000000000000016777215", "100000000000000016777216", "-1", " 1", "1 ", "1x", "1e1e1", "++1", "1e1.5",
         "0e0", "0e999999999", "1e-999999999", "1e999999999", "0x1p99999999", "22.222222222222222", "2." + "2" * 800, "0." + "9" * 30, "99999999999999974834176", "100000000000000000000001",
         "6.02214076e23", "6.62607015e-34", "1e+22", "1e+23", "4.9406564584124654417656879286822137236505980e-324", "1" + "0" * 308, "١.٥", "1,5", "\xff"]
    for _ in range(nrand):
        k = rng.random()
        if k < 0.4:
            m = str(rng.getrandbits(rng.choice([8, 24, 53, 54, 64, 80])))
            i = rng.randrange(0, len(m) + 1)
            S.append(rng.choice(["", "-", "+"]) + m[:i] + rng.choice([".", "", "."]) + m[i:] + rng.choice(["", "e%d" % rng.randrange(-330, 320), "E+%d" % rng.randrange(0, 30)]))
        elif k < 0.7:
            x = struct.unpack("<d", struct.pack("<Q", rng.getrandbits(64)))[0]
            S.append(repr(x) if x == x and abs(x) != float("inf") else "1e5")
        elif k < 0.85:                              # halfway between two adjacent doubles / floats, exact decimal expansion
            b = rng.getrandbits(62) | (1 << 61)
            lo = struct.unpack("<d", struct.pack("<Q", b & 0x7fefffffffffffff))[0]
            from fractions import Fraction
            try:
                nxt = struct.unpack("<d", struct.pack("<Q", (b & 0x7fefffffffffffff) + 1))[0]
                mid = (Fraction(lo) + Fraction(nxt)) / 2
                if 1e-10 < lo < 1e15:
                    num, den = mid.numerator, mid.denominator
                    ip, rem = divmod(num, den)
                    ds = []
                    while rem and len(ds) < 120:
                        rem *= 10
                        d, rem = divmod(rem, den)
                        ds.append(str(d))
                    S.append("%d.%s" % (ip, "".join(ds) or "0"))
                else:
                    S.append(repr(lo))
            except Exception:
                S.append("1.5")
        else:
            S.append("0x%x.%xp%d" % (rng.getrandbits(8), rng.getrandbits(60), rng.randrange(-1100, 1030)))
    return [s.encode("utf-8") if isinstance(s, str) else s for s in S]


def quoted_strings(rng, nrand, txts):
    S = ['""', '"a"', "``", "`a\\n`", "'a'", "'\\n'", "'\\''", '"\\""', '"\\a\\b\\f\\n\\r\\t\\v\\\\"', '"\\x41\\101\\u00e9\\U0001F600"', '"\\xff"', '"\\400"', '"\\u12"', '"\\ud800"',
         '"\\U00110000"', '"\\q"', '"', "'", "`", '"abc', "abc\"", "'ab'", "''", "'\\u00e9'", "'é'", "'\\xff'", "'\\377'", '"é日本"', '"\n"', "`\n`", "`a\rb`", "`a`b`", '"\\\'"',
         "'\\\"'", '"a" trailing', ' "a"', "x", "", '"\\', '"\\x4"', '"\\08"', "'\\0'", "'\\000'", '"\\x00"', "\"\xff\"", "'\xff'", "`\xff`", '"\\u{41}"', "“a”", "'aa", '"\\8"']
    out = [s.encode("utf-8") if isinstance(s, str) else s for s in S]
    out[S.index("\"\xff\"")] = b'"\xff"'
    out[S.index("'\xff'")] = b"'\xff'"
    out[S.index("`\xff`")] = b"`\xff`"
    for t in txts[:nrand]:                     # python's own rendering of a Go-quoted string for valid text
        try:
            s = t.decode("utf-8")
        except UnicodeDecodeError:
            continue
        q = '"' + "".join("\\" + c if c in '"\\' else c if 0x20 <= ord(c) < 0x7f or ord(c) >= 0xa1 else "\\u%04x" % ord(c) if ord(c) < 0x10000 else "\\U%08x" % ord(c) for c in s) + '"'
        out.append(q.encode("utf-8"))
    return out


def utf8_seqs(rng, nrand):
    out = [bytes([b]) for b in range(256)]
    leads = [0x7f, 0x80, 0xbf, 0xc0, 0xc1, 0xc2, 0xdf, 0xe0, 0xe1, 0xec, 0xed, 0xee, 0xef, 0xf0, 0xf1, 0xf3, 0xf4, 0xf5, 0xf7, 0xf8, 0xff]
    conts = [0x00, 0x7f, 0x80, 0x8f, 0x90, 0x9f, 0xa0, 0xbf, 0xc0, 0xff]
    for l in leads:
        for c1 in conts:
            out.append(bytes([l, c1]))
            for c2 in (0x7f, 0x80, 0xbf, 0xc0):
                out.append(bytes([l, c1, c2]))
                for c3 in (0x7f, 0x80, 0xbf, 0xc0):
                    out.append(bytes([l, c1, c2, c3]))
    for cp in (0x7f, 0x80, 0x7ff, 0x800, 0xd7ff, 0xe000, 0xfffd, 0xffff, 0x10000, 0x10ffff):
        e = chr(cp).encode("utf-8")
        out += [e, e + b"x", b"x" + e, e[:-1], e + e, e[:-1] + b"\x80" + e[-1:]]
    for _ in range(nrand):
        out.append(rand_text(rng)[:rng.randrange(1, 9)])
    return out


def u16_seqs(rng, nrand):
    out = [[], [0x41], [0xd800], [0xdc00], [0xd800, 0xdc00], [0xdbff, 0xdfff], [0xdc00, 0xd800], [0xd800, 0x41], [0x41, 0xdc00], [0xd800, 0xd800, 0xdc00],
           [0xffff], [0xfffd], [0xd7ff, 0xe000], [0xd83d, 0xde00], [0x48, 0x69, 0xd834, 0xdd1e, 0x21], [0xdbff], [0xd800, 0xdc00, 0xdc00]]
    for _ in range(nrand):
        out.append([rng.choice([0x41, 0xe9, 0x4e2d, 0xd800 + rng.randrange(0x400), 0xdc00 + rng.randrange(0x400), rng.getrandbits(16)]) for _ in range(rng.randrange(1, 8))])
    return out


# ------------------------------------------------------------------------------------------ exclusions

EXCLUDE = {
    # result depends on the size of int/uint (Wa: 32 bits, Go here: 64 bits) — not a library difference
    "math/bits.LeadingZeros": "uint-sized", "math/bits.Len": None, "math/bits.Reverse": "uint-sized", "math/bits.ReverseBytes": "uint-sized",
    "math/bits.RotateLeft": "uint-sized", "math/bits.Add": "uint-sized", "math/bits.Sub": "uint-sized", "math/bits.Mul": "uint-sized",
    "math/bits.Div": "uint-sized", "math/bits.Rem": "uint-sized", "math/bits.TrailingZeros": None, "math/bits.OnesCount": None,
    # covered by scenario sections (need objects / interfaces / closures)
    "bytes.NewBuffer": "scenario", "bytes.NewBufferString": "scenario", "bytes.NewReader": "scenario", "strings.NewReader": "scenario",
    "strings.NewReplacer": "scenario", "container/heap.Init": "scenario", "container/heap.Pop": "scenario", "container/heap.Push": "scenario",
    "container/heap.Remove": "scenario", "container/list.New": "scenario", "container/ring.New": "scenario", "crypto/md5.New": "scenario",
    "encoding/base32.NewEncoding": "scenario", "encoding/base64.NewEncoding": "scenario",
    "hash/adler32.New": "scenario", "hash/crc32.New": "scenario", "hash/crc32.NewIEEE": "scenario", "hash/crc32.MakeTable": "scenario",
    "hash/crc32.Checksum": "scenario", "hash/crc32.Update": "scenario", "hash/fnv.New32": "scenario", "hash/fnv.New32a": "scenario",
    "hash/fnv.New64": "scenario", "hash/fnv.New64a": "scenario",
    "sort.Find": "scenario", "sort.Search": "scenario", "sort.IsSorted": "scenario", "sort.Reverse": "scenario", "sort.Sort": "scenario", "sort.Stable": "scenario",
    "sort.Ints": "scenario", "sort.Float64s": "scenario", "sort.Strings": "scenario",
    "encoding/hex.Encode": "scenario", "encoding/hex.Decode": "scenario", "unicode/utf8.EncodeRune": "scenario",
    "encoding/binary.PutUvarint": "scenario", "encoding/binary.PutVarint": "scenario",
    # io plumbing: streaming wrappers, exercised through the scenario sections only where the port has them
    "encoding/base32.NewDecoder": "io", "encoding/base32.NewEncoder": "io", "encoding/base64.NewDecoder": "io", "encoding/base64.NewEncoder": "io",
    "encoding/hex.Dumper": "io", "encoding/hex.NewDecoder": "io", "encoding/hex.NewEncoder": "io",
    "encoding/binary.ReadUvarint": "io", "encoding/binary.ReadVarint": "io",
}
# uint-sized functions whose result does NOT depend on the size for arguments below 2^31 are still called with such arguments
UINT_SMALL_OK = {"math/bits.Len", "math/bits.TrailingZeros", "math/bits.OnesCount"}


# ------------------------------------------------------------------------------------------ argument generation per function

def gen_args(pkg, name, g, rng, vol):
    """list of argument tuples (python values) for the package-level function `name` with Go entry g; None = unsupported"""
    ptypes, pnames = g["params"], g["pnames"]
    key = pkg + "." + name
    nr = vol["rand"]
    T = lambda: texts(rng, nr)
    # ---- strconv
    if pkg == "strconv":
        if name in ("ParseInt", "ParseUint"):
            out = []
            S = int_strings(rng, nr)
            for s in S:
                for base, bs in ((10, 64), (0, 64), (16, 64), (rng.choice([2, 8, 36, 7]), rng.choice([8, 16, 32, 64]))):
                    out.append((s, base, bs))
            for s in S[:40]:
                out.append((s, rng.choice([1, 37, -1, 62]), 64))
                out.append((s, 10, rng.choice([-1, 65, 128])))
            for bits in (8, 16, 32):
                for s in S:
                    if re.fullmatch(rb"[-+]?\d+", s) and len(s) < 14:
                        out.append((s, 10, bits))
            return out
        if name == "Atoi":
            S = [s for s in int_strings(rng, nr)]
            keep = []
            for s in S:
                # Atoi depends on the size of int as soon as the digits read so far exceed 32 bits (range error before a
                # later syntax error is seen, clamped value): keep only inputs whose longest digit run stays below 2^31
                runs = re.findall(rb"\d+", s)
                if any(int(r) >= 1 << 31 for r in runs) or sum(len(r) for r in runs) > 9 and b"_" in s:
                    continue
                keep.append((s,))
            return keep
        if name == "Itoa":
            return [(v,) for v in ints_of(32, True, rng, nr)]
        if name in ("FormatInt", "AppendInt", "FormatUint", "AppendUint"):
            signed = "Int" in name
            vals = ints_of(64, signed, rng, nr)
            out = []
            for v in vals:
                for base in (10, 16, 2, rng.randrange(2, 37)):
                    out.append((v, base))
            for base in range(2, 37):
                for v in (vals[0], vals[-1], 35, 36, -37 if signed else 37, 1295):
                    out.append((v, base))
            if name.startswith("Append"):
                out = [(rng.choice([b"", b"x=", b"\xff"]),) + o for o in out[::3]]
            return out
        if name in ("FormatFloat", "AppendFloat"):
            fb = float_bits(rng, nr)
            out = []
            for b in fb:
                out.append((b, ord("g"), -1, 64))
                out.append((b, ord("e"), -1, 64))
                out.append((b, ord("f"), -1, 64))
                out.append((b, ord("g"), -1, 32))
                out.append((b, ord(rng.choice("eEfgGbxX")), rng.choice([-1, 0, 1, 2, 3, 5, 6, 10, 15, 16, 17, 18, 20, 25, 30]), rng.choice([32, 64, 64])))
            for b in fb[:60]:
                for fmt in "eEfgGxXb":
                    out.append((b, ord(fmt), rng.choice([0, 1, 4, 17, 40]), 64))
                out.append((b, ord("z"), -1, 64))
                out.append((b, ord("f"), 100, 64))
                out.append((b, ord("e"), 200, 64))
            if name.startswith("Append"):
                out = [(rng.choice([b"", b"v="]),) + o for o in out[::4]]
            return out
        if name == "ParseFloat":
            out = []
            for s in float_strings(rng, nr * 3):
                out.append((s, 64))
                out.append((s, 32))
            for s in float_strings(rng, 0)[:20]:
                out.append((s, 0))
                out.append((s, 10))
            return out
        if name == "ParseBool":
            return [(s,) for s in [b"1", b"t", b"T", b"TRUE", b"true", b"True", b"0", b"f", b"F", b"FALSE", b"false", b"False", b"", b"yes", b"tRuE", b"2", b" true", b"true ", b"\xff", b"tr", b"no", b"01"]]
        if name in ("FormatBool",):
            return [(True,), (False,)]
        if name == "AppendBool":
            return [(b"", True), (b"x", False), (b"\xff", True)]
        if name in ("Unquote", "QuotedPrefix"):
            return [(s,) for s in quoted_strings(rng, 40 + nr, T())]
        if name == "UnquoteChar":
            out = []
            for s in quoted_strings(rng, 20, T()) + T()[:60] + [b"\\n", b"\\x41z", b"\\101", b"\\u00e9", b"\\U0001F600x", b"\\'", b'\\"', b"\\", b"\\x", b"\\u12", b"\\8", b"\\400", b"\\ud800", b"'", b'"']:
                for q in (0, ord('"'), ord("'")):
                    out.append((s, q))
            return out
        if name in ("IsPrint", "IsGraphic") or name.startswith("QuoteRune") or name.startswith("AppendQuoteRune"):
            rs = runes(rng, nr * (20 if name.startswith("Is") else 3))
            if name.startswith("Is"):
                rs += list(range(0, 0x3000, 7)) + list(range(0x10000, 0x1f000, 61)) + list(range(0xe0000, 0xe0200, 3))
            rs = [r for r in rs if -(1 << 31) <= r < (1 << 31)]
            if name.startswith("Append"):
                return [(rng.choice([b"", b"r="]), r) for r in rs]
            return [(r,) for r in rs]
        if name.startswith("Quote") or name == "CanBackquote":
            return [(t,) for t in T()]
        if name.startswith("AppendQuote"):
            return [(rng.choice([b"", b"q:"]), t) for t in T()]
    # ---- math/bits
    if pkg == "math/bits":
        m = re.search(r"(8|16|32|64)$", name)
        bits = int(m.group(1)) if m else 31
        base = re.sub(r"(8|16|32|64)$", "", name)
        vals = ints_of(bits, False, rng, nr * 2)
        if base in ("Add", "Sub"):
            return [(rng.choice(vals), rng.choice(vals), rng.choice([0, 1])) for _ in range(len(vals) * 2)] + \
                   [(a, b, c) for a in (0, 1, (1 << bits) - 1, 1 << (bits - 1)) for b in (0, 1, (1 << bits) - 1, (1 << bits) - 2) for c in (0, 1)]
        if base == "Mul":
            return [(rng.choice(vals), rng.choice(vals)) for _ in range(len(vals) * 2)] + [(a, b) for a in (0, 1, (1 << bits) - 1, 1 << (bits - 1), (1 << (bits // 2)) + 1) for b in (0, 1, (1 << bits) - 1, 1 << (bits - 1), (1 << (bits // 2)) - 1)]
        if base in ("Div", "Rem"):
            out = []
            for _ in range(len(vals) * 2):
                y = rng.choice([v for v in vals if v != 0])
                hi = rng.choice(vals) % y if base == "Div" else rng.choice(vals)
                out.append((hi, rng.choice(vals), y))
            out += [(0, 0, 1), (0, (1 << bits) - 1, (1 << bits) - 1), ((1 << bits) - 2, (1 << bits) - 1, (1 << bits) - 1), (0, 1 << (bits - 1), 3), (1, 0, 1 << (bits - 1))]
            return out
        if base == "RotateLeft":
            return [(v, k) for v in vals[::3] for k in (0, 1, -1, bits - 1, bits, bits + 1, -bits, 2 * bits + 3, -(3 * bits) - 5, rng.randrange(-200, 200))]
        if name == "TrailingZeros":          # uint-sized: the result for 0 is the size of uint
            vals = [v for v in vals if v != 0]
        return [(v,) for v in vals]
    # ---- utf8 / utf16
    if pkg == "unicode/utf8":
        if name in ("RuneLen", "ValidRune"):
            return [(r,) for r in runes(rng, nr * 4)]
        if name == "AppendRune":
            return [(rng.choice([b"", b"ab", b"\xff"]), r) for r in runes(rng, nr * 2)]
        if name == "RuneStart":
            return [(b,) for b in range(256)]
        seqs = utf8_seqs(rng, nr * 2) + T()
        return [(s,) for s in seqs]
    if pkg == "unicode/utf16":
        if name in ("IsSurrogate", "RuneLen", "EncodeRune"):
            return [(r,) for r in runes(rng, nr * 3)]
        if name == "DecodeRune":
            rs = [0xd800, 0xdbff, 0xdc00, 0xdfff, 0xd7ff, 0xe000, 0x41, 0x10000, 0xd83d, 0xde00, -1, 0x110000]
            return [(a, b) for a in rs for b in rs] + [(0xd800 + rng.randrange(0x400), 0xdc00 + rng.randrange(0x400)) for _ in range(nr)]
        if name == "AppendRune":
            return [(rng.choice([[], [0x41], [0xd800]]), r) for r in runes(rng, nr)]
        if name == "Decode":
            return [(s,) for s in u16_seqs(rng, nr * 2)]
        if name == "Encode":
            rs = runes(rng, nr)
            return [([r],) for r in rs] + [([rng.choice(rs) for _ in range(rng.randrange(0, 8))],) for _ in range(nr + 20)]
    # ---- encoding/binary varints, hex
    if pkg == "encoding/binary":
        if name in ("AppendUvarint",):
            return [(rng.choice([b"", b"\x01\x02"]), v) for v in ints_of(64, False, rng, nr)]
        if name in ("AppendVarint",):
            return [(rng.choice([b"", b"\x01\x02"]), v) for v in ints_of(64, True, rng, nr)]
        if name in ("Uvarint", "Varint"):
            out = [b"", b"\x00", b"\x01", b"\x7f", b"\x80", b"\x80\x01", b"\xff\x01", b"\xff\xff\xff\xff\xff\xff\xff\xff\xff\x01", b"\xff\xff\xff\xff\xff\xff\xff\xff\xff\x02",
                   b"\xff\xff\xff\xff\xff\xff\xff\xff\xff\x7f", b"\x80" * 9 + b"\x01", b"\x80" * 10 + b"\x01", b"\x80" * 11, b"\xff" * 10, b"\xff" * 9, b"\x80\x00", b"\x81\x80\x80\x00",
                   b"\xac\x02rest", b"\xfe\xff\xff\xff\xff\xff\xff\xff\xff\x01", b"\xff\xff\xff\xff\xff\xff\xff\xff\xff\x00"]
            for v in ints_of(64, False, rng, nr):
                e = bytearray()
                while v >= 0x80:
                    e.append(v & 0x7f | 0x80)
                    v >>= 7
                e.append(v)
                out.append(bytes(e))
                out.append(bytes(e[:-1]))
            return [(b,) for b in out]
    if pkg == "encoding/hex":
        if name in ("EncodedLen", "DecodedLen"):
            return [(n,) for n in (0, 1, 2, 3, 7, 8, 100, 101, 65535, 1 << 20, (1 << 30) - 1)]
        if name in ("EncodeToString", "Dump"):
            return [(t,) for t in T() + [bytes(range(256)), bytes(range(16)), bytes(range(17)), bytes(range(15)), b"\x00" * 33]]
        if name == "DecodeString":
            out = []
            for t in T()[:80]:
                h = t.hex().encode()
                out += [h, h.upper(), h[:-1], h + b"g", h + b"0", b"0" + h, h[:len(h) // 2] + b" " + h[len(h) // 2:]]
            out += [b"", b"0", b"zz", b"0g", b"g0", b"aBcD", b"\xff\xff", b"00\xff", b"0x10", b"1 2", b"12\n"]
            return [(s,) for s in out]
    # ---- hash one-shots
    if key in ("hash/adler32.Checksum", "hash/crc32.ChecksumIEEE"):
        return [(t,) for t in T() + [b"\xff" * 5553, b"\xff" * 5552, b"\xff" * 5551, b"\xff" * 11105, b"\x00" * 7000, bytes(range(256)) * 30, b"a" * 70000, b"\xff" * 66000]]
    # ---- sort searches / predicates
    if pkg == "sort":
        def sorted_ints():
            n = rng.choice([0, 1, 2, 3, 5, 8, 20, 50])
            return sorted(rng.randrange(-50, 50) for _ in range(n))
        if name == "SearchInts":
            out = []
            for _ in range(40 + nr):
                a = sorted_ints()
                out.append((a, rng.choice(a) if a and rng.random() < 0.6 else rng.randrange(-60, 60)))
            return out
        if name == "IntsAreSorted":
            return [(sorted_ints(),) for _ in range(20)] + [([rng.randrange(-9, 9) for _ in range(rng.randrange(0, 9))],) for _ in range(40 + nr)] + [([-(1 << 31), (1 << 31) - 1],), ([(1 << 31) - 1, -(1 << 31)],)]
        FS = [0.0, -0.0, 1.0, -1.0, 0.5, 1e300, -1e300, float("inf"), float("-inf"), 5e-324, 2.5, 100.0]
        def fl(n, nan):
            xs = [f64bits(rng.choice(FS)) for _ in range(n)]
            if nan and xs:
                xs[rng.randrange(len(xs))] = 0x7ff8000000000001
            return xs
        if name == "Float64sAreSorted":
            out = []
            for _ in range(60 + nr):
                xs = fl(rng.randrange(0, 8), rng.random() < 0.3)
                if rng.random() < 0.5:
                    xs = sorted(xs, key=lambda b: (struct.unpack("<d", struct.pack("<Q", b))[0] == struct.unpack("<d", struct.pack("<Q", b))[0], struct.unpack("<d", struct.pack("<Q", b))[0]))
                out.append((xs,))
            return out
        if name == "SearchFloat64s":
            out = []
            for _ in range(40 + nr):
                xs = sorted(set(rng.choice(FS) for _ in range(rng.randrange(0, 9))))
                out.append(([f64bits(x) for x in xs], f64bits(rng.choice(FS + [float("nan")]))))
            return out
        pool = [b"", b"a", b"b", b"ab", b"B", U("é"), b"\xff", b"aa", b"z", U("日本"), b"a\x00", b"A"]
        if name == "SearchStrings":
            out = []
            for _ in range(40 + nr):
                a = sorted(set(rng.choice(pool) for _ in range(rng.randrange(0, 9))))
                out.append((a, rng.choice(pool)))
            return out
        if name == "StringsAreSorted":
            out = []
            for _ in range(60 + nr):
                a = [rng.choice(pool) for _ in range(rng.randrange(0, 7))]
                out.append((sorted(a) if rng.random() < 0.5 else a,))
            return out
    # ---- generic: strings / bytes style signatures
    return generic_args(pkg, name, ptypes, pnames, rng, vol)


def generic_args(pkg, name, ptypes, pnames, rng, vol):
    key = pkg + "." + name
    for t in ptypes:
        if t not in TYPE_KIND:
            return None
    T = texts(rng, vol["rand"])
    textlike = [i for i, t in enumerate(ptypes) if t in ("string", "[]uint8")]
    out = []
    hay = T
    if name in ("Repeat",):
        hay = [t for t in T if len(t) <= 40]
    if name in ("Join",):
        hay = T
    reps = 2 if len(textlike) >= 2 or any(t in ("int32", "uint8") or t.startswith("func") for t in ptypes) else 1
    if len(ptypes) == 0:
        return [()]
    # needle/haystack pairs that defeat first-byte skipping (many false starts before the match)
    if len(textlike) >= 2 and name not in ("Repeat",) and all(t in ("string", "[]uint8", "int") for t in ptypes):
        for h, nd in ADVERSARIAL_PAIRS:
            args, k = [], 0
            for t, pn in zip(ptypes, pnames):
                if t == "int":
                    args.append(-1 if pn == "n" else 1)
                else:
                    args.append(h if k == 0 else nd if k == 1 else b"<>")
                    k += 1
            out.append(tuple(args))
    for h in hay:
        for _ in range(reps):
            args = []
            first_text = True
            for i, (t, pn) in enumerate(zip(ptypes, pnames)):
                if t in ("string", "[]uint8"):
                    if first_text:
                        args.append(h)
                        first_text = False
                    elif pn in ("chars", "cutset"):
                        args.append(charset(rng, h))
                    elif pn in ("new", "replacement"):
                        args.append(rng.choice([b"", b"X", b"<>", U("é"), b"\xff", h[:2]]))
                    else:
                        args.append(derived(rng, h, T))
                elif t in ("[]string", "[][]uint8"):
                    k = rng.choice([0, 1, 2, 3, 5])
                    args.append([rng.choice(T[:70]) for _ in range(k)])
                    first_text = False
                elif t == "int32":
                    rs = runes_of(h) if h else []
                    args.append(rng.choice(rs) if rs and rng.random() < 0.6 else rng.choice(RUNES_FIXED))
                elif t == "uint8":
                    args.append(rng.choice(h) if h and rng.random() < 0.6 else rng.choice([0, 0x20, 0x2c, 0x61, 0x7f, 0x80, 0xff]))
                elif t == "int":
                    if pn == "count":
                        args.append(rng.choice([0, 1, 2, 3, 7]))
                    elif pn == "n":
                        args.append(rng.choice([-1, 0, 1, 2, 3, 100]))
                    else:
                        args.append(rng.choice([0, 1, 2, 3, 5, 8]))
                elif t == "func(int32) bool":
                    args.append(rng.randrange(0, 8))
                elif t == "func(int32) int32":
                    args.append(rng.randrange(0, 6))
                elif t == "bool":
                    args.append(rng.random() < 0.5)
                elif t == "[]int32":
                    args.append([rng.choice(RUNES_FIXED) for _ in range(rng.randrange(0, 6))])
                elif t == "[]uint16":
                    args.append(rng.choice(u16_seqs(rng, 0)))
                else:
                    return None
            out.append(tuple(args))
    return out


def auto_section(pkg, name, g, rng, vol):
    key = pkg + "." + name
    pn = pkg.split("/")[-1]
    if key in EXCLUDE and key not in UINT_SMALL_OK:
        return None
    if not g["results"] or any(t not in RES_TOKEN for t in g["results"]) or any(t not in TYPE_KIND for t in g["params"]):
        return None
    calls = gen_args(pkg, name, g, rng, vol)
    if not calls:
        return None
    kinds, casts = [], []
    for t in g["params"]:
        k, c = TYPE_KIND[t]
        kinds.append(k)
        casts.append(c)
    rs = ["r%d" % i for i in range(len(g["results"]))]
    stmts = "%s := %s.%s(%s)" % (", ".join(rs), pn, name, ", ".join("$%d" % i for i in range(len(kinds))))
    toks = [(RES_TOKEN[t][0].replace("{r}", r), RES_TOKEN[t][1]) for t, r in zip(g["results"], rs)]
    cap = vol["cap"]
    if len(calls) > cap:
        fixed = calls[:cap // 2]
        rest = calls[cap // 2:]
        calls = fixed + rng.sample(rest, cap - len(fixed))
    return Sec(key, pkg, kinds, stmts, toks, calls, casts=casts)
