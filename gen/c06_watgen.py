"""C06: generator of WebAssembly text modules for the dead-code-stripping check.

gen_module(rng, feats, size) -> (wat_text, meta)

The module is generated from an explicit call graph (so the expected kept set is known here,
independently of any parser): functions of type $T = (i32 x, i32 d) -> i32 whose result depends on
what they call, in which order, through which table slot; `d` is a depth budget (masked to 0..3 on
entry, decremented on every call) so every call terminates although the graph has cycles.
Bodies use only the flat instruction syntax the Wa WAT parser supports.

feats (set of strings) switches on the constructs that hit defects recorded for the pinned tree;
the main stream uses none of them:
  start        (start $f) / inline (start)           -> the printer never prints a start field
  noninline    (export "n" (func $f)) fields          -> the printer only prints inline exports
  import_root  an import referenced only from elem / only exported
  table_set    table.get / table.set in live functions
  table_set_dead   table.set only in dead functions (must not matter)
  tabfunc      a function named like the table (with table_set: no crash, function kept)
  empty_export (export "" (func $f))
  unnamed      a function without identifier
  numeric      numeric function indices in elem / export
"""

NAME_STYLES = [
    lambda k: "f%d" % k,
    lambda k: "pkg.fn_%d" % k,
    lambda k: "$T.$m%d" % k,
    lambda k: "runtime.Block.f%d" % k,
    lambda k: "凹.函数%d" % k,
    lambda k: "a-b/c:%d" % k,
]


class Fn:
    def __init__(self, name, kind):
        self.name = name          # without '$'
        self.kind = kind          # 'T' (i32 i32 -> i32), 'V' (-> ), 'W' (i64 -> i64), 'G' getter (-> i32), 'P' peek (i32 -> i32)
        self.live = True          # intended bucket
        self.calls = []           # direct call targets (names), in body order
        self.body = []            # lines
        self.export = None        # inline export name
        self.inline_start = False


def _stmt_call_T(g, k):
    return ["local.get $r", "i32.const %d" % k, "i32.xor", "local.get $d", "i32.const 1", "i32.sub",
            "call $%s" % g, "local.set $r"]


def gen_module(rng, feats=frozenset(), size=8):
    feats = set(feats)
    style = rng.choice(NAME_STYLES)
    nT = rng.randint(2, max(2, size))
    nimp = rng.randint(0, 4)
    tsize = rng.choice([1, 2, 4, 4, 8])
    tabname = rng.choice(["tab", "tab", "t.0", None])
    if "table_set" in feats or "table_set_dead" in feats or "tabfunc" in feats:
        tabname = tabname or "tab"
    imports = ["env.h%d" % i if rng.random() < 0.5 else "h%d" % i for i in range(nimp)]
    fns = [Fn(style(k), "T") for k in range(nT)]
    # a few functions of other types
    others = []
    if rng.random() < 0.5:
        others.append(Fn("void%d" % rng.randint(0, 9), "V"))
    if rng.random() < 0.4:
        others.append(Fn("wide%d" % rng.randint(0, 9), "W"))
    if "tabfunc" in feats:
        fns.append(Fn(tabname, "T"))
    allf = fns + others
    rng.shuffle(allf)
    getter = Fn("get_acc", "G")
    getter.export = "get_acc"
    peek = Fn("peek", "P")
    peek.export = "peek"
    # live / dead buckets: dead functions are referenced by nobody live
    for f in allf:
        f.live = rng.random() < 0.6
    Tfns = [f for f in allf if f.kind == "T"]
    if not any(f.live for f in Tfns):
        Tfns[0].live = True
    live_imports = [h for h in imports if rng.random() < 0.6]
    dead_only_imports = [h for h in imports if h not in live_imports and rng.random() < 0.6]

    uid = [0]

    def fresh(p):
        uid[0] += 1
        return "%s%d" % (p, uid[0])

    def callee_pool(f):
        if f.live:
            return [g for g in allf if g.live], live_imports
        return allf, live_imports + dead_only_imports

    def gen_stmts(f, depth, budget):
        """list of lines; appends direct call targets to f.calls"""
        out = []
        n = rng.randint(1, 3)
        for _ in range(n):
            if budget[0] <= 0:
                break
            budget[0] -= 1
            pool, imps = callee_pool(f)
            c = rng.random()
            if c < 0.30 and pool:
                g = rng.choice(pool)
                f.calls.append(g.name)
                if g.kind == "T":
                    out += _stmt_call_T(g.name, rng.randint(0, 255))
                elif g.kind == "V":
                    out += ["call $%s" % g.name]
                else:
                    out += ["local.get $r", "i64.extend_i32_u", "call $%s" % g.name, "i32.wrap_i64", "local.set $r"]
            elif c < 0.40 and imps:
                h = rng.choice(imps)
                f.calls.append(h)
                out += ["local.get $r", "local.get $d", "call $%s" % h, "local.set $r"]
            elif c < 0.52:
                mask = rng.choice([tsize - 1, tsize - 1, tsize, 2 * tsize - 1])
                out += ["local.get $r", "local.get $d", "i32.const 1", "i32.sub",
                        "local.get $r", "i32.const %d" % mask, "i32.and",
                        "call_indirect %s(type $T)" % (("$%s " % tabname) if tabname and rng.random() < 0.7 else ""),
                        "local.set $r"]
            elif c < 0.62 and depth < 3:
                lb = fresh("b")
                inner = gen_stmts(f, depth + 1, budget)
                out += ["block $%s" % lb, "local.get $r", "i32.const %d" % rng.choice([1, 2, 4, 8]), "i32.and",
                        "br_if $%s" % lb] + inner + ["end"]
            elif c < 0.72 and depth < 3:
                ll = fresh("l")
                iv = "$i%d" % depth
                inner = gen_stmts(f, depth + 1, budget)
                out += ["i32.const %d" % rng.randint(1, 2), "local.set %s" % iv, "loop $%s" % ll] + inner + \
                       ["local.get %s" % iv, "i32.const 1", "i32.sub", "local.tee %s" % iv, "br_if $%s" % ll, "end"]
            elif c < 0.84 and depth < 3:
                a = gen_stmts(f, depth + 1, budget)
                b = gen_stmts(f, depth + 1, budget) if rng.random() < 0.7 else []
                out += ["local.get $r", "i32.const %d" % rng.choice([1, 2, 3, 4]), "i32.and", "if"] + a + \
                       (["else"] + b if b else []) + ["end"]
            elif c < 0.88:
                out += ["local.get $r", "local.get $r", "i32.const %d" % rng.choice([3, 7]), "i32.and", "i32.div_u", "local.set $r"]
            elif c < 0.90:
                out += ["local.get $r", "i32.const 1023", "i32.and", "i32.const 1000", "i32.gt_u", "if", "unreachable", "end"]
            elif c < 0.95:
                addr = rng.randrange(0, 64, 4)
                out += ["i32.const %d" % addr, "i32.const %d" % addr, "i32.load", "local.get $r", "i32.add", "i32.store"]
            else:
                out += ["local.get $r", "i32.const %d" % rng.randint(2, 99), "i32.mul", "i32.const %d" % rng.randint(0, 999), "i32.add", "local.set $r"]
            want_ts = ("table_set" in feats and f.live) or ("table_set_dead" in feats and not f.live)
            if want_ts and rng.random() < 0.5:
                out += ["i32.const %d" % rng.randrange(tsize), "i32.const %d" % rng.randrange(tsize),
                        "table.get $%s" % tabname, "table.set $%s" % tabname]
        return out

    for f in allf:
        budget = [rng.randint(2, 9)]
        if f.kind == "T":
            body = ["(local $r i32) (local $i0 i32) (local $i1 i32) (local $i2 i32) (local $i3 i32)",
                    "local.get $d", "i32.const 3", "i32.and", "local.set $d",
                    "local.get $d", "i32.eqz", "if", "local.get $x", "i32.const %d" % rng.randint(1, 99), "i32.add", "return", "end",
                    "local.get $x", "local.set $r"]
            body += gen_stmts(f, 0, budget)
            body += ["global.get $acc", "i32.const 33", "i32.mul", "local.get $r", "i32.add", "global.set $acc", "local.get $r"]
        elif f.kind == "V":
            pool, imps = callee_pool(f)
            body = ["global.get $acc", "i32.const %d" % rng.randint(1, 9), "i32.add", "global.set $acc"]
            tp = [g for g in pool if g.kind == "T"]
            if tp and rng.random() < 0.7:
                g = rng.choice(tp)
                f.calls.append(g.name)
                body += ["global.get $acc", "i32.const 1", "call $%s" % g.name, "global.set $acc"]
        else:  # W
            pool, imps = callee_pool(f)
            body = ["local.get $w", "i64.const %d" % rng.randint(1, 1000), "i64.mul"]
            tp = [g for g in pool if g.kind == "T"]
            if tp and rng.random() < 0.5:
                g = rng.choice(tp)
                f.calls.append(g.name)
                body += ["i32.wrap_i64", "i32.const 1", "call $%s" % g.name, "i64.extend_i32_u"]
        f.body = body

    # dead code: calls that can never execute — after an unconditional top-level or nested
    # `return` / `unreachable` / `br` — are still references: their targets must be kept (the
    # stripped text still contains the `call`).  The targets below are referenced from nowhere else.
    extras = []
    hosts = [f for f in allf if f.live and f.kind == "T"]
    if hosts and "nodeadcode" not in feats and rng.random() < 0.75:
        for k in range(rng.randint(1, 3)):
            g = Fn(rng.choice(["cleanup%d", "fini.%d", "$dead.$after%d"]) % k, "T")
            g.body = ["(local $r i32)", "local.get $x", "i32.const %d" % rng.randint(1, 999), "i32.xor"]
            if rng.random() < 0.5:
                t = rng.choice(hosts)
                g.calls.append(t.name)
                g.body += ["i32.const 0", "call $%s" % t.name]
            extras.append(g)
            for host in rng.sample(hosts, min(len(hosts), rng.randint(1, 2))):
                dead = ["local.get $r", "local.get $d", "call $%s" % g.name, "local.set $r"]
                host.calls.append(g.name)
                mode = rng.random()
                if mode < 0.40:      # top level: ... return <dead> (result)
                    assert host.body[-1] == "local.get $r"
                    host.body[-1:] = ["local.get $r", "return"] + dead + ["local.get $r"]
                elif mode < 0.50:    # top level: br 0 out of the function body
                    host.body[-1:] = ["local.get $r", "br 0"] + dead + ["local.get $r"]
                elif mode < 0.60:    # top level: unconditional unreachable (the function always traps here)
                    host.body[-1:] = ["unreachable"] + dead + ["local.get $r"]
                else:                # nested: return inside if, unreachable inside else, br out of a block
                    lb = fresh("bd")
                    snippet = ["block $%s" % lb,
                               "local.get $r", "i32.const %d" % rng.choice([1, 2, 4]), "i32.and", "if",
                               "local.get $r", "i32.const 1", "i32.and", "if",
                               "local.get $x", "return"] + dead + ["else"] + \
                              (["unreachable"] + dead if rng.random() < 0.3 else ["nop"]) + ["end", "end",
                               "br $%s" % lb] + dead + ["end"]
                    host.body[15:15] = snippet
    # roots: exports + elem
    live_T = [f for f in allf if f.live and f.kind == "T"]
    nexp = rng.randint(1, max(1, min(4, len(live_T))))
    exported = rng.sample(live_T, min(nexp, len(live_T)))
    for i, f in enumerate(exported):
        f.export = rng.choice(["e%d" % i, "pkg.Export%d" % i, "导出%d" % i])
    for f in allf:
        if f.live and f.kind in ("V", "W") and rng.random() < 0.5:
            f.export = "x_" + f.name
    elem = []
    elem_off = 0
    if rng.random() < 0.8:
        elem_off = rng.randrange(0, tsize)
        cand = [f.name for f in allf if f.live] + [h for h in live_imports]
        for _ in range(rng.randint(1, tsize - elem_off)):
            if cand:
                elem.append(rng.choice(cand))
    # an import is "safely live" only if a function reachable without it calls it directly
    called_live = set()
    g0 = {f.name: f.calls for f in allf}
    seen0, work0 = set(), [f.name for f in allf if f.export] + [e for e in elem if e not in imports]
    while work0:
        x0 = work0.pop()
        if x0 in seen0:
            continue
        seen0.add(x0)
        called_live.update(g0.get(x0, []))
        work0 += g0.get(x0, [])
    extra_fields = []
    noninline_exports = []        # (export name, target)
    start = None
    if "import_root" in feats and imports:
        h = rng.choice(imports)
        if rng.random() < 0.6:
            if not elem:
                elem_off = 0
            if len(elem) < tsize - elem_off:
                elem.append(h)
            else:
                elem[rng.randrange(len(elem))] = h
        else:
            noninline_exports.append(("imp_" + h, h))
    else:
        # keep the main stream off the recorded defect: elem entries that are imports must be called directly by live code
        elem = [e for e in elem if e not in imports or e in called_live]
    if "noninline" in feats:
        for f in rng.sample([g for g in allf if g.live], k=min(2, len([g for g in allf if g.live]))):
            noninline_exports.append(("ni_" + f.name, f.name))
            if rng.random() < 0.5:
                noninline_exports.append(("ni2_" + f.name, f.name))
            if rng.random() < 0.5 and f.export:
                f.export = None
    if "empty_export" in feats:
        cand = [g for g in allf if g.kind == "T" and not g.export and g.name not in elem]
        if cand:
            g = rng.choice(cand)
            g.live = True
            noninline_exports.append(("", g.name))
    order = list(allf) + [getter, peek]
    for g in extras:
        order.insert(rng.randrange(len(order) + 1), g)
    if "start" in feats:
        st = Fn("st.init", "V")
        tp = [g for g in allf if g.live and g.kind == "T"]
        st.body = ["i32.const %d" % rng.randint(1, 99), "i32.const 2"]
        g = rng.choice(tp)
        st.calls.append(g.name)
        st.body += ["call $%s" % g.name, "global.set $acc"]
        if live_imports and rng.random() < 0.5:
            h = rng.choice(live_imports)
            st.calls.append(h)
            st.body += ["i32.const 1", "i32.const 1", "call $%s" % h, "drop"]
        if rng.random() < 0.5:
            st.inline_start = True
        start = st.name
        # Wat2Wasm resolves the start index correctly only for the first defined function
        order = [st] + order
    unnamed_idx = None
    if "unnamed" in feats:
        cand = [i for i, g in enumerate(order) if g.kind == "T" and g.name not in elem and g.name != tabname
                and not any(g.name in o.calls for o in order) and g.name != start]
        if cand:
            unnamed_idx = rng.choice(cand)
            order[unnamed_idx].export = order[unnamed_idx].export or "anon"
            order[unnamed_idx].live = True
    numeric = "numeric" in feats

    def fidx(name):
        if name in imports:
            return imports.index(name)
        return len(imports) + [g.name for g in order].index(name)

    L = ["(module $gen"]
    imp_lines = ['  (import "env" "%s" (func $%s (param i32 i32) (result i32)))' % (h, h) for h in imports]
    # imports of the other kinds, anywhere among the function imports; an unnamed function import goes
    # last (it takes a function index but no name can reach it)
    mem_imported = rng.random() < 0.3
    glob_imported = rng.random() < 0.3
    if mem_imported:
        imp_lines.insert(rng.randrange(len(imp_lines) + 1), '  (import "res" "mem" (memory 1))')
    if glob_imported:
        imp_lines.insert(rng.randrange(len(imp_lines) + 1), '  (import "res" "k" (global $k.imp i32))')
    if not numeric and rng.random() < 0.25:
        imp_lines.append('  (import "env" "anonlog" (func (param i32)))')
    L += imp_lines
    if not mem_imported:
        L.append("  (memory 1)")
    L.append("  (table %s%d funcref)" % (("$%s " % tabname) if tabname else "", tsize))
    L.append("  (type $T (func (param i32 i32) (result i32)))")
    L.append("  (global $acc (mut i32) (i32.const %d))" % rng.randint(0, 1000))
    pending_fields = []
    for ne, tgt in noninline_exports:
        ref = str(fidx(tgt)) if (numeric and rng.random() < 0.5) else "$" + tgt
        pending_fields.append('  (export "%s" (func %s))' % (ne, ref))
    front = [x for x in pending_fields if rng.random() < 0.5]
    back = [x for x in pending_fields if x not in front]
    L += front
    for i, f in enumerate(order):
        nm = "" if i == unnamed_idx else "$%s " % f.name
        ex = '(export "%s") ' % f.export if f.export else ""
        stt = "(start) " if f.inline_start else ""
        if f.kind == "T":
            sig = "(param $x i32) (param $d i32) (result i32)"
        elif f.kind == "V":
            sig = ""
        elif f.kind == "W":
            sig = "(param $w i64) (result i64)"
        elif f.kind == "G":
            sig = "(result i32)"
            f.body = ["global.get $acc"]
        else:
            sig = "(param $a i32) (result i32)"
            f.body = ["local.get $a", "i32.const 1020", "i32.and", "i32.load"]
        L.append("  (func %s%s%s%s" % (nm, stt, ex, sig))
        if glob_imported and f.kind == "T" and f.body and f.body[-1] == "local.get $r":
            f.body = f.body + ["global.get $k.imp", "i32.add"]
        for ln in f.body:
            L.append("    " + ln)
        L.append("  )")
    L += back
    if start and not order[0].inline_start:
        L.append("  (start $%s)" % start)
    if elem:
        vals = []
        for e in elem:
            vals.append(str(fidx(e)) if (numeric and rng.random() < 0.6) else "$" + e)
        L.append("  (elem (i32.const %d) %s)" % (elem_off, " ".join(vals)))
    L.append(")")

    # expected kept set, from the generator's own graph
    graph = {f.name: list(f.calls) for f in order}
    roots = [f.name for f in order if f.export] + [t for _, t in noninline_exports] + list(elem)
    if start:
        roots.append(start)
    seen = set()
    work = list(roots)
    while work:
        x = work.pop()
        if x in seen:
            continue
        seen.add(x)
        work += graph.get(x, [])
    meta = {
        "feats": sorted(feats),
        "funcs": [f.name for f in order],
        "imports": imports,
        "expect_funcs": [("" if i == unnamed_idx else f.name) for i, f in enumerate(order) if f.name in seen],
        "expect_imports": [h for h in imports if h in seen],
        "unnamed": unnamed_idx is not None,
        "nroots": len(set(roots)),
        "nedges": sum(len(v) for v in graph.values()),
        "dead": len([f for f in order if f.name not in seen]),
    }
    return "\n".join(L) + "\n", meta


# ---------------------------------------------------------------------------------------------
# deterministic matrix: imports of every kind, named and unnamed, live and dead, in all orders,
# together with unnamed defined functions

IMPORT_ITEMS = {
    "Fl": '(import "env" "live" (func $h.live (param i32) (result i32)))',      # named function import, called by live code
    "Fd": '(import "env" "deadonly" (func $h.dead (param i32) (result i32)))',  # named function import, called by dead code only
    "Fu": '(import "env" "log" (func (param i32)))',                            # unnamed function import (nothing can name it)
    "M": '(import "res" "mem" (memory 1))',
    "G": '(import "res" "g" (global $g.imp i32))',
    "T": '(import "res" "tab" (table $t.imp 2))',
}


def _perms(items):
    """all orders for up to 3 items, 6 fixed orders beyond (identity, reverse, rotations, a swap)"""
    import itertools
    items = list(items)
    if len(items) <= 3:
        return [list(p) for p in itertools.permutations(items)]
    n = len(items)
    out = [items, items[::-1], items[1:] + items[:1], items[2:] + items[:2], items[-1:] + items[:-1],
           [items[1], items[0]] + items[2:]]
    uniq = []
    for o in out:
        if o not in uniq:
            uniq.append(o)
    return uniq


def import_matrix(with_table=False):
    """-> [(label, wat)]; `with_table` adds the table import (the printer has no case for it)"""
    import itertools
    pool = ["Fl", "Fd", "Fu", "M", "G"] + (["T"] if with_table else [])
    res = []
    for r in range(1, len(pool) + 1):
        for sub in itertools.combinations(pool, r):
            if with_table and "T" not in sub:
                continue
            for order in _perms(sub):
                for anon in ("none", "dead", "exported", "both"):
                    L = ["(module $imports"]
                    L += ["  " + IMPORT_ITEMS[k] for k in order]
                    if "M" not in sub:
                        L.append("  (memory 1)")
                    L.append("  (global $acc (mut i32) (i32.const 3))")
                    if anon in ("dead", "both"):
                        L += ["  (func (param i32) (result i32)", "    local.get 0", "    i32.const 1", "    i32.sub", "  )"]
                    body = ["i32.const 8", "local.get $x", "i32.store", "i32.const 8", "i32.load", "global.get $acc", "i32.add"]
                    if "G" in sub:
                        body += ["global.get $g.imp", "i32.mul"]
                    if "Fl" in sub:
                        body += ["call $h.live"]
                    body += ["call $helper"]
                    L.append('  (func $f (export "f") (param $x i32) (result i32)')
                    L += ["    " + b for b in body]
                    L.append("  )")
                    L += ["  (func $helper (param $x i32) (result i32)", "    local.get $x", "    global.get $acc", "    i32.xor", "    global.set $acc", "    global.get $acc", "  )"]
                    dead = ["local.get $x"] + (["call $h.dead"] if "Fd" in sub else []) + ["call $helper"]
                    L.append("  (func $dead (param $x i32) (result i32)")
                    L += ["    " + b for b in dead]
                    L.append("  )")
                    if anon in ("exported", "both"):
                        L += ['  (func (export "anon") (param i32) (result i32)', "    local.get 0", "    i32.const 3", "    i32.add",
                              "    call $helper", "  )"]
                    L.append(")")
                    res.append(("%s/anon-%s" % ("-".join(order), anon), "\n".join(L) + "\n"))
    return res
