"""Feature matrix: every value type T in every usage context C, as a small single-source
program (Go syntax = Wa's WaGo mode). Enumerated, not sampled. Used by C16 (must compile and
validate) and C01 (must print what Go prints)."""

PRELUDE = '''package main

type S struct {
	a int32
	b string
}

type I interface {
	M() int32
}

type A struct{ x int32 }

func (a A) M() int32 { return a.x }

var strs = [3]string{"a", "bb", "ccc"}
'''

# name: (type expr, mk(i) template with {i}, show template with {v})
TYPES = {
    "i32": ("int32", "int32({i})", "{v}"),
    "u8": ("uint8", "uint8({i})", "{v}"),
    "u16": ("uint16", "uint16({i} * 1000)", "{v}"),
    "i64": ("int64", "int64({i}) * 1000003", "{v}"),
    "u64": ("uint64", "uint64({i}) << 40", "{v}"),
    "f64": ("float64", "float64({i}) * 0.5", "int32({v} * 2)"),
    "f32": ("float32", "float32({i}) * 0.25", "int32({v} * 4)"),
    "str": ("string", "strs[{i} % 3]", "{v}"),
    "bool": ("bool", "({i} % 2 == 0)", "{v}"),
    "S": ("S", "S{{int32({i}), \"x\"}}", "{v}.a"),
    "PS": ("*S", "&S{{int32({i}), \"p\"}}", "{v}.a"),
    "sl": ("[]int32", "[]int32{{int32({i}), 2, 3}}", "{v}[0] + int32(len({v}))"),
    "arr": ("[3]int32", "[3]int32{{int32({i}), 1, 2}}", "{v}[0]"),
    "mp": ("map[string]int32", "map[string]int32{{\"k\": int32({i})}}", "{v}[\"k\"]"),
    "I": ("I", "I(A{{int32({i})}})", "{v}.M()"),
    "fn": ("func(int32) int32", "func(k int32) int32 {{ return k + int32({i}) }}", "{v}(1)"),
    "any": ("interface{}", "interface{{}}(int32({i}))", "{v}.(int32)"),
}

# name: (top-level decls template, main body template); {T} type, {mk:N} value built from N, {show:EXPR}
CONTEXTS = {
    "local": ("", "v := {mk:1}\n\tprintln({show:v})"),
    "global": ("var g {T}\n", "g = {mk:2}\n\tprintln({show:g})"),
    "field": ("type W struct {{\n\tf {T}\n\tn int32\n}}\n", "w := W{{f: {mk:3}}}\n\tw.n = 5\n\tprintln({show:w.f}, w.n)"),
    "arrelem": ("", "var a [2]{T}\n\ta[0] = {mk:1}\n\ta[1] = {mk:4}\n\tprintln({show:a[1]})"),
    "slelem": ("", "s := make([]{T}, 0)\n\ts = append(s, {mk:5})\n\ts = append(s, {mk:6})\n\tprintln({show:s[1]}, len(s))"),
    "mapval": ("", "m := map[int32]{T}{{}}\n\tm[7] = {mk:7}\n\tx := m[7]\n\tprintln({show:x}, len(m))"),
    "param": ("func use(v {T}) {{\n\tprintln({show:v})\n}}\n", "use({mk:8})"),
    "result": ("func get(i int) {T} {{\n\treturn {mk:i}\n}}\n", "r := get(9)\n\tprintln({show:r})"),
    "multi": ("func two(i int) ({T}, int32) {{\n\treturn {mk:i}, 1\n}}\n", "a, b := two(10)\n\tprintln({show:a}, b)"),
    "closure": ("", "v := {mk:11}\n\tf := func() {{\n\t\tprintln({show:v})\n\t}}\n\tv = {mk:12}\n\tf()"),
    "box": ("", "var e interface{{}} = {mk:13}\n\tv := e.({T})\n\tprintln({show:v})"),
    "ptr": ("", "v := {mk:14}\n\tp := &v\n\tq := *p\n\tprintln({show:q})"),
    "defer": ("func d(v {T}) {{\n\tprintln({show:v})\n}}\n", "defer d({mk:15})\n\tprintln(0)"),
    "range": ("", "s := []{T}{{{mk:16}, {mk:17}}}\n\tfor _, v := range s {{\n\t\tprintln({show:v})\n\t}}"),
    "nested": ("", "mkf := func() func() {T} {{\n\t\tv := {mk:18}\n\t\treturn func() {T} {{\n\t\t\treturn v\n\t\t}}\n\t}}\n\tr := mkf()()\n\tprintln({show:r})"),
    "methodptr": ("type H struct {{\n\tv {T}\n}}\n\nfunc (h *H) Set(v {T}) {{\n\th.v = v\n}}\n\nfunc (h *H) Get() {T} {{\n\treturn h.v\n}}\n",
                  "var h H\n\th.Set({mk:19})\n\tr := h.Get()\n\tprintln({show:r})"),
    "methodval": ("type H struct {{\n\tv {T}\n}}\n\nfunc (h H) With(v {T}) H {{\n\th.v = v\n\treturn h\n}}\n\nfunc (h H) Get() {T} {{\n\treturn h.v\n}}\n",
                  "var h H\n\th2 := h.With({mk:19})\n\tr := h2.Get()\n\tprintln({show:r})"),
    "methodmix": ("type H struct {{\n\tv {T}\n}}\n\nfunc (h *H) Set(v {T}) {{\n\th.v = v\n}}\n\nfunc (h H) Get() {T} {{\n\treturn h.v\n}}\n",
                  "var h H\n\th.Set({mk:19})\n\tr := h.Get()\n\tprintln({show:r})"),
    "structcopy": ("type W2 struct {{\n\tf {T}\n}}\n", "w := W2{{f: {mk:20}}}\n\tw2 := w\n\tw.f = {mk:21}\n\tprintln({show:w2.f})\n\tprintln({show:w.f})"),
    "switch": ("", "v := {mk:22}\n\tk := 2\n\tswitch k {{\n\tcase 1:\n\t\tprintln(1)\n\tcase 2:\n\t\tprintln({show:v})\n\tdefault:\n\t\tprintln(3)\n\t}}"),
}


def _fill(tmpl, tname):
    import re
    T, mk, show = TYPES[tname]
    out = tmpl.replace("{T}", T)
    out = re.sub(r"\{mk:([^}]*)\}", lambda m: mk.format(i=m.group(1)), out)
    out = re.sub(r"\{show:([^}]*)\}", lambda m: show.format(v=m.group(1)), out)
    return out.replace("{{", "{").replace("}}", "}")


def program(tname, cname):
    decls, body = CONTEXTS[cname]
    if cname == "box" and tname == "any":
        body = "var e interface{{}} = {mk:13}\n\tv := e\n\tprintln({show:v})"
    return PRELUDE + "\n" + _fill(decls, tname) + "\nfunc main() {\n\t" + _fill(body, tname) + "\n}\n"


def all_programs():
    return [((t, c), program(t, c)) for t in TYPES for c in CONTEXTS]
