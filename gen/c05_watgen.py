"""gen/c05_watgen.py -- generator of VALID WebAssembly text modules in the subset Wa's WAT parser accepts
(python3 stdlib only).  Used by the C05 (printer round trip) and C04 (wat2wasm) checks.

    gen_module(rng, size=1, triggers=()) -> Mod          (Mod.text, Mod.features, Mod.ast)

The module is built as a small Python AST (dict/list records) and rendered by `render`; function bodies
are generated type-directed (every expression leaves exactly one value of the requested type, every
statement is stack neutral), so the module validates.  Every module-field kind of the grammar is
exercised: types, imports (func/global/memory), funcs with named/unnamed params/locals/results, inline
and separate exports, start, table + elem, memory + data with escapes, mutable/immutable globals,
nested block/loop/if with labels, br/br_if/br_table by label and by depth, call, call_indirect with a
type use, typed select, all memory-access mnemonics with offset/align, memory.size/grow/copy/fill.

`triggers` switches on the constructs whose handling by the real printer / assembler is a LISTED
finding, so that the main stream (triggers=()) stays clear of them and other defects are not masked:
    'export-func-separate'  (export "g" (func $g)) as a module field
    'start'                 (start $f) naming the first defined function
    'start-not-first'       (with 'start') … naming a later function (C04: the assembler always emits the first)
    'data-name'             (data $d (i32.const 8) "...")
    'i64.store-align2'      i64.store align=2
    'unnamed-func'          (func (param i32) ...)
    'numeric-ident'         identifiers like $0 / $1
    'export-name-escape'    an export name containing a double quote or backslash
    'import-name-escape'    an import module/field name containing a non-printable byte
    'unnamed-local-index'   reference to an unnamed param/local by number (fine) — kept in the main stream
    'select-typed'          select (result t)  (the real assembler encodes it without the vector length)
    'nop'                   the nop instruction (the real parser rejects it)
    'f64-global'            (global $g f64 (f64.const 1.5)) (the real parser rejects it)
    'dup-type'              two (type) declarations with the same signature (C04)
    'type-param-names'      (type $t (func (param $x i32)))  (C04 name section)
    'import-param-names'    (import ... (func $f (param $x i32)))  (C04/C05 name section)
"""

VT = ['i32', 'i64', 'f32', 'f64']

BIN = {
    'i32': ['add', 'sub', 'mul', 'div_s', 'div_u', 'rem_s', 'rem_u', 'and', 'or', 'xor', 'shl', 'shr_s', 'shr_u', 'rotl', 'rotr'],
    'i64': ['add', 'sub', 'mul', 'div_s', 'div_u', 'rem_s', 'rem_u', 'and', 'or', 'xor', 'shl', 'shr_s', 'shr_u', 'rotl', 'rotr'],
    'f32': ['add', 'sub', 'mul', 'div', 'min', 'max', 'copysign'],
    'f64': ['add', 'sub', 'mul', 'div', 'min', 'max', 'copysign'],
}
UN = {
    'i32': ['clz', 'ctz', 'popcnt'], 'i64': ['clz', 'ctz', 'popcnt'],
    'f32': ['abs', 'neg', 'ceil', 'floor', 'trunc', 'nearest', 'sqrt'],
    'f64': ['abs', 'neg', 'ceil', 'floor', 'trunc', 'nearest', 'sqrt'],
}
CMP = {
    'i32': ['eq', 'ne', 'lt_s', 'lt_u', 'gt_s', 'gt_u', 'le_s', 'le_u', 'ge_s', 'ge_u'],
    'i64': ['eq', 'ne', 'lt_s', 'lt_u', 'gt_s', 'gt_u', 'le_s', 'le_u', 'ge_s', 'ge_u'],
    'f32': ['eq', 'ne', 'lt', 'gt', 'le', 'ge'], 'f64': ['eq', 'ne', 'lt', 'gt', 'le', 'ge'],
}
# conversion mnemonic -> (result type, operand type)
CONV = {
    'i32.wrap_i64': ('i32', 'i64'), 'i32.trunc_f32_s': ('i32', 'f32'), 'i32.trunc_f32_u': ('i32', 'f32'),
    'i32.trunc_f64_s': ('i32', 'f64'), 'i32.trunc_f64_u': ('i32', 'f64'),
    'i64.extend_i32_s': ('i64', 'i32'), 'i64.extend_i32_u': ('i64', 'i32'),
    'i64.trunc_f32_s': ('i64', 'f32'), 'i64.trunc_f32_u': ('i64', 'f32'), 'i64.trunc_f64_s': ('i64', 'f64'), 'i64.trunc_f64_u': ('i64', 'f64'),
    'f32.convert_i32_s': ('f32', 'i32'), 'f32.convert_i32_u': ('f32', 'i32'), 'f32.convert_i64_s': ('f32', 'i64'), 'f32.convert_i64_u': ('f32', 'i64'),
    'f32.demote_f64': ('f32', 'f64'),
    'f64.convert_i32_s': ('f64', 'i32'), 'f64.convert_i32_u': ('f64', 'i32'), 'f64.convert_i64_s': ('f64', 'i64'), 'f64.convert_i64_u': ('f64', 'i64'),
    'f64.promote_f32': ('f64', 'f32'),
    'i32.reinterpret_f32': ('i32', 'f32'), 'i64.reinterpret_f64': ('i64', 'f64'),
    'f32.reinterpret_i32': ('f32', 'i32'), 'f64.reinterpret_i64': ('f64', 'i64'),
}
# memory access mnemonic -> (value type, natural alignment in bytes)
LOADS = {
    'i32.load': ('i32', 4), 'i64.load': ('i64', 8), 'f32.load': ('f32', 4), 'f64.load': ('f64', 8),
    'i32.load8_s': ('i32', 1), 'i32.load8_u': ('i32', 1), 'i32.load16_s': ('i32', 2), 'i32.load16_u': ('i32', 2),
    'i64.load8_s': ('i64', 1), 'i64.load8_u': ('i64', 1), 'i64.load16_s': ('i64', 2), 'i64.load16_u': ('i64', 2),
    'i64.load32_s': ('i64', 4), 'i64.load32_u': ('i64', 4),
}
STORES = {
    'i32.store': ('i32', 4), 'i64.store': ('i64', 8), 'f32.store': ('f32', 4), 'f64.store': ('f64', 8),
    'i32.store8': ('i32', 1), 'i32.store16': ('i32', 2), 'i64.store8': ('i64', 1), 'i64.store16': ('i64', 2), 'i64.store32': ('i64', 4),
}


def float_spelling(r, v):
    """one of the spellings of the float v that Wa's scanner/parser accept: shortest decimal, integer token
    (also for negative zero: `-0`), exponent form, hex float"""
    import math
    k = r.randrange(6)
    if k == 0 and v == int(v) and abs(v) < 1e15:
        return ('-' if math.copysign(1.0, v) < 0 else '') + str(abs(int(v)))      # an INT token after f32.const
    if k == 1:
        return v.hex()                                                             # 0x1.8p+1, -0x0.0p+0
    if k == 2:
        return '%.17e' % v
    return repr(v)


class Mod:
    def __init__(self):
        self.text = ''
        self.features = set()
        self.ast = None


class G:
    def __init__(self, rng, size, triggers):
        self.r = rng
        self.size = size
        self.t = set(triggers)
        self.feat = set()
        self.n = 0

    # ---------------------------------------------------------------- names
    def ident(self, base):
        self.n += 1
        r = self.r
        if 'numeric-ident' in self.t and r.random() < 0.5:
            self.feat.add('numeric-ident')
            return '%d' % (self.n + 100)            # $101 — a valid identifier that looks like a number
        style = r.randrange(6)
        if style == 0:
            return '%s%d' % (base, self.n)
        if style == 1:
            return 'pkg.%s.%d' % (base, self.n)
        if style == 2:
            return '$%s.%d' % (base, self.n)          # $$name as the compiler writes for runtime helpers
        if style == 3:
            return '%s_%d$x' % (base, self.n)
        if style == 4:
            return '%s#%d' % (base, self.n)
        return '_%s%d' % (base, self.n)

    # ---------------------------------------------------------------- module
    def module(self):
        r = self.r
        m = {'name': None, 'types': [], 'imports': [], 'globals': [], 'funcs': [], 'exports': [], 'memory': None,
             'memimport': None, 'table': None, 'elems': [], 'data': [], 'start': None}
        if r.random() < 0.4:
            m['name'] = self.ident('mod')
            self.feat.add('module-name')
        nty = r.randrange(0, 2 + self.size)
        sigs = []
        for _ in range(nty):
            sig = self.sig(maxp=3, maxr=2 if r.random() < 0.2 else 1)
            if 'dup-type' not in self.t and any(s == sig for _, s in sigs):
                continue
            name = self.ident('t') if r.random() < 0.85 else None
            pn = None
            if 'type-param-names' in self.t and sig[0]:
                pn = [self.ident('tp') for _ in sig[0]]
                self.feat.add('type-param-names')
            m['types'].append({'name': name, 'sig': sig, 'pnames': pn})
            sigs.append((name, sig))
            self.feat.add('type')
        if 'dup-type' in self.t and sigs:
            name = self.ident('tdup')
            m['types'].append({'name': name, 'sig': sigs[0][1], 'pnames': None})
            sigs.append((name, sigs[0][1]))
            self.feat.add('dup-type')
        self.types = [(n, s) for n, s in sigs if n is not None]
        # memory: own or imported
        hasmem = r.random() < 0.85
        if hasmem:
            mn = r.choice([1, 1, 2, 16])
            mx = r.choice([0, 0, mn, mn + 3, 1024])
            if r.random() < 0.2:
                m['memimport'] = {'mod': 'env', 'nm': 'memory', 'name': self.ident('mem') if r.random() < 0.5 else None, 'min': mn, 'max': mx}
                self.feat.add('import-memory')
            else:
                m['memory'] = {'name': self.ident('mem') if r.random() < 0.6 else None, 'min': mn, 'max': mx}
                self.feat.add('memory')
                if mx:
                    self.feat.add('memory-max')
        self.hasmem = hasmem
        # imports
        self.funcs = []       # (name, params, results)
        for _ in range(r.randrange(0, 2 + self.size)):
            sig = self.sig(maxp=3, maxr=1)
            name = self.ident('imp')
            pn = [None] * len(sig[0])
            if 'import-param-names' in self.t and sig[0]:
                pn = [self.ident('ip') for _ in sig[0]]
                self.feat.add('import-param-names')
            mod, nm = r.choice(['env', 'syscall_js', 'wasi_snapshot_preview1']), self.ident('fn')
            if 'import-name-escape' in self.t:
                nm = nm + '\x01é'
                self.feat.add('import-name-escape')
            m['imports'].append({'kind': 'func', 'mod': mod, 'nm': nm, 'name': name, 'sig': sig, 'pnames': pn,
                                 'multi': r.random() < 0.3})
            self.funcs.append((name, sig[0], sig[1]))
            self.feat.add('import-func')
        self.globals = []     # (name, ty, mutable)
        for _ in range(r.randrange(0, 2)):
            ty = r.choice(VT)
            name = self.ident('gimp')
            m['imports'].append({'kind': 'global', 'mod': 'env', 'nm': self.ident('g'), 'name': name, 'ty': ty})
            self.globals.append((name, ty, False))
            self.feat.add('import-global')
        r.shuffle(m['imports'])
        # re-derive function index order after shuffling (imports keep their relative order of appearance)
        self.funcs = [(i['name'], i['sig'][0], i['sig'][1]) for i in m['imports'] if i['kind'] == 'func']
        self.globals = [(i['name'], i['ty'], False) for i in m['imports'] if i['kind'] == 'global']
        # globals
        for _ in range(r.randrange(0, 3 + self.size)):
            ty = r.choice(['i32', 'i32', 'i64', 'f32', 'f64'] if 'no-f64-global' not in self.t else ['i32', 'i64', 'f32'])
            mut = r.random() < 0.5
            name = self.ident('g')
            exp = None
            if r.random() < 0.15:
                exp = self.expname('g')
                self.feat.add('export-inline-global')
            m['globals'].append({'name': name, 'ty': ty, 'mut': mut, 'val': self.constval(ty, forglobal=True), 'export': exp})
            self.globals.append((name, ty, mut))
            self.feat.add('global-mut' if mut else 'global-const')
        # table
        if r.random() < 0.6:
            size = r.choice([1, 4, 8])
            m['table'] = {'name': self.ident('tab') if r.random() < 0.5 else None, 'min': size, 'max': r.choice([0, size, size + 8])}
            self.feat.add('table')
        self.hastable = m['table'] is not None
        # function signatures first (so that bodies can call forward)
        nf = r.randrange(1, 3 + 2 * self.size)
        protos = []
        for k in range(nf):
            sig = self.sig(maxp=3, maxr=2 if r.random() < 0.1 else 1)
            if self.types and r.random() < 0.4:
                sig = r.choice(self.types)[1]
            if k == 0 and 'start' in self.t:
                sig = ((), ())          # the start function: first defined function, nullary
            unnamed = 'unnamed-func' in self.t and r.random() < 0.5 and not (k == 0 and 'start' in self.t)
            name = None if unnamed else self.ident('f')
            if unnamed:
                self.feat.add('unnamed-func')
            protos.append((name, sig))
            self.funcs.append((name, sig[0], sig[1]))
        for name, sig in protos:
            m['funcs'].append(self.func(name, sig))
        # exports (separate fields)
        named = [f for f in m['funcs'] if f['name'] is not None]
        if m['memory'] is not None and r.random() < 0.6:
            m['exports'].append({'kind': 'memory', 'nm': 'memory', 'ref': m['memory']['name'] if (m['memory']['name'] and r.random() < 0.5) else 0})
            self.feat.add('export-memory')
        if m['table'] is not None and r.random() < 0.4:
            m['exports'].append({'kind': 'table', 'nm': 'table', 'ref': m['table']['name'] if (m['table']['name'] and r.random() < 0.5) else 0})
            self.feat.add('export-table')
        for g in m['globals']:
            if r.random() < 0.2:
                m['exports'].append({'kind': 'global', 'nm': self.expname('gx'), 'ref': g['name']})
                self.feat.add('export-global')
        if 'export-func-separate' in self.t and named:
            for f in r.sample(named, min(len(named), 2)):
                m['exports'].append({'kind': 'func', 'nm': self.expname('fx'), 'ref': f['name']})
                self.feat.add('export-func-separate')
        r.shuffle(m['exports'])
        if 'start' in self.t:
            cands = [f for f in named if not f['sig'][0] and not f['sig'][1]]
            if 'start-not-first' in self.t and len(cands) > 1:
                m['start'] = r.choice(cands[1:])['name']
                self.feat.add('start-not-first')
            else:
                m['start'] = cands[0]['name']      # the first defined function (see C04: start index)
            self.feat.add('start')
        # elem
        if m['table'] is not None:
            off = 0
            allf = [i['name'] for i in m['imports'] if i['kind'] == 'func'] + [f['name'] for f in named]
            for _ in range(r.randrange(0, 3)):
                k = r.randrange(1, 3)
                if off + k > m['table']['min'] or not allf:
                    break
                m['elems'].append({'offset': off, 'funcs': [r.choice(allf) for _ in range(k)]})
                off += k + r.randrange(0, 2)
                self.feat.add('elem')
        # data
        if m['memory'] is not None or m['memimport'] is not None:
            off = r.choice([0, 8, 1024])
            for _ in range(r.randrange(0, 3 + self.size)):
                b = self.databytes()
                name = None
                if 'data-name' in self.t and r.random() < 0.7:
                    name = self.ident('d')
                    self.feat.add('data-name')
                m['data'].append({'name': name, 'offset': off, 'bytes': b})
                off += len(b) + r.randrange(0, 9)
                self.feat.add('data')
        return m

    def expname(self, base):
        self.n += 1
        s = '%s.%d' % (base, self.n)
        if 'export-name-escape' in self.t and self.r.random() < 0.6:
            self.feat.add('export-name-escape')
            s += self.r.choice(['"q', '\\b', '\n'])
        elif self.r.random() < 0.2:
            s += self.r.choice(['-x', ' y', '/z', 'é'])
        return s

    def sig(self, maxp, maxr):
        r = self.r
        return (tuple(r.choice(VT) for _ in range(r.randrange(0, maxp + 1))),
                tuple(r.choice(VT) for _ in range(r.randrange(0, maxr + 1))))

    def databytes(self):
        r = self.r
        if self.size >= 2 and r.random() < 0.08:
            n = r.choice([255, 256, 4095, 4096, 4097, 8192])
            self.feat.add('data-long')
            return bytes((i * 7 + 3) & 0xff for i in range(n))
        k = r.randrange(4)
        if k == 0:
            return bytes(r.randrange(256) for _ in range(r.randrange(0, 12)))
        if k == 1:
            return r.choice([b'hello world\n', b'tab\there "quoted" back\\slash', b'\x00\x01\x7f\x80\xff', 'café 凹'.encode()])
        if k == 2:
            return bytes(r.choice(b'abc \n\t"\\\'\x00\xff;()$') for _ in range(r.randrange(1, 20)))
        return b''

    def constval(self, ty, forglobal=False):
        r = self.r
        if ty == 'i32':
            return r.choice([0, 1, -1, 7, 255, 65536, 2147483647, -2147483648, r.randrange(-1 << 31, 1 << 31)])
        if ty == 'i64':
            return r.choice([0, 1, -1, 1 << 32, (1 << 63) - 1, -(1 << 63), r.randrange(-1 << 63, 1 << 63)])
        # floats: values with short exact decimal spellings, some that need many digits, and the special ones
        # (negative zero, denormals, extremes of the format; inf/nan have no spelling the parser accepts)
        pool = [0.0, 1.0, -1.0, 1.5, -2.25, 0.1, 3.0e10, 1e-7, 123456.789, 16777216.0, 1e21, 2.5e-5,
                -0.0, -0.0, 1e-45, -1e-45, 1.1754943508222875e-38, 3.4028234663852886e+38, -3.4028234663852886e+38, 16777217.0, 0.5]
        if ty == 'f64':
            pool += [5e-324, -5e-324, 2.2250738585072014e-308, 1.7976931348623157e+308, -1.7976931348623157e+308,
                     9007199254740993.0, 0.30000000000000004]
        return r.choice(pool)

    # ---------------------------------------------------------------- functions
    def func(self, name, sig):
        r = self.r
        params, results = sig
        f = {'name': name, 'sig': sig, 'export': None, 'pnames': [], 'locals': [], 'body': []}
        for t in params:
            f['pnames'].append(self.ident('p') if r.random() < 0.7 else None)
        for _ in range(r.randrange(0, 4)):
            f['locals'].append((self.ident('l') if r.random() < 0.7 else None, r.choice(VT)))
        if any(n for n in f['pnames']) or any(n for n, _ in f['locals']):
            self.feat.add('named-locals')
        if any(n is None for n in f['pnames']) or any(n is None for n, _ in f['locals']):
            self.feat.add('unnamed-locals')
        if name is not None and r.random() < 0.5:
            f['export'] = self.expname('x')
            self.feat.add('export-inline-func')
        # local environment: (reference text, type)
        env = []
        for i, t in enumerate(params):
            env.append(('$' + f['pnames'][i] if f['pnames'][i] and r.random() < 0.8 else str(i), t))
        for j, (n, t) in enumerate(f['locals']):
            env.append(('$' + n if n and r.random() < 0.8 else str(len(params) + j), t))
        self.env = env
        self.labels = []          # innermost last; entries: (name or None, kind)
        body = []
        for _ in range(r.randrange(0, 3 + 2 * self.size)):
            body += self.stmt(2)
        for t in results:
            body += self.expr(t, 2)
        if results and r.random() < 0.2:
            body.append(['return'])
        f['body'] = body
        return f

    def label_ref(self, depth):
        """reference to the label `depth` levels out: by name if it has one (and no inner label shadows it), or by number"""
        name = self.labels[-1 - depth][0]
        if name is not None and self.r.random() < 0.7 and all(l[0] != name for l in self.labels[len(self.labels) - depth:]):
            return '$' + name
        return str(depth)

    def memarg(self, nat):
        r = self.r
        out = []
        if r.random() < 0.5:
            out.append('offset=%d' % r.choice([1, 4, 8, 16, 1000, 65535]))
        if r.random() < 0.5:
            al = r.choice([a for a in (1, 2, 4, 8) if a <= nat])
            out.append('align=%d' % al)
        return out

    def addr(self):
        return [['i32.const', str(self.r.choice([0, 4, 8, 64, 1024]))]]

    def expr(self, ty, d):
        """instructions leaving one value of type ty"""
        r = self.r
        choices = ['const', 'const']
        if any(t == ty for _, t in self.env):
            choices += ['local', 'local']
        if any(t == ty for _, t, _ in self.globals):
            choices.append('global')
        if d > 0:
            choices += ['bin', 'un', 'conv', 'block', 'if', 'select', 'tee']
            if ty == 'i32':
                choices += ['cmp', 'eqz', 'memsize']
            if self.hasmem:
                choices.append('load')
            if any(fn is not None and res == (ty,) for fn, _, res in self.funcs):
                choices.append('call')
            if self.hastable and any(s[1] == (ty,) for _, s in self.types):
                choices.append('call_indirect')
        c = r.choice(choices)
        if c == 'const':
            return [self.const(ty)]
        if c == 'local':
            return [['local.get', r.choice([n for n, t in self.env if t == ty])]]
        if c == 'global':
            return [['global.get', '$' + r.choice([n for n, t, _ in self.globals if t == ty])]]
        if c == 'bin':
            self.feat.add('numeric')
            return self.expr(ty, d - 1) + self.expr(ty, d - 1) + [['%s.%s' % (ty, r.choice(BIN[ty]))]]
        if c == 'un':
            return self.expr(ty, d - 1) + [['%s.%s' % (ty, r.choice(UN[ty]))]]
        if c == 'cmp':
            t = r.choice(VT)
            return self.expr(t, d - 1) + self.expr(t, d - 1) + [['%s.%s' % (t, r.choice(CMP[t]))]]
        if c == 'eqz':
            t = r.choice(['i32', 'i64'])
            return self.expr(t, d - 1) + [['%s.eqz' % t]]
        if c == 'memsize':
            if not self.hasmem:
                return [self.const(ty)]
            self.feat.add('memory.size/grow')
            return [['memory.size']] if r.random() < 0.5 else [['i32.const', '1'], ['memory.grow']]
        if c == 'conv':
            ops = [k for k, (res, _) in CONV.items() if res == ty]
            op = r.choice(ops)
            self.feat.add('conversion')
            return self.expr(CONV[op][1], d - 1) + [[op]]
        if c == 'load':
            ops = [k for k, (t, _) in LOADS.items() if t == ty]
            op = r.choice(ops)
            self.feat.add('load')
            return self.addr() + [[op] + self.memarg(LOADS[op][1])]
        if c == 'call':
            name, ps, _ = r.choice([f for f in self.funcs if f[0] is not None and f[2] == (ty,)])
            out = []
            for t in ps:
                out += self.expr(t, d - 1)
            self.feat.add('call')
            return out + [['call', '$' + name]]
        if c == 'call_indirect':
            tn, (ps, _) = r.choice([x for x in self.types if x[1][1] == (ty,)])
            out = []
            for t in ps:
                out += self.expr(t, d - 1)
            out += [['i32.const', str(r.randrange(0, 4))]]
            self.feat.add('call_indirect')
            ins = ['call_indirect']
            if r.random() < 0.3:
                ins.append('0')
            return out + [ins + ['(type $%s)' % tn]]
        if c == 'select':
            self.feat.add('select')
            ins = ['select']
            if 'select-typed' in self.t and r.random() < 0.6:
                ins.append('(result %s)' % ty)
                self.feat.add('select-typed')
            return self.expr(ty, d - 1) + self.expr(ty, d - 1) + self.expr('i32', d - 1) + [ins]
        if c == 'tee':
            ls = [n for n, t in self.env if t == ty]
            if not ls:
                return [self.const(ty)]
            return self.expr(ty, d - 1) + [['local.tee', r.choice(ls)]]
        if c == 'block':
            kind = r.choice(['block', 'loop'])
            lab = self.ident('L') if r.random() < 0.6 else None
            self.labels.append((lab, kind + '!'))
            inner = []
            for _ in range(r.randrange(0, 2)):
                inner += self.stmt(d - 1)
            inner += self.expr(ty, d - 1)
            if kind == 'block' and r.random() < 0.3:
                inner += [['br', self.label_ref(0)]]          # leaves with the value
            self.labels.pop()
            self.feat.add(kind + '-result')
            return [{'k': kind, 'label': lab, 'results': [ty], 'body': inner}]
        if c == 'if':
            lab = self.ident('I') if r.random() < 0.4 else None
            cond = self.expr('i32', d - 1)
            self.labels.append((lab, 'if!'))
            a = self.expr(ty, d - 1)
            b = self.expr(ty, d - 1)
            self.labels.pop()
            self.feat.add('if-else-result')
            return cond + [{'k': 'if', 'label': lab, 'results': [ty], 'body': a, 'else': b}]
        return [self.const(ty)]

    def const(self, ty):
        r = self.r
        v = self.constval(ty)
        if ty in ('i32', 'i64'):
            if v >= 0 and r.random() < 0.2:
                self.feat.add('hex-literal')
                return ['%s.const' % ty, '0x%x' % v]
            return ['%s.const' % ty, str(v)]
        self.feat.add('float-const')
        return ['%s.const' % ty, float_spelling(r, float(v))]

    def stmt(self, d):
        """stack-neutral instruction sequence"""
        r = self.r
        choices = ['nop', 'drop']
        if self.env:
            choices += ['set', 'set']
        if any(mu for _, _, mu in self.globals):
            choices.append('gset')
        if self.hasmem:
            choices += ['store', 'store', 'bulk']
        if d > 0:
            choices += ['block', 'loop', 'if', 'ifelse', 'brtable', 'callv']
        c = r.choice(choices)
        if c == 'nop':
            if 'nop' in self.t:
                self.feat.add('nop')
                return [['nop']]
            return []
        if c == 'drop':
            return self.expr(r.choice(VT), d) + [['drop']]
        if c == 'set':
            n, t = r.choice(self.env)
            return self.expr(t, d) + [['local.set', n]]
        if c == 'gset':
            n, t, _ = r.choice([g for g in self.globals if g[2]])
            return self.expr(t, d) + [['global.set', '$' + n]]
        if c == 'store':
            op = r.choice(sorted(STORES))
            t, nat = STORES[op]
            ma = self.memarg(nat)
            if op == 'i64.store' and 'i64.store-align2' not in self.t:
                ma = [x for x in ma if x != 'align=2']
            if op == 'i64.store' and 'i64.store-align2' in self.t and r.random() < 0.7:
                ma = [x for x in ma if not x.startswith('align=')] + ['align=2']
                self.feat.add('i64.store-align2')
            self.feat.add('store')
            return self.addr() + self.expr(t, d) + [[op] + ma]
        if c == 'bulk':
            self.feat.add('memory.copy/fill')
            op = r.choice(['memory.copy', 'memory.fill'])
            return [['i32.const', '16'], ['i32.const', '32'], ['i32.const', '8'], [op]]
        if c == 'callv':
            cands = [f for f in self.funcs if f[0] is not None and f[2] == ()]
            if not cands:
                return []
            name, ps, _ = r.choice(cands)
            out = []
            for t in ps:
                out += self.expr(t, d - 1)
            self.feat.add('call')
            return out + [['call', '$' + name]]
        if c in ('block', 'loop'):
            lab = self.ident('B') if r.random() < 0.6 else None
            self.labels.append((lab, c))
            inner = []
            for _ in range(r.randrange(0, 3)):
                inner += self.stmt(d - 1)
            if r.random() < 0.6:
                depth = r.randrange(0, len(self.labels))
                # br_if to any enclosing label that takes no value
                if self.labels_void(depth):
                    inner += self.expr('i32', d - 1) + [['br_if', self.label_ref(depth)]]
                    self.feat.add('br_if')
            if r.random() < 0.15 and self.labels_void(0):
                inner += [['br', self.label_ref(0)]]
                self.feat.add('br')
            self.labels.pop()
            self.feat.add(c)
            if lab:
                self.feat.add('label')
            return [{'k': c, 'label': lab, 'results': [], 'body': inner}]
        if c in ('if', 'ifelse'):
            lab = self.ident('I') if r.random() < 0.3 else None
            cond = self.expr('i32', d - 1)
            self.labels.append((lab, 'if'))
            a = []
            for _ in range(r.randrange(0, 3)):
                a += self.stmt(d - 1)
            b = []
            if c == 'ifelse':
                for _ in range(r.randrange(1, 3)):
                    b += self.stmt(d - 1)
                b = b or [['i32.const', '0'], ['drop']]
                self.feat.add('else')
            self.labels.pop()
            self.feat.add('if')
            return cond + [{'k': 'if', 'label': lab, 'results': [], 'body': a, 'else': b}]
        if c == 'brtable':
            # block $a block $b block $c  <i32>  br_table …  end end end
            n = r.randrange(1, 4)
            labs = [self.ident('T') if r.random() < 0.7 else None for _ in range(n)]
            for l in labs:
                self.labels.append((l, 'block'))
            targets = [self.label_ref(r.randrange(0, n)) for _ in range(r.randrange(1, 5))]
            inner = self.expr('i32', d - 1) + [['br_table'] + targets]
            node = None
            for l in reversed(labs):
                self.labels.pop()
                node = {'k': 'block', 'label': l, 'results': [], 'body': inner}
                inner = [node]
            self.feat.add('br_table')
            return [node]
        return []

    def labels_void(self, depth):
        # statement-level labels are void; labels created by expr() carry a result (kind marked with '!')
        # and must not be the target of a branch without a value
        return not self.labels[-1 - depth][1].endswith('!')


def _esc_str(b, rng=None):
    out = []
    for c in b:
        ch = chr(c)
        if ch == '"':
            out.append('\\"')
        elif ch == '\\':
            out.append('\\\\')
        elif ch == '\n':
            out.append('\\n' if (rng is None or rng.random() < 0.7) else '\\0a')
        elif ch == '\t':
            out.append('\\t')
        elif 32 <= c < 127:
            out.append(ch)
        else:
            out.append('\\%02x' % c if (rng is None or rng.random() < 0.5) else '\\%02X' % c)
    return '"' + ''.join(out) + '"'


def _name_str(s, rng=None):
    """a name (import/export): UTF-8 text; printable non-ASCII is written raw"""
    out = []
    for ch in s:
        if ch == '"':
            out.append('\\"')
        elif ch == '\\':
            out.append('\\\\')
        elif ch == '\n':
            out.append('\\n')
        elif ord(ch) < 32:
            out.append('\\%02x' % ord(ch))
        else:
            out.append(ch)
    return '"' + ''.join(out) + '"'


def render(m, rng):
    """AST -> text, with varied white space and comments"""
    L = []

    def ws():
        return rng.choice([' ', ' ', '  ', ' (; c ;) '])

    def idn(n):
        return '' if n is None else ' $' + n

    def sigtext(sig, pnames=None, multi=False):
        ps, rs = sig
        out = ''
        if pnames and any(pnames):
            for t, n in zip(ps, pnames):
                out += ' (param%s %s)' % (idn(n), t)
        elif multi and len(ps) > 1:
            out += ' (param %s)' % ' '.join(ps)
        else:
            for t in ps:
                out += ' (param %s)' % t
        if rs:
            out += ' (result %s)' % ' '.join(rs)
        return out

    def lim(mn, mx):
        return '%d' % mn + (' %d' % mx if mx else '')

    L.append(';; generated by gen/c05_watgen.py')
    L.append('(module' + idn(m['name']))
    fields = []
    for t in m['types']:
        fields.append(('type', '(type%s (func%s))' % (idn(t['name']), sigtext(t['sig'], t['pnames']))))
    for i in m['imports']:
        if i['kind'] == 'func':
            fields.append(('import', '(import %s %s (func $%s%s))' % (_name_str(i['mod']), _name_str(i['nm']), i['name'],
                                                                    sigtext(i['sig'], i['pnames'], i['multi']))))
        else:
            fields.append(('import', '(import %s %s (global $%s %s))' % (_name_str(i['mod']), _name_str(i['nm']), i['name'], i['ty'])))
    if m['memimport']:
        i = m['memimport']
        fields.append(('import', '(import "%s" "%s" (memory%s %s))' % (i['mod'], i['nm'], idn(i['name']), lim(i['min'], i['max']))))
    if m['memory']:
        fields.append(('memory', '(memory%s %s)' % (idn(m['memory']['name']), lim(m['memory']['min'], m['memory']['max']))))
    if m['table']:
        fields.append(('table', '(table%s %s funcref)' % (idn(m['table']['name']), lim(m['table']['min'], m['table']['max']))))
    for g in m['globals']:
        ty = '(mut %s)' % g['ty'] if g['mut'] else g['ty']
        v = g['val']
        vs = float_spelling(rng, float(v)) if g['ty'] in ('f32', 'f64') else str(v)
        ex = ' (export %s)' % _name_str(g['export']) if g['export'] else ''
        fields.append(('global', '(global $%s%s %s (%s.const %s))' % (g['name'], ex, ty, g['ty'], vs)))
    for f in m['funcs']:
        fields.append(('func', render_func(f, rng)))
    for e in m['exports']:
        ref = '$' + e['ref'] if isinstance(e['ref'], str) else str(e['ref'])
        fields.append(('export', '(export %s (%s %s))' % (_name_str(e['nm']), e['kind'], ref)))
    if m['start']:
        fields.append(('start', '(start $%s)' % m['start']))
    for e in m['elems']:
        fields.append(('elem', '(elem (i32.const %d) %s)' % (e['offset'], ' '.join('$' + x for x in e['funcs']))))
    for d in m['data']:
        fields.append(('data', '(data%s (i32.const %d) %s)' % (idn(d['name']), d['offset'], _esc_str(d['bytes'], rng))))
    # field order is free in the text format; the parser collects by kind.  Keep imports first (the
    # standard requires it) and shuffle the rest in blocks so that relative order within a kind is kept.
    imports = [f for f in fields if f[0] == 'import']
    rest = [f for f in fields if f[0] != 'import']
    kinds = []
    for k, _ in rest:
        if k not in kinds:
            kinds.append(k)
    if rng.random() < 0.5:
        rng.shuffle(kinds)
    for k, t in imports:
        L.append('  ' + t)
    for kd in kinds:
        for k, t in rest:
            if k == kd:
                if rng.random() < 0.1:
                    L.append('  ;; ' + kd)
                L.append('  ' + t)
    L.append(')')
    if rng.random() < 0.3:
        L.append(';; trailing comment')
    return '\n'.join(L) + '\n'


def render_func(f, rng):
    ps, rs = f['sig']
    head = '(func' + ('' if f['name'] is None else ' $' + f['name'])
    if f['export']:
        head += ' (export %s)' % _name_str(f['export'])
    i = 0
    while i < len(ps):
        if f['pnames'][i]:
            head += ' (param $%s %s)' % (f['pnames'][i], ps[i])
            i += 1
        else:
            j = i
            while j < len(ps) and not f['pnames'][j] and rng.random() < 0.5:
                j += 1
            j = max(j, i + 1)
            if any(f['pnames'][k] for k in range(i, j)):
                j = i + 1
            head += ' (param %s)' % ' '.join(ps[i:j])
            i = j
    if rs:
        head += ' (result %s)' % ' '.join(rs)
    out = [head]
    for n, t in f['locals']:
        out.append('    (local%s %s)' % ('' if n is None else ' $' + n, t))

    def ins(x, ind):
        pad = '    ' + '  ' * ind
        if isinstance(x, dict):
            h = x['k'] + ('' if x['label'] is None else ' $' + x['label'])
            if x['results']:
                h += ' (result %s)' % ' '.join(x['results'])
            out.append(pad + h)
            for y in x['body']:
                ins(y, ind + 1)
            if x['k'] == 'if' and x.get('else'):
                out.append(pad + 'else')
                for y in x['else']:
                    ins(y, ind + 1)
            out.append(pad + 'end' + (' ;; ' + x['k'] if rng.random() < 0.1 else ''))
        else:
            out.append(pad + ' '.join(x))

    for x in f['body']:
        ins(x, 0)
    out.append('  )')
    return '\n'.join(out)


def gen_module(rng, size=1, triggers=()):
    g = G(rng, size, triggers)
    ast = g.module()
    mod = Mod()
    mod.ast = ast
    mod.text = render(ast, rng)
    mod.features = set(g.feat)
    return mod


# ---------------------------------------------------------------------------------------------------
# fixed modules: one per module-field kind / listed trigger, small enough to read in a replay file
FIXED = {
    'export-func-separate': '(module $m\n  (func $g (result i32) i32.const 7)\n  (export "g" (func $g))\n)\n',
    'start': '(module\n  (memory 1)\n  (func $init i32.const 0 i32.const 1 i32.store)\n  (func $main (export "main") (result i32) i32.const 0 i32.load)\n  (start $init)\n)\n',
    'data-name': '(module\n  (memory 1)\n  (data $d1 (i32.const 8) "hi\\00\\ff\\n")\n)\n',
    'i64.store-align2': '(module\n  (memory 1)\n  (func $f (export "f") (param $a i64)\n    i32.const 0\n    local.get $a\n    i64.store align=2\n  )\n)\n',
    'unnamed-func': '(module\n  (func (export "f") (result i32) i32.const 1)\n)\n',
    'numeric-ident': '(module\n  (func $1 (export "f") (param $0 i32) (param $x i32) (result i32) local.get $0)\n)\n',
    'export-name-escape': '(module\n  (memory 1)\n  (export "m\\"q" (memory 0))\n)\n',
    'import-name-escape': '(module\n  (import "env" "a\\01b" (func $f))\n)\n',
    'import-table': '(module\n  (import "env" "tab" (table 1))\n)\n',
    'import-param-names': '(module\n  (import "env" "f" (func $f (param $x i32) (param $y i64)))\n)\n',
    'type-param-names': '(module\n  (type $t (func (param $x i32) (result i32)))\n  (table 1 funcref)\n  (func $f (export "f") (param $a i32) (result i32) local.get $a i32.const 0 call_indirect (type $t))\n)\n',
    'plain': '(module $plain\n  (import "env" "log" (func $log (param i32)))\n  (memory $mem 1 2)\n  (table $tab 2 funcref)\n  (type $t (func (param i32) (result i32)))\n  (global $g (mut i32) (i32.const 5))\n  (global $c i64 (i64.const -9))\n  (export "memory" (memory $mem))\n  (export "g" (global $g))\n  (func $id (export "id") (param $a i32) (result i32)\n    (local $t i32)\n    block $out (result i32)\n      local.get $a\n      local.tee $t\n      i32.const 0\n      call_indirect (type $t)\n      local.get $t\n      br_if $out\n      loop $again\n        local.get $t\n        i32.eqz\n        br_if $again\n      end\n    end\n    global.get $g\n    i32.add\n  )\n  (func $two (param i32) (result i32) local.get 0 i32.const 2 i32.mul)\n  (elem (i32.const 0) $two $id)\n  (data (i32.const 16) "a\\"b\\\\c\\n\\00")\n)\n',
}


# ---------------------------------------------------------------------------------------------------
# modules with MANY distinct function types: multi-value block/loop/if types and call_indirect type uses
# placed at chosen type indices (the block type index is a SIGNED 33-bit LEB128: 63|64 and 8191|8192 are
# the boundaries where it stops coinciding with the unsigned form; 127|128 the unsigned boundary)
def _filler_sig(i):
    """the i-th parameter list in bijective base-4 numeration (length >= 1, no results): all distinct"""
    i += 1
    ps = []
    while i > 0:
        i -= 1
        ps.append(VT[i % 4])
        i //= 4
    return tuple(ps)


MV_RESULTS = [('i32', 'i64'), ('i64', 'i32'), ('i32', 'i32'), ('i64', 'i64'), ('f32', 'i32'), ('i32', 'f32'), ('f64', 'i32'),
              ('i32', 'f64'), ('i32', 'i32', 'i32'), ('i64', 'f64'), ('f32', 'f32'), ('f64', 'f64'), ('i32', 'i64', 'i32'),
              ('f32', 'f64'), ('f64', 'f32'), ('i64', 'i32', 'i64')]
_CONST = {'i32': 'i32.const 1', 'i64': 'i64.const 2', 'f32': 'f32.const 1.5', 'f64': 'f64.const 2.5'}


def gen_many_types(rng, targets=(63, 64, 127, 128), mode=None, extra=3):
    """A valid module whose type section has a multi-value block type at every index in `targets` (filler
    signatures everywhere else, `extra` more after the last target).
    mode 'explicit': every type is an explicit (type …) definition; 'funcs': every type is introduced by a
    function signature (in function order); 'mixed': explicit up to a random split point, functions afterwards.
    For each target: one function using block, loop or if with that multi-value result type, and (when the
    neighbouring filler type is an explicit, named one) a call_indirect (type $t<k>) of the filler type next to it."""
    mode = mode or rng.choice(['explicit', 'funcs', 'mixed'])
    targets = sorted(set(targets))
    assert len(targets) <= len(MV_RESULTS)
    n = targets[-1] + 1 + extra
    split = n if mode == 'explicit' else (0 if mode == 'funcs' else rng.randrange(1, n))
    slots = []                     # per type index: ('mv', results) | ('fill', params)
    res_of = {}
    order = list(MV_RESULTS)
    rng.shuffle(order)
    fi = 0
    for k in range(n):
        if k in targets:
            res_of[k] = order[len(res_of)]
            slots.append(('mv', res_of[k]))
        else:
            slots.append(('fill', _filler_sig(fi)))
            fi += 1
    L = [';; generated by gen/c05_watgen.py gen_many_types mode=%s targets=%s' % (mode, list(targets)), '(module $many']
    for k in range(split):
        kind, sig = slots[k]
        if kind == 'mv':
            L.append('  (type $t%d (func (result %s)))' % (k, ' '.join(sig)))
        else:
            L.append('  (type $t%d (func%s))' % (k, ''.join(' (param %s)' % t for t in sig)))
    L.append('  (table 1 funcref)')
    # the functions that USE the multi-value types; in 'funcs'/'mixed' mode a function's own signature introduces the
    # type, so these must come at the right place among the fillers: build the function list in slot order instead
    funcs = []
    for k in range(split, n):
        kind, sig = slots[k]
        if kind == 'fill':
            funcs.append('  (func $fill%d%s)' % (k, ''.join(' (param %s)' % t for t in sig)))
        else:
            funcs.append(_mv_func(rng, k, sig))
    for k in targets:
        if k < split:
            funcs.append(_mv_func(rng, k, res_of[k]))
    # call_indirect through the explicit filler types next to the targets
    for k in targets:
        for j in (k - 1, k + 1):
            if 0 <= j < split and slots[j][0] == 'fill':
                ps = slots[j][1]
                body = '\n'.join('    ' + _CONST[t] for t in ps)
                funcs.append('  (func $ci%d_%d\n%s\n    i32.const 0\n    call_indirect (type $t%d)\n  )' % (k, j, body, j))
    L += funcs
    L.append(')')
    mod = Mod()
    mod.text = '\n'.join(L) + '\n'
    mod.features = {'many-types', 'many-types:' + mode} | {'blocktype-index-%d' % k for k in targets}
    return mod


def _mv_func(rng, k, res):
    kind = rng.choice(['block', 'loop', 'if'])
    consts = '\n'.join('      ' + _CONST[t] for t in res)
    head = '  (func $mv%d (export "mv%d") (result %s)\n' % (k, k, ' '.join(res))
    if kind == 'if':
        return head + '    i32.const 1\n    if (result %s)\n%s\n    else\n%s\n    end\n  )' % (' '.join(res), consts, consts)
    return head + '    %s $L%d (result %s)\n%s\n    end\n  )' % (kind, k, ' '.join(res), consts)


# ---------------------------------------------------------------------------------------------------
# deterministic probes (always in the quick tier): special float constants and data segments of boundary lengths
FLOAT_LITERALS = {
    # spelling -> widths it is valid for.  inf / nan / nan:0x… / +1.5 / 0x10-after-f32.const have no spelling Wa's parser accepts.
    'f32': ['0', '-0', '0.0', '-0.0', '-0e0', '-0x0p+0', '1', '-1', '1.5', '-2.25', '.5', '5.', '1e10', '1E5', '1e-10', '0x1p-3', '-0x1.8p1',
            '1e-45', '-1e-45', '1.401298464324817e-45', '1.1754942e-38', '1.1754943508222875e-38', '3.4028234663852886e+38', '-3.4028235e38',
            '16777216', '16777217', '9007199254740993', '123456789012345678901234567890', '0.1', '0.30000000000000004', '1_000', '1e-400', '-1e-400'],
    'f64': ['0', '-0', '0.0', '-0.0', '-0e0', '-0x0p+0', '1', '-1', '1.5', '-2.25', '.5', '5.', '1e10', '1E5', '1e-10', '0x1p-3', '-0x1.8p1',
            '5e-324', '-5e-324', '4.9406564584124654e-324', '2.2250738585072014e-308', '2.225073858507201e-308', '1.7976931348623157e+308',
            '-1.7976931348623157e308', '16777217', '9007199254740993', '123456789012345678901234567890', '0.1', '0.30000000000000004',
            '1_000', '1e-400', '-1e-400', '0x1.fffffffffffffp+1023', '0x0.0000000000001p-1022'],
}


def float_const_module():
    L = [';; special float constants as instruction operands and as global initialisers', '(module $floats']
    for ty in ('f32', 'f64'):
        for i, lit in enumerate(FLOAT_LITERALS[ty]):
            L.append('  (global $g_%s_%d %s%s (%s.const %s))' % (ty, i, '(mut %s)' % ty if i % 2 else ty, '', ty, lit))
    for ty in ('f32', 'f64'):
        L.append('  (func $consts_%s (export "consts_%s") (result %s)' % (ty, ty, ty))
        for i, lit in enumerate(FLOAT_LITERALS[ty]):
            L.append('    %s.const %s' % (ty, lit))
            if i:
                L.append('    %s.copysign' % ty)          # keeps the sign of every constant observable
        L.append('  )')
    L.append(')')
    return '\n'.join(L) + '\n'


def _pattern(n, salt):
    special = b'"\\\'\n\t\x00\xff;()$ '
    return bytes(special[(i // 7) % len(special)] if i % 7 == salt % 7 else (i * 7 + 3 + salt) & 0xff for i in range(n))


def data_boundary_module(lengths, pages):
    """data segments of the given lengths (all 256 byte values, quotes, backslashes), laid out one after the other"""
    L = [';; data segments of boundary lengths %s' % list(lengths), '(module $databounds', '  (memory %d)' % pages]
    off = 16
    for k, n in enumerate(lengths):
        b = _pattern(n, k)
        # mixed spelling: raw printable characters, named escapes, two-digit hex escapes
        parts = []
        for i, c in enumerate(b):
            ch = chr(c)
            if ch == '"':
                parts.append('\\"')
            elif ch == '\\':
                parts.append('\\\\')
            elif ch == '\n' and i % 2:
                parts.append('\\n')
            elif 32 <= c < 127 and i % 3:
                parts.append(ch)
            else:
                parts.append('\\%02x' % c)
        L.append('  (data (i32.const %d) "%s")' % (off, ''.join(parts)))
        off += n + 5
    L.append('  (func $peek (export "peek") (param $a i32) (result i32) local.get $a i32.load8_u)')
    L.append(')')
    return '\n'.join(L) + '\n'


FIXED['float-consts'] = float_const_module()
FIXED['data-lengths-block'] = data_boundary_module([0, 1, 255, 256, 4095, 4096, 4097, 8191, 8192, 8193, 12288], 2)
FIXED['data-lengths-64k'] = data_boundary_module([65535, 65536, 65537, 4096], 4)
