"""Pairwise interaction matrix (enumerated): pairs of function signatures used through function values
(indirect calls, closure types), and ordered pairs of defer kinds in one function. Single-source Go/WaGo text."""

SIGS = [  # (params, results) as Go type lists
    ((), ()), (("int32",), ()), ((), ("int32",)), (("int32",), ("int32",)), (("int32", "int32"), ()),
    ((), ("int32", "int32")), (("int32",), ("int32", "int32")), (("int64",), ()), ((), ("int64",)),
    (("int32", "int64"), ()), (("int64",), ("int32",)), (("float64",), ()), ((), ("float64",)),
    (("string",), ()), ((), ("string",)), (("int32", "int32"), ("int32",)),
]
VAL = {"int32": "int32(%d)", "int64": "int64(%d)", "float64": "float64(%d)", "string": "strs[%d %% 3]"}
SHOW = {"int32": "%s", "int64": "%s", "float64": "int32(%s)", "string": "%s"}


def sig_type(s):
    p, r = s
    rs = "" if not r else (" " + r[0] if len(r) == 1 else " (" + ", ".join(r) + ")")
    return "func(" + ", ".join(p) + ")" + rs


def fn_decl(name, s, k):
    p, r = s
    params = ", ".join("p%d %s" % (i, t) for i, t in enumerate(p))
    rs = "" if not r else (" " + r[0] if len(r) == 1 else " (" + ", ".join(r) + ")")
    body = ["\tacc = acc + %d" % k]
    for i, t in enumerate(p):
        body.append("\tprintln(%s)" % (SHOW[t] % ("p%d" % i)))
    if r:
        body.append("\treturn " + ", ".join(VAL[t] % (k + i) for i, t in enumerate(r)))
    return "func %s(%s)%s {\n%s\n}\n" % (name, params, rs, "\n".join(body))


def call_stmt(var, s, k):
    p, r = s
    args = ", ".join(VAL[t] % (k + 10 + i) for i, t in enumerate(p))
    if not r:
        return "\t%s(%s)" % (var, args)
    names = ["r%s%d" % (var, i) for i in range(len(r))]
    return "\t%s := %s(%s)\n\tprintln(%s)" % (", ".join(names), var, args, ", ".join(SHOW[t] % n for t, n in zip(r, names)))


def sig_pair_program(a, b, first_name, second_name):
    """two function types used as function VALUES held in package-level variables and passed as
    parameters (so the calls are indirect); the function compiled first is `first_name`"""
    src = "package main\n\nvar strs = [3]string{\"a\", \"bb\", \"ccc\"}\n\nvar acc int32\n\n"
    src += "var ga %s\n\nvar gb %s\n\n" % (sig_type(a), sig_type(b))
    src += fn_decl(first_name, a, 1) + "\n" + fn_decl(second_name, b, 2) + "\n"
    src += "func use_a(va %s) {\n%s\n}\n\n" % (sig_type(a), call_stmt("va", a, 4))
    src += "func use_b(vb %s) {\n%s\n}\n\n" % (sig_type(b), call_stmt("vb", b, 5))
    src += "func main() {\n\tga = %s\n\tgb = %s\n" % (first_name, second_name)
    src += call_stmt("ga", a, 1) + "\n" + call_stmt("gb", b, 2) + "\n"
    src += "\tuse_a(ga)\n\tuse_b(gb)\n"
    # the same types as closure literals capturing a local
    src += "\tk := int32(5)\n\tca := %s {\n\t\tacc = acc + k\n%s\t}\n" % (closure_head(a), closure_ret(a))
    src += "\tcb := %s {\n\t\tacc = acc + k + 1\n%s\t}\n" % (closure_head(b), closure_ret(b))
    src += "\tuse_a(ca)\n\tuse_b(cb)\n\tprintln(acc)\n}\n"
    return src


def closure_head(s):
    p, r = s
    params = ", ".join("q%d %s" % (i, t) for i, t in enumerate(p))
    rs = "" if not r else (" " + r[0] if len(r) == 1 else " (" + ", ".join(r) + ")")
    return "func(%s)%s" % (params, rs)


def closure_ret(s):
    p, r = s
    if not r:
        return ""
    return "\t\treturn " + ", ".join(VAL[t] % (7 + i) for i, t in enumerate(r)) + "\n"


DEFER_PRE = '''package main

type T struct{ n int32 }

func (t *T) M() { println(t.n) }

type I interface{ M() }

func plain(x int32) { println(x) }

'''
DEFER_KINDS = {
    "plain": "defer plain(%d)",
    "closure": "defer func() {\n\t\tprintln(loc + %d)\n\t}()",
    "method": "defer tp.M()",
    "iface": "defer iv.M()",
    "fnvalue": "defer fv(%d)",
    "builtin": "defer println(%d)",
}


def defer_pair_program(k1, k2):
    body = "\tloc := int32(100)\n\ttp := &T{n: 7}\n\tvar iv I = &T{n: 9}\n\tfv := plain\n\tloc = loc + tp.n\n\tiv.M()\n\tfv(1)\n"
    s1 = DEFER_KINDS[k1]
    s2 = DEFER_KINDS[k2]
    body += "\t" + (s1 % 11 if "%d" in s1 else s1) + "\n\t" + (s2 % 22 if "%d" in s2 else s2) + "\n\tprintln(loc)\n"
    return DEFER_PRE + "func work() {\n" + body + "}\n\nfunc main() {\n\twork()\n\tprintln(0)\n}\n"


def all_programs():
    out = []
    for i, a in enumerate(SIGS):
        for j, b in enumerate(SIGS):
            if i == j:
                continue
            # compile order follows the function names: a_* before b_*
            out.append((("sigpair", "%d-%d" % (i, j)), sig_pair_program(a, b, "a_fn%d" % i, "b_fn%d" % j)))
    for k1 in DEFER_KINDS:
        for k2 in DEFER_KINDS:
            out.append((("deferpair", "%s-%s" % (k1, k2)), defer_pair_program(k1, k2)))
    return out
