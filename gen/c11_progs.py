"""Workloads for C11 / C12 (python3 stdlib only).  All programs are Go syntax = Wa's WaGo mode (`*.wa.go`).

  aliasing_programs()            -> [(name, src)]  hand-written aliasing-heavy templates, one program each (C11)
  aliasing_combined()            -> (name, src)    all of them in one program (quick tier)
  loop_program(bodies, n)        -> src            sequential loops `for i<n { body_k(i) }` with checkpoints (C12)
  LOOP_BODIES                    -> {name: (decls, body)}  acyclic, everything dies with the iteration
  CYCLE_BODIES                   -> negative companion (reference cycles: by design never reclaimed)
  matrix_loop_programs(n)        -> [(type, src, [context names])] the C16/C01 feature matrix, every (type, context)
                                    body run n times in its own loop
  random_alias_program(rng)      -> (name, src)    random composition of aliasing operations over a small pool

  ALIAS (= first batch + ALIAS2 + ALIAS3)  aliasing templates; LOOP_BODIES (+2..6) loop bodies; KNOWN_CAUSE maps the loop bodies that
  exercise a recorded defect to its root-cause key (used by checks/c12.py to attribute their verdicts to the known finding).

Checkpoint convention: a line "CP <loop> <n>" is printed after n iterations, n in checkpoints(N) = {4, 10, 100, 1000, 5000, ...} <= N;
loop bodies are called with i % 37 so that every allocation shape occurs before the checkpoint at 100.
Wa limits respected (gen/findings.py): no `name []T` fields/parameters (named slice/array types), pointer receivers only, map
deletes only of extreme or absent keys in the C11 templates, no nil maps, no nested closures capturing outer literals' locals.
"""
import re

HELPERS = '''
type S struct {
	a int32
	b string
}

type Node struct {
	v    int32
	name string
	next *Node
}

type I32s []int32

type Strs []string

type W struct {
	s    I32s
	name string
	p    *S
}

type Ws []W

type I interface {
	M() int32
}

type A struct{ x int32 }

func (a *A) M() int32 { return a.x }

type PA struct {
	x int32
	t string
}

func (p *PA) M() int32 { return p.x + int32(len(p.t)) }

const digits = "0123456789"

func itoa(n int) string {
	if n == 0 {
		return "0"
	}
	s := ""
	neg := n < 0
	if neg {
		n = -n
	}
	for n > 0 {
		d := n % 10
		s = digits[d:d+1] + s
		n = n / 10
	}
	if neg {
		s = "-" + s
	}
	return s
}

// churn allocates and drops blocks of many sizes so that freed memory is handed out again and overwritten.
func churn(k int) int32 {
	var acc int32
	for j := 0; j < 6; j++ {
		b := make([]int32, (k+j)%9+1)
		for q := range b {
			b[q] = int32(0x5a5a5a5a)
		}
		t := "churn" + itoa(k*7+j)
		p := &S{int32(j), t}
		acc += b[0]&1 + int32(len(p.b))
	}
	return acc & 0xff
}
'''

# ------------------------------------------------------------------------------------------------
# C11: aliasing-heavy templates.  Each is (decls, body of `func tN(k int)`), prints only ints/strings.

ALIAS = {
    "slices_share_backing": ("", '''
	a := make([]int32, 0, 4)
	for i := 0; i < 4; i++ {
		a = append(a, int32(i+k))
	}
	b := a[1:3]
	c := a[2:]
	a = append(a, 100)
	a[0] = 55
	b[0] = 7
	a = nil
	churn(k)
	println(b[0], b[1], c[0], c[1], len(b), len(c), cap(b))
	b = nil
	churn(k + 1)
	println(c[0], c[1])
'''),
    "slices_of_slices": ("", '''
	var rows [][]int32
	for i := 0; i < 5; i++ {
		row := make([]int32, i+1)
		for j := range row {
			row[j] = int32(i*10 + j + k)
		}
		rows = append(rows, row)
	}
	sub := rows[1:4]
	inner := rows[4][2:]
	rows = nil
	churn(k)
	println(len(sub), sub[0][1], sub[2][3], inner[0], inner[2])
	sub[1] = inner
	inner = nil
	churn(k + 2)
	println(sub[1][1], len(sub[1]))
	first := sub[0]
	sub = nil
	churn(k + 3)
	println(first[0], first[1])
'''),
    "append_growth_old_alive": ("", '''
	s := []int32{1, 2, 3}
	var olds [][]int32
	for i := 0; i < 12; i++ {
		old := s
		s = append(s, int32(i+k))
		if i%3 == 0 {
			olds = append(olds, old)
		}
		churn(i)
	}
	var t int32
	for _, o := range olds {
		t += o[len(o)-1] + int32(len(o))
	}
	println(t, len(s), s[14])
	s = nil
	churn(k)
	println(olds[3][2], len(olds[3]))
'''),
    "closure_outlives_frame": ('''
func mkCounter(k int) func() int32 {
	c := int32(k)
	s := []int32{1, 2, 3}
	name := "ctr" + itoa(k)
	return func() int32 {
		c++
		s[0] += c
		return s[0] + int32(len(name))
	}
}

func mkPair(k int) (func(int32), func() string) {
	buf := make([]string, 0)
	set := func(v int32) {
		buf = append(buf, itoa(int(v)+k))
	}
	get := func() string {
		r := ""
		for _, x := range buf {
			r = r + x + ","
		}
		return r
	}
	return set, get
}
''', '''
	f := mkCounter(k)
	g := mkCounter(k + 5)
	churn(k)
	println(f(), f(), g())
	set, get := mkPair(k)
	set(1)
	churn(k)
	set(22)
	set = nil
	churn(k + 1)
	println(get())
	fs := make([]func() int32, 0)
	for i := 0; i < 3; i++ {
		fs = append(fs, mkCounter(i))
	}
	f = nil
	churn(k)
	println(fs[0](), fs[2](), fs[2](), g())
'''),
    "interface_boxing_pointers": ('''
func boxed(k int) interface{} {
	p := &S{int32(k), "boxed" + itoa(k)}
	return p
}

func asI(k int) I {
	return &PA{int32(k), "pa" + itoa(k)}
}
''', '''
	e := boxed(k)
	var i1 I = asI(k)
	var i2 I = &A{int32(k + 1)}
	churn(k)
	p := e.(*S)
	println(p.a, p.b, i1.M(), i2.M())
	e = nil
	churn(k + 1)
	println(p.a, p.b)
	var es []interface{}
	es = append(es, p, i1, "str"+itoa(k), int32(k), []int32{int32(k), 2})
	p = nil
	i1 = nil
	churn(k + 2)
	for _, x := range es {
		switch v := x.(type) {
		case *S:
			println("S", v.a, v.b)
		case I:
			println("I", v.M())
		case string:
			println("s", v)
		case int32:
			println("i", v)
		case []int32:
			println("sl", v[0], len(v))
		}
	}
'''),
    "map_values_refs": ("", '''
	m := map[string][]int32{}
	ms := map[int32]string{}
	mp := map[int32]*S{}
	for i := 0; i < 6; i++ {
		key := "k" + itoa(i%3)
		m[key] = append(m[key], int32(i+k))
		ms[int32(i)] = "v" + itoa(i*k)
		mp[int32(i)] = &S{int32(i), key}
	}
	keep := m["k0"]
	ks := ms[5]
	kp := mp[0]
	delete(m, "k0")
	delete(ms, 5)
	delete(mp, 0)
	m["k1"] = nil
	ms[1] = "over" + itoa(k)
	churn(k)
	println(keep[0], keep[1], len(keep), ks, kp.a, kp.b, len(m), len(ms), len(mp))
	println(ms[1], ms[0], mp[5].b, len(m["k2"]), m["k2"][1])
	m = map[string][]int32{}
	ms = map[int32]string{}
	mp = map[int32]*S{}
	churn(k + 1)
	println(keep[1], ks, kp.b)
'''),
    "struct_copies_with_refs": ('''
func fill(k int) W {
	return W{s: []int32{int32(k), 2, 3}, name: "w" + itoa(k), p: &S{int32(k), "inner" + itoa(k)}}
}

func modify(w W) W {
	w.s = append(w.s, 9)
	w.name = w.name + "!"
	return w
}
''', '''
	w := fill(k)
	w2 := w
	w3 := modify(w)
	w.s = nil
	w.name = "gone" + itoa(k)
	w.p = nil
	churn(k)
	println(w2.s[0], w2.name, w2.p.b, w3.s[3], w3.name, w.name)
	arr := [2]W{w2, w3}
	w2 = W{}
	w3 = W{}
	churn(k + 1)
	println(arr[0].s[2], arr[1].name, arr[0].p.a)
	pw := &arr[1]
	cp := *pw
	arr = [2]W{}
	churn(k + 2)
	println(cp.name, cp.s[0], len(cp.s))
'''),
    "defer_captured_refs": ('''
func withDefer(k int) (r int32) {
	s := []int32{int32(k), 2}
	str := "ab" + itoa(k)
	p := &S{int32(k), str}
	defer func() {
		println("deferred", s[0], str, p.b)
		r = r + s[1]
	}()
	defer println("arg", str, p.a)
	s = []int32{int32(k + 1), 7}
	str = "changed"
	p = &S{9, "newp" + itoa(k)}
	churn(k)
	return 10
}

func deferLoop(k int) {
	for i := 0; i < 3; i++ {
		t := "it" + itoa(i+k)
		defer func() {
			println(t)
		}()
	}
	churn(k)
}
''', '''
	println(withDefer(k))
	deferLoop(k)
	churn(k)
'''),
    "strings_sliced": ("", '''
	big := ""
	for i := 0; i < 8; i++ {
		big = big + itoa(i+k) + "-"
	}
	sub := big[2:7]
	tail := big[len(big)-3:]
	bs := []byte(big)
	big = ""
	churn(k)
	println(sub, tail, len(bs), int32(bs[1]))
	sub2 := sub[1:3]
	sub = ""
	joined := tail + sub2
	tail = ""
	churn(k + 1)
	println(sub2, joined, string(bs[0:4]))
	parts := make([]string, 0)
	src := "alpha,beta,gamma," + itoa(k)
	start := 0
	for i := 0; i < len(src); i++ {
		if src[i] == ',' {
			parts = append(parts, src[start:i])
			start = i + 1
		}
	}
	parts = append(parts, src[start:])
	src = ""
	churn(k + 2)
	println(len(parts), parts[0], parts[2], parts[3])
'''),
    "multi_aggregate_results": ('''
func many(k int) ([]int32, string, *S, map[int32]string, func() int32, I) {
	s := []int32{int32(k), 1}
	return s, "m" + itoa(k), &S{int32(k), "ms"}, map[int32]string{1: "one" + itoa(k)}, func() int32 { return s[0] + 1 }, &PA{3, "x" + itoa(k)}
}

func swap2(a, b I32s) (I32s, I32s) {
	return b, a
}
''', '''
	a, _, p, _, f, _ := many(k)
	_, str, _, m, _, i := many(k + 1)
	churn(k)
	println(a[0], p.b, f(), str, m[1], i.M())
	x, y := swap2(a, []int32{9, 8, 7})
	a = nil
	x, y = swap2(x, y)
	x, y = y, x
	churn(k + 1)
	println(x[0], len(x), y[0], len(y))
	many(k + 2)
	churn(k)
'''),
    "linked_list_partial_retention": ('''
func build(n int, k int) *Node {
	var head *Node
	for i := 0; i < n; i++ {
		head = &Node{int32(i + k), "n" + itoa(i), head}
	}
	return head
}
''', '''
	head := build(8, k)
	tail := head.next.next.next
	mid := head.next
	head = nil
	churn(k)
	println(tail.v, tail.name, mid.v, mid.next.next.name)
	mid = nil
	churn(k + 1)
	var sum int32
	for p := tail; p != nil; p = p.next {
		sum += p.v + int32(len(p.name))
	}
	println(sum)
	tail.next.next = nil
	churn(k + 2)
	println(tail.next.name)
	tail = tail.next
	churn(k + 3)
	println(tail.v, tail.name)
'''),
    "pointers_into_aggregates": ('''
func esc(k int) *int32 {
	x := int32(k + 5)
	return &x
}

func fieldPtr(k int) *string {
	w := &S{int32(k), "field" + itoa(k)}
	return &w.b
}

func elemPtr(k int) *int32 {
	s := make([]int32, 4)
	s[2] = int32(k + 40)
	return &s[2]
}

func arrPtr(k int) *string {
	var a [3]string
	a[1] = "arr" + itoa(k)
	return &a[1]
}
''', '''
	p := esc(k)
	q := fieldPtr(k)
	r := elemPtr(k)
	t := arrPtr(k)
	churn(k)
	println(*p, *q, *r, *t)
	*q = *q + "+"
	*r += 1
	pp := &p
	churn(k + 1)
	println(**pp, *q, *r)
'''),
    "self_assignment_and_swaps": ("", '''
	s := []int32{int32(k), 2, 3, 4, 5}
	s = s
	s = s[:]
	s = append(s[:1], s[2:]...)
	str := "self" + itoa(k)
	str = str
	str = str[0:len(str)]
	n := &Node{1, "a" + itoa(k), &Node{2, "b" + itoa(k), nil}}
	n.next = n.next
	n = n
	ss := []string{"x" + itoa(k), "y" + itoa(k), "z" + itoa(k)}
	ss[0], ss[2] = ss[2], ss[0]
	ss[1] = ss[1]
	ss[0], ss[0] = ss[0], ss[0]
	m := map[string]string{"a": "va" + itoa(k)}
	m["a"] = m["a"]
	churn(k)
	println(s[0], s[1], len(s), str, n.next.name, ss[0], ss[1], ss[2], m["a"])
	n, n.next = n.next, nil
	churn(k + 1)
	println(n.name)
'''),
    "method_values_and_bound": ('''
type Acc struct {
	items Strs
	total int32
}

func (a *Acc) Add(s string) {
	a.items = append(a.items, s)
	a.total += int32(len(s))
}

func (a *Acc) Snapshot() Strs {
	return a.items
}

func newAdder(k int) func(string) {
	a := &Acc{}
	a.Add("seed" + itoa(k))
	return a.Add
}
''', '''
	a := &Acc{}
	add := a.Add
	add("one" + itoa(k))
	add("two")
	snap := a.Snapshot()
	a.Add("three")
	f := newAdder(k)
	f("x")
	a2 := a
	a = nil
	add = nil
	churn(k)
	println(len(snap), snap[0], a2.total, len(a2.items), a2.items[2])
	f("y")
	a2 = nil
	churn(k + 1)
	println(snap[1])
'''),
    "globals_overwritten": ('''
var gS I32s
var gStr string
var gP *Node
var gF func() string
var gW W
''', '''
	gS = []int32{int32(k), 1}
	gStr = "g" + itoa(k)
	gP = &Node{int32(k), "gn" + itoa(k), nil}
	gW = W{s: []int32{int32(k), 9}, name: "gw" + itoa(k), p: &S{1, "gwp" + itoa(k)}}
	loc := gStr
	gF = func() string { return loc + "!" }
	oldS, oldP, oldM := gS, gP, gW.s
	gS = append(gS, 3, 4, 5, 6, 7, 8)
	gStr = "new"
	gP = &Node{0, "fresh", gP}
	gW.s = nil
	oldW := gW
	gW = W{}
	churn(k)
	println(oldS[0], len(oldS), oldP.name, oldM[0], gP.next.name, gF(), gS[7], oldW.p.b, oldW.name)
	gS, gP, gF = nil, nil, nil
	churn(k + 1)
	println(oldS[1], oldP.name, oldM[0])
'''),
    "early_exits_with_live_refs": ('''
func find(words Strs, k int) (string, bool) {
	for i, w := range words {
		t := w + itoa(i)
		if len(t) > 5 {
			continue
		}
		if i == k%len(words) {
			return t, true
		}
	}
	return "", false
}

func nested(k int) []int32 {
	out := make([]int32, 0)
outer:
	for i := 0; i < 4; i++ {
		row := make([]int32, 3)
		for j := 0; j < 3; j++ {
			tmp := []int32{int32(i), int32(j)}
			if j == 2 {
				continue outer
			}
			if i == 3 {
				break outer
			}
			row[j] = tmp[0] + tmp[1] + int32(k)
			out = append(out, row[j])
		}
	}
	return out
}

func sw(k int) string {
	s := "sw" + itoa(k)
	switch k % 3 {
	case 0:
		t := s + "zero"
		return t
	case 1:
		t := s + "one"
		if k > 100 {
			return s
		}
		s = t
	}
	return s + "."
}
''', '''
	w, ok := find([]string{"a", "bbbbb", "cc", "d"}, k)
	println(w, ok)
	o := nested(k)
	churn(k)
	println(len(o), o[0], o[len(o)-1])
	println(sw(k), sw(k+1), sw(k+2))
'''),
    "slice_of_struct_with_refs": ("", '''
	ws := make(Ws, 0)
	for i := 0; i < 5; i++ {
		ws = append(ws, W{s: []int32{int32(i + k)}, name: "e" + itoa(i), p: &S{int32(i), "p" + itoa(i)}})
	}
	first := ws[0]
	ws[0] = ws[4]
	ws = ws[:3]
	ws = append(ws, W{name: "tail" + itoa(k)})
	copy(ws[1:], ws[0:2])
	pe := &ws[2]
	churn(k)
	println(first.name, first.s[0], ws[0].name, ws[1].name, ws[2].p.b, pe.name, ws[3].name)
	for i, e := range ws {
		e.name = e.name + "~"
		ws[i].s = append(ws[i].s, int32(len(e.name)))
	}
	ws2 := ws[1:2]
	ws = nil
	churn(k + 1)
	println(ws2[0].name, ws2[0].s[0], len(ws2[0].s), pe.p.a)
'''),
    "copy_and_overlap": ("", '''
	a := []string{"a" + itoa(k), "b" + itoa(k), "c" + itoa(k), "d" + itoa(k)}
	b := make([]string, 3)
	n := copy(b, a)
	copy(a, a[1:])
	copy(a[1:], a)
	a[0] = "fresh" + itoa(k)
	churn(k)
	println(n, b[0], b[2], a[0], a[1], a[2], a[3])
	var arr [3][]int32
	arr[0] = []int32{int32(k)}
	arr[1] = arr[0]
	arr2 := arr
	arr[0] = nil
	arr[1] = nil
	churn(k + 1)
	println(arr2[0][0], arr2[1][0], len(arr2[2]))
'''),
}

# ------------------------------------------------------------------------------------------------
# C12: loop bodies.  `func <name>(i int) int32`; everything allocated dies with the iteration, no cycles.

LOOP_BODIES = {
    "strcat": ("", '''
	s := ""
	for j := 0; j < 5; j++ {
		s = s + itoa(i+j) + "."
	}
	return int32(len(s))
'''),
    "strcat_varlen": ("", '''
	s := "x"
	for j := 0; j < i%17; j++ {
		s = s + s[0:1] + itoa(j)
	}
	t := s[len(s)/2:]
	return int32(len(s) + len(t))
'''),
    "slice_make_append": ("", '''
	s := make([]int32, 0)
	for j := 0; j < i%13+2; j++ {
		s = append(s, int32(i+j))
	}
	t := make([]int64, i%5+1)
	u := s[1:]
	return s[0] + int32(len(t)) + u[0]
'''),
    "slice_of_slices": ("", '''
	var rows [][]int32
	for j := 0; j < 4; j++ {
		rows = append(rows, make([]int32, j+1))
	}
	rows[0] = rows[3][1:]
	sub := rows[1:3]
	return int32(len(rows) + len(sub[1]))
'''),
    "slice_of_strings": ("", '''
	var ss []string
	for j := 0; j < 5; j++ {
		ss = append(ss, "e"+itoa(i+j))
	}
	ss[0], ss[4] = ss[4], ss[0]
	ss = ss[1:4]
	var n int32
	for _, x := range ss {
		n += int32(len(x))
	}
	return n
'''),
    "struct_ptr": ("", '''
	p := &S{int32(i), "x" + itoa(i)}
	q := &W{s: []int32{1, 2}, name: p.b, p: p}
	r := *q
	r.name = r.name + "!"
	return p.a + int32(len(q.name)+len(r.name))
'''),
    "struct_value_with_refs": ('''
func mkW(i int) W {
	return W{s: []int32{int32(i)}, name: "w" + itoa(i), p: &S{1, "in" + itoa(i)}}
}
''', '''
	w := mkW(i)
	w2 := w
	w = mkW(i + 1)
	arr := [2]W{w, w2}
	return arr[1].s[0] + int32(len(arr[0].name))
'''),
    "map_string_values": ("", '''
	m := map[int32]string{}
	for j := 0; j < 4; j++ {
		m[int32(j)] = "v" + itoa(i+j)
	}
	m[2] = "over" + itoa(i)
	delete(m, 0)
	delete(m, 9)
	return int32(len(m) + len(m[2]) + len(m[3]))
'''),
    "map_slice_values": ("", '''
	m := map[string][]int32{}
	for j := 0; j < 6; j++ {
		k := "k" + itoa(j%3)
		m[k] = append(m[k], int32(i+j))
	}
	delete(m, "k2")
	m["k1"] = nil
	return int32(len(m)) + m["k0"][1]
'''),
    "map_struct_keys_ptr_values": ('''
type K struct {
	a int32
	b string
}
''', '''
	m := map[K]*S{}
	m[K{1, "a" + itoa(i)}] = &S{int32(i), "p"}
	m[K{2, "b"}] = &S{2, "q" + itoa(i)}
	m[K{2, "b"}] = &S{3, "r" + itoa(i)}
	v, ok := m[K{1, "a" + itoa(i)}]
	if !ok {
		return -1
	}
	return v.a + int32(len(m))
'''),
    "closure": ('''
func mkCounterL(k int) func() int32 {
	c := int32(k)
	s := []int32{1, 2, 3}
	name := "ctr" + itoa(k)
	return func() int32 {
		c++
		s[0] += c
		return s[0] + int32(len(name))
	}
}
''', '''
	f := mkCounterL(i)
	g := func() int32 { return f() + 1 }
	fs := []func() int32{f, g}
	return fs[0]() + fs[1]()
'''),
    "interface_boxing": ("", '''
	var e interface{} = int32(i)
	var e2 interface{} = "s" + itoa(i)
	var e3 interface{} = &S{int32(i), "b"}
	var e4 interface{} = []int32{int32(i)}
	var e5 interface{} = S{int32(i), "val" + itoa(i)}
	var i1 I = &A{int32(i)}
	var i2 I = &PA{int32(i), "t" + itoa(i)}
	es := []interface{}{e, e2, e3, e4, e5, i1, i2}
	var n int32
	for _, x := range es {
		switch v := x.(type) {
		case int32:
			n += v
		case string:
			n += int32(len(v))
		case *S:
			n += v.a
		case []int32:
			n += v[0]
		case S:
			n += int32(len(v.b))
		case I:
			n += v.M()
		}
	}
	return n
'''),
    "linked_list": ("", '''
	var head *Node
	for j := 0; j < 6; j++ {
		head = &Node{int32(i + j), "n" + itoa(j), head}
	}
	tail := head.next.next
	head = nil
	var n int32
	for p := tail; p != nil; p = p.next {
		n += p.v
	}
	return n
'''),
    "tree": ('''
type Tree struct {
	l, r *Tree
	v    int32
	tag  string
}

func mkTree(d int, i int) *Tree {
	if d == 0 {
		return nil
	}
	return &Tree{mkTree(d-1, i), mkTree(d-1, i+1), int32(i), "t" + itoa(d)}
}

func sumTree(t *Tree) int32 {
	if t == nil {
		return 0
	}
	return t.v + sumTree(t.l) + sumTree(t.r)
}
''', '''
	t := mkTree(4, i)
	t.l.r = t.r.l
	return sumTree(t)
'''),
    "defer": ('''
func deferBody(i int) (r int32) {
	s := []int32{int32(i), 2}
	str := "d" + itoa(i)
	defer func() {
		r += s[0] + int32(len(str))
	}()
	for j := 0; j < 2; j++ {
		t := "it" + itoa(j)
		defer func() {
			r += int32(len(t))
		}()
	}
	s = []int32{5}
	return 1
}
''', '''
	return deferBody(i)
'''),
    "multi_return": ('''
func manyL(k int) ([]int32, string, *S, map[int32]string, func() int32, I) {
	s := []int32{int32(k), 1}
	return s, "m" + itoa(k), &S{int32(k), "ms"}, map[int32]string{1: "one" + itoa(k)}, func() int32 { return s[0] + 1 }, &PA{3, "x" + itoa(k)}
}
''', '''
	a, _, p, _, f, _ := manyL(i)
	_, str, _, m, _, ii := manyL(i + 1)
	manyL(i + 2)
	return a[0] + p.a + f() + int32(len(str)+len(m[1])) + ii.M()
'''),
    "string_slicing": ("", '''
	big := "prefix" + itoa(i) + "suffix"
	sub := big[3:8]
	bs := []byte(big)
	bs[0] = 'X'
	back := string(bs[1:5])
	var n int32
	for _, c := range sub {
		n += int32(c)
	}
	return n + int32(len(back))
'''),
    "early_exits": ('''
func earlyBody(i int) int32 {
	s := make([]int32, 3)
	for j := 0; j < 4; j++ {
		t := "e" + itoa(i+j)
		u := []string{t, t + "x"}
		if j == 1 {
			continue
		}
		if j == 2 && i%2 == 0 {
			return int32(len(u[1]))
		}
		if j == 3 {
			break
		}
		s[j] = int32(len(t))
	}
	switch i % 3 {
	case 0:
		v := "sw" + itoa(i)
		return int32(len(v))
	case 1:
		v := []int32{1, 2}
		s = v
	}
	return s[0]
}
''', '''
	return earlyBody(i)
'''),
    "nested_labels": ('''
func nestedL(k int) int32 {
	out := make([]int32, 0)
outer:
	for i := 0; i < 4; i++ {
		row := make([]int32, 3)
		for j := 0; j < 3; j++ {
			tmp := []string{itoa(i), itoa(j)}
			if j == 2 {
				continue outer
			}
			if i == 3 {
				break outer
			}
			row[j] = int32(len(tmp[0])+len(tmp[1])) + int32(k)
			out = append(out, row[j])
		}
	}
	return int32(len(out)) + out[0]
}
''', '''
	return nestedL(i)
'''),
    "array_of_refs": ("", '''
	var a [3]string
	var b [2][]int32
	var c [2]*S
	for j := 0; j < 3; j++ {
		a[j] = "a" + itoa(i+j)
	}
	b[0] = []int32{int32(i)}
	b[1] = b[0]
	c[0] = &S{1, a[1]}
	a2 := a
	b2 := b
	a[0] = ""
	return int32(len(a2[0])+len(a[2])) + b2[1][0] + c[0].a
'''),
    "method_value": ('''
type AccL struct {
	items Strs
	total int32
}

func (a *AccL) Add(s string) {
	a.items = append(a.items, s)
	a.total += int32(len(s))
}
''', '''
	a := &AccL{}
	add := a.Add
	add("one" + itoa(i))
	add("two")
	return a.total
'''),
    "pointers_into_aggregates": ('''
func elemPtrL(k int) *int32 {
	s := make([]int32, 4)
	s[2] = int32(k + 40)
	return &s[2]
}

func fieldPtrL(k int) *string {
	w := &S{int32(k), "field" + itoa(k)}
	return &w.b
}
''', '''
	p := elemPtrL(i)
	q := fieldPtrL(i)
	x := int32(i)
	r := &x
	pp := &r
	return *p + int32(len(*q)) + **pp
'''),
    "overwrite_in_loop": ("", '''
	var keep []int32
	var ks string
	var kp *S
	for j := 0; j < 4; j++ {
		keep = make([]int32, j+1)
		ks = "k" + itoa(i+j)
		kp = &S{int32(j), ks}
	}
	return int32(len(keep)+len(ks)) + kp.a
'''),
    "copy_builtin": ("", '''
	a := []string{"a" + itoa(i), "b" + itoa(i), "c"}
	b := make([]string, 2)
	copy(b, a)
	copy(a, a[1:])
	return int32(len(b[0]) + len(a[0]))
'''),
    "params_and_results": ('''
func idS(s I32s) I32s { return s }

func pick(a, b string, c bool) string {
	if c {
		return a
	}
	return b
}

func consume(w W, p *S, f func() int32, e interface{}) int32 {
	return w.s[0] + p.a + f()
}
''', '''
	s := idS([]int32{int32(i), 1})
	s = idS(s)
	t := pick("a"+itoa(i), "bb"+itoa(i), i%2 == 0)
	n := consume(W{s: s, name: t}, &S{1, t}, func() int32 { return s[1] }, t)
	return n + int32(len(t))
'''),
}

# Negative companion: reference cycles are never reclaimed by reference counting (by design).
CYCLE_BODIES = {
    "cycle2": ("", '''
	a := &Node{int32(i), "a", nil}
	b := &Node{int32(i), "b", a}
	a.next = b
	return a.next.v
'''),
    "self_cycle": ("", '''
	a := &Node{int32(i), "self", nil}
	a.next = a
	return a.v
'''),
}

CHECK_ITERS = (4, 10, 100, 300, 1000, 5000, 20000)


def checkpoints(n):
    return [c for c in CHECK_ITERS if c <= n]


def _cp_cond(n):
    return " || ".join("i == %d" % (c - 1) for c in checkpoints(n))


def _cp_stmt(n, k):
    c = _cp_cond(n)
    if not c:
        return ""
    return "\t\tif %s {\n\t\t\tprintln(\"CP\", %d, i+1)\n\t\t}" % (c, k)


def loop_program(bodies, n, extra_decls="", body_sig="(i int) int32"):
    """bodies: [(name, decls, body)] -> one program; loop k runs body k n times."""
    out = ["package main", HELPERS, extra_decls]
    for k, (name, decls, body) in enumerate(bodies):
        out.append(decls)
        out.append("func body_%d(i int) int32 {%s}\n" % (k, body))
    out.append("func main() {")
    out.append("\tvar acc int32")
    for k, (name, decls, body) in enumerate(bodies):
        out.append("\tfor i := 0; i < %d; i++ {" % n)
        out.append("\t\tacc += body_%d(i %% 37)" % k)
        out.append(_cp_stmt(n, k))
        out.append("\t}")
        out.append("\tprintln(acc)")
    out.append("}")
    return "\n".join(out) + "\n"


def alias_program(names, ks=(1, 6)):
    out = ["package main", HELPERS]
    for j, nm in enumerate(names):
        decls, body = ALIAS[nm]
        out.append(decls)
        out.append("func t_%d(k int) {%s}\n" % (j, body))
    out.append("func main() {")
    for j, nm in enumerate(names):
        for k in ks:
            out.append("\tprintln(\"== %s\", %d)" % (nm, k))
            out.append("\tt_%d(%d)" % (j, k))
    out.append("}")
    return "\n".join(out) + "\n"


def aliasing_programs():
    return [(nm, alias_program([nm])) for nm in ALIAS]


def aliasing_combined():
    return ("alias_all", alias_program(list(ALIAS)))


# ------------------------------------------------------------------------------------------------
# feature matrix as loops

_RENAME = ["W2", "W", "H", "use", "get", "two", "d", "g"]

# Known compiler limits (recorded under C16 / gen/findings.py), avoided so that the loops measure memory management:
#   value receivers (contexts methodval, methodmix; the matrix's `func (a A) M()`), `name []T` in fields/parameters
#   (slice and array types get a named type), arrays boxed into interface{} or used as map values.
MATRIX_SKIP_CONTEXTS = ("methodval", "methodmix")
MATRIX_SKIP_PAIRS = {("arr", "box"), ("arr", "mapval")}
MATRIX_PRELUDE = '''package main

type S struct {
	a int32
	b string
}

type I interface {
	M() int32
}

type A struct{ x int32 }

func (a *A) M() int32 { return a.x }

type SL []int32

type ARR [3]int32

var strs = [3]string{"a", "bb", "ccc"}
'''
MATRIX_TYPE_OVERRIDE = {
    "sl": ("SL", "SL{{int32({i}), 2, 3}}", "{v}[0] + int32(len({v}))"),
    "arr": ("ARR", "ARR{{int32({i}), 1, 2}}", "{v}[0]"),
    "I": ("I", "I(&A{{int32({i})}})", "{v}.M()"),
}


def matrix_loop_programs(n, types=None, contexts=None):
    from gen import matrix
    progs = []
    saved = dict(matrix.TYPES)
    try:
        matrix.TYPES.update(MATRIX_TYPE_OVERRIDE)
        for t in (types or list(matrix.TYPES)):
            decls_all, bodies = [], []
            names = []
            k = 0
            for c in (contexts or matrix.CONTEXTS):
                if c in MATRIX_SKIP_CONTEXTS or (t, c) in MATRIX_SKIP_PAIRS:
                    continue
                decls, body = matrix.CONTEXTS[c]
                if c == "box" and t == "any":
                    body = "var e interface{{}} = {mk:13}\n\tv := e\n\tprintln({show:v})"
                if c == "box" and t == "sl":
                    # a type assertion to a NAMED slice type traps in Wa (C01's domain): box the unnamed type
                    matrix.TYPES[t] = saved[t]
                d, b = matrix._fill(decls, t), matrix._fill(body, t)
                if t in MATRIX_TYPE_OVERRIDE:
                    matrix.TYPES[t] = MATRIX_TYPE_OVERRIDE[t]
                for nm in _RENAME:
                    pat = re.compile(r"(?<![\w.\"])%s(?![\w\"])" % nm)
                    d = pat.sub("%s_%d" % (nm, k), d)
                    b = pat.sub("%s_%d" % (nm, k), b)
                decls_all.append(d)
                bodies.append((c, b))
                names.append(c)
                k += 1
            out = [MATRIX_PRELUDE, "\n".join(decls_all)]
            for k, (c, b) in enumerate(bodies):
                out.append("func body_%d() {\n\t%s\n}\n" % (k, b))
            out.append("func main() {")
            for k, (c, b) in enumerate(bodies):
                out.append("\tfor i := 0; i < %d; i++ {" % n)
                out.append("\t\tbody_%d()" % k)
                out.append(_cp_stmt(n, k))
                out.append("\t}")
            out.append("}")
            progs.append((t, "\n".join(out) + "\n", names))
    finally:
        matrix.TYPES.clear()
        matrix.TYPES.update(saved)
    return progs


# ------------------------------------------------------------------------------------------------
# random aliasing programs: a pool of reference-holding variables and random operations between them

def random_alias_program(rng, nops=40):
    """Straight-line random program over pools of slices / strings / node pointers / W structs / a map /
    closures.  Every read is guarded by construction (lengths are tracked), output after every few ops."""
    L = []
    NS, NT, NP = 4, 4, 4
    slen = [3] * NS
    L.append("\tvar sl [%d]I32s" % NS)
    L.append("\tvar st [%d]string" % NT)
    L.append("\tvar pn [%d]*Node" % NP)
    L.append("\tvar ws [2]W")
    L.append("\tm := map[string]I32s{}")
    L.append("\tvar fs []func() int32")
    for i in range(NS):
        L.append("\tsl[%d] = []int32{%d, %d, %d}" % (i, i, i + 1, i + 2))
    for i in range(NT):
        L.append("\tst[%d] = \"s%d\" + itoa(%d)" % (i, i, rng.randrange(100)))
    for i in range(NP):
        L.append("\tpn[%d] = &Node{%d, \"n%d\", nil}" % (i, i, i))
    depth = [1] * NP  # conservative chain length knowledge is not needed: reads go through nil checks
    ops = 0
    while ops < nops:
        ops += 1
        k = rng.randrange(22)
        a, b = rng.randrange(NS), rng.randrange(NS)
        if k == 0:
            L.append("\tsl[%d] = append(sl[%d], %d)" % (a, b, rng.randrange(50))); slen[a] = slen[b] + 1
        elif k == 1 and slen[b] >= 2:
            lo = rng.randrange(slen[b] - 1)
            L.append("\tsl[%d] = sl[%d][%d:]" % (a, b, lo)); slen[a] = slen[b] - lo
        elif k == 2:
            L.append("\tsl[%d] = sl[%d]" % (a, b)); slen[a] = slen[b]
        elif k == 3:
            n = rng.randrange(1, 6)
            L.append("\tsl[%d] = make([]int32, %d)" % (a, n)); slen[a] = n
        elif k == 4 and slen[a] > 0:
            L.append("\tsl[%d][%d] = %d" % (a, rng.randrange(slen[a]), rng.randrange(99)))
        elif k == 5:
            x, y = rng.randrange(NT), rng.randrange(NT)
            L.append("\tst[%d] = st[%d] + st[%d][0:1]" % (x, y, rng.randrange(NT)))
        elif k == 6:
            x, y = rng.randrange(NT), rng.randrange(NT)
            L.append("\tst[%d] = st[%d][1:]+\"_\"" % (x, y))
        elif k == 7:
            x, y = rng.randrange(NP), rng.randrange(NP)
            L.append("\tpn[%d] = &Node{%d, st[%d], pn[%d]}" % (x, rng.randrange(9), rng.randrange(NT), y))
        elif k == 8:
            x, y = rng.randrange(NP), rng.randrange(NP)
            L.append("\tif pn[%d] != nil {\n\t\tpn[%d] = pn[%d].next\n\t}" % (y, x, y))
        elif k == 9:
            x = rng.randrange(NP)
            L.append("\tif pn[%d] != nil {\n\t\tpn[%d].next = nil\n\t\tpn[%d].name = st[%d]\n\t}" % (x, x, x, rng.randrange(NT)))
        elif k == 10:
            w = rng.randrange(2)
            L.append("\tws[%d] = W{s: sl[%d], name: st[%d], p: &S{%d, st[%d]}}" % (w, a, rng.randrange(NT), ops, rng.randrange(NT)))
        elif k == 11:
            L.append("\tws[%d] = ws[%d]" % (rng.randrange(2), rng.randrange(2)))
        elif k == 12:
            w = rng.randrange(2)
            L.append("\tif len(ws[%d].s) > 0 {\n\t\tsl[%d] = ws[%d].s\n\t\tst[%d] = ws[%d].name\n\t} else {\n\t\tsl[%d] = []int32{7}\n\t}" % (w, a, w, rng.randrange(NT), w, a))
            slen[a] = 1  # only "at least 1" is known
        elif k == 13:
            L.append("\tm[st[%d]] = sl[%d]" % (rng.randrange(NT), a))
        elif k == 14:
            L.append("\tm[\"k%d\"] = append(m[\"k%d\"], %d)" % (rng.randrange(3), rng.randrange(3), ops))
        elif k == 15:
            L.append("\tdelete(m, \"absent%d\")" % ops)
        elif k == 16:
            L.append("\t{\n\t\tcs, ct, cp := sl[%d], st[%d], pn[%d]\n\t\tfs = append(fs, func() int32 {\n\t\t\tr := int32(len(cs) + len(ct))\n\t\t\tif cp != nil {\n\t\t\t\tr += cp.v\n\t\t\t}\n\t\t\treturn r\n\t\t})\n\t}" % (a, rng.randrange(NT), rng.randrange(NP)))
        elif k == 17:
            L.append("\tif len(fs) > 0 {\n\t\tprintln(\"f\", fs[%d%%len(fs)]())\n\t}" % rng.randrange(7))
        elif k == 18:
            L.append("\tif len(fs) > 1 {\n\t\tfs = fs[1:]\n\t}")
        elif k == 19:
            L.append("\tchurn(%d)" % ops)
        elif k == 20:
            L.append("\tsl[%d] = nil" % a); slen[a] = 0
        elif k == 21:
            x = rng.randrange(NT)
            L.append("\t{\n\t\tvar e interface{} = st[%d]\n\t\tvar e2 interface{} = pn[%d]\n\t\tif s, ok := e.(string); ok {\n\t\t\tst[%d] = s + \"#\"\n\t\t}\n\t\tif p, ok := e2.(*Node); ok && p != nil {\n\t\t\tpn[%d] = p\n\t\t}\n\t}" % (x, rng.randrange(NP), rng.randrange(NT), rng.randrange(NP)))
        if ops % 6 == 0:
            L.append("\tdump(sl[:], st[:], pn[:], ws[:], m)")
    L.append("\tdump(sl[:], st[:], pn[:], ws[:], m)")
    L.append("\tchurn(3)")
    L.append("\t_ = fs")
    dump = '''
type SlSl []I32s

type Nodes []*Node

func dump(sl SlSl, st Strs, pn Nodes, ws Ws, m map[string]I32s) {
	var h int32
	for _, s := range sl {
		h = h*31 + int32(len(s))
		for _, v := range s {
			h = h*31 + v
		}
	}
	for _, s := range st {
		if len(s) > 40 {
			s = s[:40]
		}
		h = h*31 + int32(len(s))
		for j := 0; j < len(s); j++ {
			h = h*31 + int32(s[j])
		}
	}
	for _, p := range pn {
		n := 0
		for q := p; q != nil && n < 50; q = q.next {
			h = h*31 + q.v + int32(len(q.name))
			n++
		}
	}
	for _, w := range ws {
		h = h*31 + int32(len(w.s)+len(w.name))
		if w.p != nil {
			h = h*31 + w.p.a + int32(len(w.p.b))
		}
	}
	h = h*31 + int32(len(m))
	h = h*31 + int32(len(m["k0"])+len(m["k1"])+len(m["k2"]))
	println("h", h)
}
'''
    src = "package main\n" + HELPERS + dump + "\nfunc main() {\n" + "\n".join(L) + "\n}\n"
    return src


# ------------------------------------------------------------------------------------------------
# second batch of aliasing templates (same conventions as ALIAS)

ALIAS2 = {
    "iface_values_with_refs": ('''
type Box struct {
	v   interface{}
	tag string
}
''', '''
	var e interface{} = W{s: []int32{int32(k), 2}, name: "bw" + itoa(k), p: &S{1, "bp" + itoa(k)}}
	w := e.(W)
	e = nil
	churn(k)
	println(w.s[0], w.name, w.p.b)
	m := map[string]interface{}{}
	m["a"] = "str" + itoa(k)
	m["b"] = &S{int32(k), "ps" + itoa(k)}
	m["c"] = []int32{int32(k)}
	m["a"] = m["b"]
	x := m["c"]
	delete(m, "c")
	churn(k + 1)
	println(len(m), x.([]int32)[0], m["a"].(*S).b)
	b := Box{v: m["b"], tag: "t" + itoa(k)}
	m = map[string]interface{}{}
	b2 := b
	b.v = nil
	churn(k + 2)
	println(b2.v.(*S).a, b2.tag)
'''),
    "self_append_and_insert": ("", '''
	s := []string{"a" + itoa(k), "b" + itoa(k)}
	s = append(s, s...)
	t := append(s[:1], s[2:]...)
	u := append([]string{}, s...)
	s = append(s, "c"+itoa(k))
	s[0] = "z" + itoa(k)
	churn(k)
	println(len(s), len(t), len(u), s[0], t[0], t[2], u[0], u[3], s[4])
	var n []string
	n = append(n, u[1:3]...)
	n = append(n, n...)
	u = nil
	churn(k + 1)
	println(len(n), n[0], n[3])
'''),
    "nested_maps": ("", '''
	outer := map[string]map[string]string{}
	for i := 0; i < 3; i++ {
		in := map[string]string{}
		in["x"] = "x" + itoa(i+k)
		in["y"] = "y" + itoa(i+k)
		outer["o"+itoa(i)] = in
	}
	old := outer["o1"]
	outer["o1"] = map[string]string{"x": "replaced" + itoa(k)}
	outer["o0"]["x"] = outer["o2"]["y"]
	churn(k)
	println(old["x"], old["y"], outer["o1"]["x"], outer["o0"]["x"], len(outer))
	keep := outer["o2"]
	outer = map[string]map[string]string{}
	churn(k + 1)
	println(keep["x"], len(keep), old["y"])
'''),
    "array_values_copy": ('''
type Arr3 [3]string

type HoldArr struct {
	a Arr3
	n int32
}
''', '''
	var a Arr3
	for i := 0; i < 3; i++ {
		a[i] = "a" + itoa(i+k)
	}
	b := a
	a[0] = "changed" + itoa(k)
	h := HoldArr{a: b, n: 1}
	h2 := h
	h.a[1] = "h" + itoa(k)
	b = Arr3{}
	churn(k)
	println(a[0], a[1], h.a[0], h.a[1], h2.a[1], h2.a[2])
	var total int32
	for _, s := range h2.a {
		total += int32(len(s))
	}
	var grid [2]Arr3
	grid[0] = h2.a
	grid[1] = a
	g2 := grid
	grid[0][0] = ""
	h2 = HoldArr{}
	churn(k + 1)
	println(total, g2[0][0], g2[1][0], grid[0][1])
'''),
    "pointer_into_slice_then_grow": ("", '''
	ws := make(Ws, 0, 2)
	ws = append(ws, W{s: []int32{int32(k)}, name: "p0" + itoa(k)})
	ws = append(ws, W{s: []int32{int32(k + 1)}, name: "p1" + itoa(k), p: &S{7, "q" + itoa(k)}})
	pe := &ws[1]
	for i := 0; i < 5; i++ {
		ws = append(ws, W{name: "g" + itoa(i)})
	}
	ws[1].name = "moved" + itoa(k)
	pe.name = pe.name + "+old"
	*pe = W{s: pe.s, name: "over" + itoa(k), p: pe.p}
	churn(k)
	println(pe.name, pe.s[0], pe.p.b, ws[1].name, ws[1].s[0], len(ws))
	ws = nil
	churn(k + 1)
	println(pe.name, pe.p.b)
	pp := &pe.p
	*pp = &S{9, "fresh" + itoa(k)}
	churn(k + 2)
	println(pe.p.b, (*pp).a)
'''),
    "big_blocks": ("", '''
	big := make([]int32, 0)
	var olds [][]int32
	for i := 0; i < 3000; i++ {
		if i == 10 || i == 100 || i == 1000 || i == 2500 {
			olds = append(olds, big)
		}
		big = append(big, int32(i+k))
	}
	str := ""
	for i := 0; i < 40; i++ {
		str = str + "0123456789" + itoa(k)
	}
	sub := str[200:260]
	str = ""
	big2 := make([]string, 300)
	for i := range big2 {
		big2[i] = sub[i%50 : i%50+3]
	}
	sub = ""
	churn(k)
	println(len(big), big[2999], len(olds[0]), olds[1][99], olds[2][999], olds[3][2499], big2[0], big2[299])
	big = nil
	big2 = big2[100:101]
	churn(k + 1)
	println(olds[3][0], len(olds[2]), big2[0])
'''),
    "zero_length": ("", '''
	e := make([]string, 0)
	var n []string
	z := ""
	e2 := e[0:0]
	bs := []byte("")
	s := "abc" + itoa(k)
	t := s[2:2]
	u := z + t + ""
	e = append(e, u)
	n = append(n, e...)
	m := map[string]string{}
	m[""] = t
	m[u] = s
	churn(k)
	println(len(e), len(n), len(e2), len(bs), len(t), len(u), len(m), m[""], n[0] == "")
	s = ""
	churn(k + 1)
	println(m[""], len(m[""]))
'''),
    "funcs_in_struct_and_map": ('''
type Handler struct {
	name string
	fn   func(int32) string
}

func mkHandler(k int) Handler {
	pre := "h" + itoa(k)
	return Handler{name: pre, fn: func(v int32) string { return pre + ":" + itoa(int(v)) }}
}
''', '''
	h := mkHandler(k)
	hs := map[string]Handler{}
	hs["a"] = h
	hs["b"] = mkHandler(k + 1)
	fm := map[int32]func() string{}
	loc := "loc" + itoa(k)
	fm[1] = func() string { return loc + "!" }
	fm[2] = func() string { return h.fn(5) }
	h = mkHandler(k + 9)
	loc = "changed"
	churn(k)
	println(hs["a"].fn(1), hs["b"].name, fm[1](), fm[2]())
	f := fm[1]
	fm = map[int32]func() string{}
	hs = map[string]Handler{}
	churn(k + 1)
	println(f())
'''),
    "recursion_with_refs": ('''
func rec(d int, acc Strs, tag string) (Strs, string) {
	if d == 0 {
		return acc, tag
	}
	mine := tag + itoa(d)
	acc = append(acc, mine)
	a, t := rec(d-1, acc, mine)
	if d%2 == 0 {
		return a[1:], t + "e"
	}
	return a, t
}
''', '''
	a, t := rec(6, nil, "r"+itoa(k))
	churn(k)
	println(len(a), a[0], a[len(a)-1], t)
	b, _ := rec(3, a, "s")
	a = nil
	churn(k + 1)
	println(len(b), b[0], b[len(b)-1])
'''),
    "init_statements_and_shadowing": ('''
func mkS(k int) I32s { return []int32{int32(k), 1, 2} }
''', '''
	s := mkS(k)
	if s := mkS(k + 1); len(s) > 2 {
		s = append(s, 9)
		println(s[0], len(s))
	} else {
		println(0)
	}
	for t := mkS(k + 2); len(t) < 6; t = append(t, 1) {
		s := "in" + itoa(len(t))
		if len(t) == 4 {
			continue
		}
		println(s, t[0])
	}
	switch u := "sw" + itoa(k); len(u) {
	case 3:
		s := u + "three"
		println(s)
	default:
		println(u)
	}
	{
		s := "block" + itoa(k)
		{
			s := s + "inner"
			println(s)
		}
		println(s)
	}
	churn(k)
	println(s[0], len(s))
'''),
    "swap_fields_and_map_entries": ("", '''
	w1 := W{s: []int32{int32(k)}, name: "one" + itoa(k), p: &S{1, "p1" + itoa(k)}}
	w2 := W{s: []int32{int32(k), 2}, name: "two" + itoa(k), p: &S{2, "p2" + itoa(k)}}
	w1.s, w2.s = w2.s, w1.s
	w1.name, w2.name = w2.name, w1.name
	w1.p, w2.p = w2.p, w1.p
	w1, w2 = w2, w1
	m := map[string]string{"a": "va" + itoa(k), "b": "vb" + itoa(k)}
	m["a"], m["b"] = m["b"], m["a"]
	arr := [2]*S{w1.p, w2.p}
	arr[0], arr[1] = arr[1], arr[0]
	churn(k)
	println(len(w1.s), w1.name, w1.p.b, len(w2.s), w2.name, w2.p.b, m["a"], m["b"], arr[0].b)
	w1 = W{}
	churn(k + 1)
	println(arr[0].b, arr[1].b, w2.name)
'''),
    "iface_method_returning_refs": ('''
type Namer interface {
	Name() string
	Parts() Strs
}

type Person struct {
	first, last string
	tags        Strs
}

func (p *Person) Name() string { return p.first + " " + p.last }
func (p *Person) Parts() Strs  { return append(p.tags, p.first) }

func mkNamer(k int) Namer {
	return &Person{"f" + itoa(k), "l" + itoa(k), []string{"t" + itoa(k)}}
}
''', '''
	n := mkNamer(k)
	name := n.Name()
	parts := n.Parts()
	n2 := n
	n = mkNamer(k + 1)
	churn(k)
	println(name, len(parts), parts[0], parts[1], n2.Name(), n.Name())
	ns := []Namer{n, n2, mkNamer(k + 2)}
	n, n2 = nil, nil
	var total int
	for _, x := range ns {
		total += len(x.Name()) + len(x.Parts())
	}
	ns = ns[2:]
	churn(k + 1)
	println(total, ns[0].Name())
'''),
    "variadic": ('''
func joinAll(sep string, parts ...string) string {
	r := ""
	for i, p := range parts {
		if i > 0 {
			r = r + sep
		}
		r = r + p
	}
	return r
}

func keepTail(parts ...string) Strs {
	return parts[1:]
}
''', '''
	a := joinAll("-", "x"+itoa(k), "y"+itoa(k), "z")
	ps := []string{"p" + itoa(k), "q" + itoa(k), "r" + itoa(k)}
	b := joinAll("+", ps...)
	t := keepTail(ps...)
	t2 := keepTail("m"+itoa(k), "n"+itoa(k))
	ps[1] = "changed"
	ps = nil
	churn(k)
	println(a, b, len(t), t[0], t[1], t2[0], joinAll(","))
'''),
}

ALIAS.update(ALIAS2)

LOOP_BODIES2 = {
    "iface_values_with_refs": ('''
type BoxL struct {
	v   interface{}
	tag string
}
''', '''
	var e interface{} = W{s: []int32{int32(i), 2}, name: "bw" + itoa(i), p: &S{1, "bp"}}
	w := e.(W)
	m := map[string]interface{}{}
	m["a"] = "str" + itoa(i)
	m["b"] = &S{int32(i), "ps"}
	m["c"] = []int32{int32(i)}
	m["a"] = m["b"]
	delete(m, "c")
	b := BoxL{v: m["b"], tag: "t" + itoa(i)}
	b2 := b
	b.v = nil
	return w.s[0] + b2.v.(*S).a + int32(len(m))
'''),
    "self_append": ("", '''
	s := []string{"a" + itoa(i), "b"}
	s = append(s, s...)
	t := append(s[:1], s[2:]...)
	u := append([]string{}, s...)
	var n []string
	n = append(n, u[1:3]...)
	n = append(n, n...)
	return int32(len(s) + len(t) + len(n))
'''),
    "nested_maps": ("", '''
	outer := map[string]map[string]string{}
	for j := 0; j < 3; j++ {
		in := map[string]string{}
		in["x"] = "x" + itoa(i+j)
		outer["o"+itoa(j)] = in
	}
	old := outer["o1"]
	outer["o1"] = map[string]string{"x": "replaced"}
	outer["o0"]["x"] = outer["o2"]["x"]
	return int32(len(old["x"]) + len(outer))
'''),
    "array_values": ('''
type Arr3L [3]string

type HoldArrL struct {
	a Arr3L
	n int32
}
''', '''
	var a Arr3L
	for j := 0; j < 3; j++ {
		a[j] = "a" + itoa(i+j)
	}
	b := a
	h := HoldArrL{a: b, n: 1}
	h2 := h
	h.a[1] = "h" + itoa(i)
	var grid [2]Arr3L
	grid[0] = h2.a
	grid[1] = a
	g2 := grid
	grid[0][0] = ""
	return int32(len(g2[0][0]) + len(h.a[1]))
'''),
    "pointer_into_slice_then_grow": ("", '''
	ws := make(Ws, 0, 2)
	ws = append(ws, W{s: []int32{int32(i)}, name: "p0"})
	ws = append(ws, W{s: []int32{int32(i + 1)}, name: "p1" + itoa(i), p: &S{7, "q"}})
	pe := &ws[1]
	for j := 0; j < 5; j++ {
		ws = append(ws, W{name: "g" + itoa(j)})
	}
	*pe = W{s: pe.s, name: "over" + itoa(i), p: pe.p}
	ws = nil
	return pe.s[0] + int32(len(pe.name))
'''),
    "big_blocks": ("", '''
	big := make([]int32, 0)
	var old []int32
	for j := 0; j < 300+i*7; j++ {
		if j == 100 {
			old = big
		}
		big = append(big, int32(j))
	}
	str := ""
	for j := 0; j < 12; j++ {
		str = str + "0123456789"
	}
	sub := str[20:90]
	return int32(len(big)+len(sub)) + old[99]
'''),
    "funcs_in_struct_and_map": ('''
type HandlerL struct {
	name string
	fn   func(int32) string
}

func mkHandlerL(k int) HandlerL {
	pre := "h" + itoa(k)
	return HandlerL{name: pre, fn: func(v int32) string { return pre + ":" + itoa(int(v)) }}
}
''', '''
	h := mkHandlerL(i)
	hs := map[string]HandlerL{}
	hs["a"] = h
	hs["b"] = mkHandlerL(i + 1)
	fm := map[int32]func() string{}
	loc := "loc" + itoa(i)
	fm[1] = func() string { return loc + "!" }
	fm[2] = func() string { return h.fn(5) }
	return int32(len(hs["a"].fn(1)) + len(fm[1]()) + len(fm[2]()))
'''),
    "recursion_with_refs": ('''
func recL(d int, acc Strs, tag string) (Strs, string) {
	if d == 0 {
		return acc, tag
	}
	mine := tag + itoa(d)
	acc = append(acc, mine)
	a, t := recL(d-1, acc, mine)
	if d%2 == 0 {
		return a[1:], t + "e"
	}
	return a, t
}
''', '''
	a, t := recL(5, nil, "r"+itoa(i))
	b, _ := recL(2, a, "s")
	return int32(len(a) + len(t) + len(b))
'''),
    "init_statements_and_shadowing": ('''
func mkSL(k int) I32s { return []int32{int32(k), 1, 2} }
''', '''
	s := mkSL(i)
	var n int32
	if s := mkSL(i + 1); len(s) > 2 {
		s = append(s, 9)
		n += s[3]
	}
	for t := mkSL(i + 2); len(t) < 6; t = append(t, 1) {
		s := "in" + itoa(len(t))
		if len(t) == 4 {
			continue
		}
		n += int32(len(s))
	}
	switch u := "sw" + itoa(i); len(u) {
	case 3:
		s := u + "three"
		n += int32(len(s))
	default:
		n += int32(len(u))
	}
	return n + s[0]
'''),
    "swap_fields_and_map_entries": ("", '''
	w1 := W{s: []int32{int32(i)}, name: "one" + itoa(i), p: &S{1, "p1"}}
	w2 := W{s: []int32{int32(i), 2}, name: "two" + itoa(i), p: &S{2, "p2"}}
	w1.s, w2.s = w2.s, w1.s
	w1.name, w2.name = w2.name, w1.name
	w1.p, w2.p = w2.p, w1.p
	w1, w2 = w2, w1
	m := map[string]string{"a": "va" + itoa(i), "b": "vb"}
	m["a"], m["b"] = m["b"], m["a"]
	return int32(len(w1.s)+len(m["a"])) + w2.p.a
'''),
    "iface_method_returning_refs": ('''
type NamerL interface {
	Name() string
	Parts() Strs
}

type PersonL struct {
	first, last string
	tags        Strs
}

func (p *PersonL) Name() string { return p.first + " " + p.last }
func (p *PersonL) Parts() Strs  { return append(p.tags, p.first) }

func mkNamerL(k int) NamerL {
	return &PersonL{"f" + itoa(k), "l" + itoa(k), []string{"t" + itoa(k)}}
}
''', '''
	n := mkNamerL(i)
	name := n.Name()
	parts := n.Parts()
	ns := []NamerL{n, mkNamerL(i + 2)}
	var total int
	for _, x := range ns {
		total += len(x.Name()) + len(x.Parts())
	}
	return int32(total + len(name) + len(parts))
'''),
    "variadic": ('''
func joinAllL(sep string, parts ...string) string {
	r := ""
	for j, p := range parts {
		if j > 0 {
			r = r + sep
		}
		r = r + p
	}
	return r
}
''', '''
	a := joinAllL("-", "x"+itoa(i), "y", "z")
	ps := []string{"p" + itoa(i), "q", "r"}
	b := joinAllL("+", ps...)
	return int32(len(a) + len(b))
'''),
}

LOOP_BODIES.update(LOOP_BODIES2)


# ------------------------------------------------------------------------------------------------
# third batch: constructs compiled through hand-built helper functions / wrappers in the back end

ALIAS3 = {
    "defer_variants": ('''
type Closer interface {
	Close(tag string)
}

type Res struct {
	name string
}

func (r *Res) Close(tag string) { println("close", r.name, tag) }

func useDefers(k int) {
	r := &Res{name: "r" + itoa(k)}
	var c Closer = r
	defer c.Close("iface" + itoa(k))
	defer r.Close("method" + itoa(k))
	f := func(s string) { println("fn", s) }
	defer f("val" + itoa(k))
	defer println("builtin", "b"+itoa(k))
	c = &Res{name: "other" + itoa(k)}
	r = &Res{name: "second" + itoa(k)}
	f = func(s string) { println("fn2", s) }
	churn(k)
	println(c.(*Res).name, r.name)
}
''', '''
	useDefers(k)
	churn(k)
'''),
    "array_value_indexing": ('''
type Arr3S [3]string

type PairP [2]*S

func mkArr3(k int) Arr3S {
	var a Arr3S
	for i := 0; i < 3; i++ {
		a[i] = "e" + itoa(i+k)
	}
	return a
}

func mkPair(k int) PairP {
	return PairP{&S{int32(k), "l" + itoa(k)}, &S{int32(k + 1), "r" + itoa(k)}}
}
''', '''
	a := mkArr3(k)
	var n int32
	for i, s := range a {
		n += int32(len(s) + i)
	}
	mid := mkArr3(k + 1)[1]
	p := mkPair(k)[1]
	for _, q := range mkPair(k + 2) {
		n += q.a
	}
	a = Arr3S{}
	churn(k)
	println(n, mid, p.b)
'''),
}
ALIAS.update(ALIAS3)

LOOP_BODIES3 = {
    "defer_variants": ('''
var sinkL int32

type CloserL interface {
	Close(tag string)
}

type ResL struct {
	name string
}

func (r *ResL) Close(tag string) { sinkL += int32(len(r.name) + len(tag)) }

func useDefersL(k int) {
	r := &ResL{name: "r" + itoa(k)}
	var c CloserL = r
	defer c.Close("iface" + itoa(k))
	defer r.Close("method" + itoa(k))
	f := func(s string) { sinkL += int32(len(s)) }
	defer f("val" + itoa(k))
	c = &ResL{name: "other" + itoa(k)}
	r = &ResL{name: "second"}
	sinkL += int32(len(c.(*ResL).name) + len(r.name))
}
''', '''
	sinkL = 0
	useDefersL(i)
	return sinkL
'''),
    # the three bodies below go through the generated helper $<array type>.$IndexOf (indexing an array VALUE)
    "range_over_array_value": ('''
type Arr3R [3]string

func mkArr3R(k int) Arr3R {
	var a Arr3R
	for j := 0; j < 3; j++ {
		a[j] = "e" + itoa(j+k)
	}
	return a
}
''', '''
	a := mkArr3R(i)
	var n int32
	for j, s := range a {
		n += int32(len(s) + j)
	}
	return n
'''),
    "index_of_array_result": ('''
type Arr3X [3]string

func mkArr3X(k int) Arr3X {
	var a Arr3X
	for j := 0; j < 3; j++ {
		a[j] = "x" + itoa(j+k)
	}
	return a
}
''', '''
	return int32(len(mkArr3X(i)[1]))
'''),
    "range_over_array_of_pointers": ('''
type PairPL [2]*S
''', '''
	ps := PairPL{&S{int32(i), "l" + itoa(i)}, &S{int32(i + 1), "r"}}
	var n int32
	for j, p := range ps {
		n += p.a + int32(j)
	}
	return n
'''),
}
LOOP_BODIES.update(LOOP_BODIES3)

# loop bodies that exercise a recorded root cause: every leak verdict of such a body is attributed to that cause
KNOWN_CAUSE = {
    "loop:range_over_array_value": "array-value-IndexOf-helper-keeps-a-count",
    "loop:index_of_array_result": "array-value-IndexOf-helper-keeps-a-count",
    "loop:range_over_array_of_pointers": "array-value-IndexOf-helper-keeps-a-count",
}


# ------------------------------------------------------------------------------------------------
# fourth batch: run-time helpers written by hand (interface queries and comparison, string conversion/comparison)

LOOP_BODIES4 = {
    "iface_to_iface_queries": ('''
type SizerQ interface {
	Size() int32
}

type BothQ interface {
	M() int32
	Size() int32
}

type OtherQ interface {
	Other() int32
}

type T1Q struct {
	n string
}

func (t *T1Q) M() int32    { return 1 }
func (t *T1Q) Size() int32 { return int32(len(t.n)) }
''', '''
	var e interface{} = &T1Q{"t" + itoa(i)}
	var n int32
	s, ok := e.(SizerQ)
	if ok {
		n += s.Size()
	}
	b := e.(BothQ)
	m := b.(I)
	n += m.M() + b.Size()
	_, ok3 := e.(OtherQ)
	var e2 interface{} = "str" + itoa(i)
	_, ok4 := e2.(SizerQ)
	if ok3 || ok4 {
		n += 100
	}
	var s2 SizerQ = b.(SizerQ)
	e = nil
	return n + s2.Size()
'''),
    "iface_comparison": ("", '''
	var e1 interface{} = "str" + itoa(i)
	var e2 interface{} = "str" + itoa(i)
	var e3 interface{} = &S{int32(i), "p" + itoa(i)}
	var e4 interface{} = e3
	var e5 interface{} = S{int32(i), "v" + itoa(i)}
	var e6 interface{} = S{int32(i), "v" + itoa(i)}
	var n int32
	if e1 == e2 {
		n += 1
	}
	if e3 == e4 {
		n += 2
	}
	if e5 == e6 {
		n += 4
	}
	if e1 != e3 {
		n += 8
	}
	m := map[interface{}]string{}
	m[e1] = "a" + itoa(i)
	m[int32(i)] = "b"
	m[e2] = "c" + itoa(i)
	return n + int32(len(m)+len(m[e1]))
'''),
    "string_compare_and_switch": ("", '''
	a := "key" + itoa(i)
	b := "key" + itoa(i+1)
	var n int32
	if a < b {
		n += 1
	}
	if a == "key"+itoa(i) {
		n += 2
	}
	switch a {
	case "key" + itoa(i+2):
		n += 100
	case b:
		n += 200
	case "key" + itoa(i):
		n += 4
	}
	m := map[string]int32{a: 1, b: 2}
	n += m["key"+itoa(i)] + m["nokey"+itoa(i)]
	return n
'''),
    "bytes_and_runes": ("", '''
	s := "héllo" + itoa(i) + "wörld"
	bs := []byte(s)
	bs = append(bs, '!')
	t := string(bs)
	var n int32
	for j, r := range t {
		n += int32(r) + int32(j)
	}
	u := string(bs[2:6])
	c := bs[1:3]
	bs = nil
	return n + int32(len(u)+len(c)+len(t))
'''),
    "struct_equality": ('''
type KSE struct {
	a int32
	b string
}
''', '''
	k1 := KSE{int32(i), "s" + itoa(i)}
	k2 := KSE{int32(i), "s" + itoa(i)}
	k3 := k1
	k3.b = k3.b + "x"
	var n int32
	if k1 == k2 {
		n += 1
	}
	if k1 != k3 {
		n += 2
	}
	m := map[KSE]string{k1: "one" + itoa(i)}
	m[k2] = "two" + itoa(i)
	m[k3] = "three"
	return n + int32(len(m)+len(m[k1]))
'''),
    "print_of_refs": ("", '''
	s := "out" + itoa(i%3)
	p := &S{int32(i % 3), s}
	if i%36 == 0 {
		println(s, p.b, p.a, len(s))
		print(s, "\\n")
	}
	return p.a
'''),
}
LOOP_BODIES.update(LOOP_BODIES4)

LOOP_BODIES5 = {
    "deep_nesting": ('''
type InnerD struct {
	name string
	tags Strs
	arr  Arr2D
	p    *S
}

type Arr2D [2]string

type Inner2D [2]InnerD

type InnersD []InnerD

type MVD struct {
	name string
	tags Strs
	p    *S
}

type DeepD struct {
	a    Inner2D
	s    InnersD
	m    map[string]MVD
	next *DeepD
}

type EmbD struct {
	InnerD
	extra string
}

func mkInnerD(k int) InnerD {
	return InnerD{name: "in" + itoa(k), tags: []string{"t" + itoa(k), "u"}, arr: Arr2D{"x" + itoa(k), "y"}, p: &S{int32(k), "ps" + itoa(k)}}
}

func mkDeepD(k int) *DeepD {
	d := &DeepD{m: map[string]MVD{}}
	d.a[0] = mkInnerD(k)
	d.a[1] = mkInnerD(k + 1)
	d.s = append(d.s, mkInnerD(k+2), d.a[0])
	d.m["k"] = MVD{d.a[1].name, d.a[1].tags, d.a[1].p}
	d.m["l"] = MVD{"l" + itoa(k), []string{"lt"}, &S{1, "lp"}}
	return d
}
''', '''
	d := mkDeepD(i)
	d.next = mkDeepD(i + 1)
	c := *d
	c.a[0].tags = append(c.a[0].tags, "more"+itoa(i))
	c.s[1].arr[1] = "chg" + itoa(i)
	v := c.m["k"]
	v.name = v.name + "!"
	c.m["k"] = v
	e := EmbD{InnerD: d.a[1], extra: "ex" + itoa(i)}
	e.tags = append(e.tags, e.extra)
	ds := []DeepD{c, *d.next}
	d = nil
	n := int32(len(ds[0].a[0].tags) + len(ds[1].s) + len(e.name) + len(e.tags))
	return n + ds[0].m["k"].p.a
'''),
}
LOOP_BODIES.update(LOOP_BODIES5)

LOOP_BODIES6 = {
    "field_of_struct_result": ('''
func mkWF(i int) W {
	return W{s: []int32{int32(i), 3}, name: "wf" + itoa(i), p: &S{int32(i), "pf" + itoa(i)}}
}

type HoldF struct {
	w   W
	arr Arr3F
}

type Arr3F [3]string

func mkHoldF(i int) HoldF {
	return HoldF{w: mkWF(i), arr: Arr3F{"a" + itoa(i), "b", "c" + itoa(i)}}
}
''', '''
	n := int32(len(mkWF(i).name)) + mkWF(i).s[1] + int32(len(mkWF(i).p.b)) + int32(len(mkWF(i).s))
	n += int32(len(mkHoldF(i).w.name)) + mkHoldF(i).w.p.a
	h := mkHoldF(i)
	n += int32(len(h.arr[2]))
	return n
'''),
    "field_then_index_of_array_in_result": ('''
type Arr3G [3]string

type HoldG struct {
	name string
	arr  Arr3G
}

func mkHoldG(i int) HoldG {
	return HoldG{name: "g" + itoa(i), arr: Arr3G{"a" + itoa(i), "b", "c" + itoa(i)}}
}
''', '''
	return int32(len(mkHoldG(i).arr[2]) + len(mkHoldG(i).name))
'''),
}
LOOP_BODIES.update(LOOP_BODIES6)
KNOWN_CAUSE["loop:field_then_index_of_array_in_result"] = "array-value-IndexOf-helper-keeps-a-count"


# ------------------------------------------------------------------------------------------------
# seventh batch: (a) data parked in package-level variables and DROPPED again inside the iteration (nil / "" / fresh
# value): nothing of it is referenced at the checkpoint, so it is not "retained by design"; (b) bursts of frees of one
# size class that cross the capacity (64) of the allocator's fixed-size free lists — the allocated-block count stays flat
# there, only the heap size shows a loss.

LOOP_BODIES7 = {
    "globals_dropped_with_nil": ('''
var gdCur *Node
var gdLabel string
var gdSl I32s
var gdStrs Strs
var gdAny interface{}
var gdFn func() int32
var gdI I
''', '''
	gdCur = &Node{int32(i), "n" + itoa(i), nil}
	gdCur.next = &Node{1, "m", nil}
	gdLabel = "l" + gdCur.name
	gdSl = []int32{int32(i), 2, 3}
	gdStrs = []string{"a" + itoa(i), gdLabel}
	gdAny = &S{int32(i), "any" + itoa(i)}
	loc := "cap" + itoa(i)
	gdFn = func() int32 { return int32(len(loc)) }
	gdI = &PA{int32(i), "pa" + itoa(i)}
	n := int32(len(gdLabel)+len(gdCur.next.name)+len(gdStrs)) + gdSl[0] + gdAny.(*S).a + gdFn() + gdI.M()
	gdCur = nil
	gdLabel = ""
	gdSl = nil
	gdStrs = nil
	gdAny = nil
	gdFn = nil
	gdI = nil
	return n
'''),
    "global_struct_fields_dropped": ('''
type ArrGF [2]string

type HoldGF struct {
	w    W
	next *Node
	arr  ArrGF
	tags Strs
}

var gfHold HoldGF
var gfW W
var gfArr ArrGF
''', '''
	gfW.s = []int32{int32(i), 1}
	gfW.name = "w" + itoa(i)
	gfW.p = &S{int32(i), "p" + itoa(i)}
	gfHold.w = gfW
	gfHold.next = &Node{int32(i), "hn" + itoa(i), nil}
	gfHold.arr[0] = "arr" + itoa(i)
	gfHold.arr[1] = gfHold.arr[0] + "!"
	gfHold.tags = append(gfHold.tags, "t"+itoa(i))
	gfArr[1] = "ga" + itoa(i)
	n := gfHold.w.s[0] + int32(len(gfHold.arr[1])+len(gfHold.tags)+len(gfArr[1])) + gfHold.next.v
	gfW.s = nil
	gfW.name = ""
	gfW.p = nil
	gfHold.w.s = nil
	gfHold.w.name = ""
	gfHold.w.p = nil
	gfHold.next = nil
	gfHold.arr[0] = ""
	gfHold.arr[1] = ""
	gfHold.tags = nil
	gfArr[1] = ""
	return n
'''),
    "globals_overwritten_then_cleared": ('''
var goP *S
var goS string
var goSl I32s
''', '''
	var n int32
	for j := 0; j < 3; j++ {
		goP = &S{int32(i + j), "o" + itoa(j)}
		goS = "s" + itoa(i+j)
		goSl = append(goSl, int32(j))
		n += goP.a + int32(len(goS)+len(goSl))
	}
	goP = nil
	goS = ""
	goSl = nil
	return n
'''),
}
LOOP_BODIES.update(LOOP_BODIES7)

# bodies whose allocation shapes do not depend on the iteration number: run in their own programs (burst_programs)
BURST_BODIES = {}
for _n in (60, 100, 300):
    BURST_BODIES["list_burst_%d" % _n] = ('''
type NodeB%d struct {
	val  int32
	next *NodeB%d
}
''' % (_n, _n), '''
	var head *NodeB%d
	for j := 0; j < %d; j++ {
		head = &NodeB%d{val: int32(j), next: head}
	}
	return head.val
''' % (_n, _n, _n))
BURST_BODIES["map_burst_120"] = ("", '''
	m := map[int32]int32{}
	for j := 0; j < 120; j++ {
		m[int32(j)] = int32(j + i)
	}
	return int32(len(m))
''')
BURST_BODIES["ptr_slice_burst_100"] = ('''
type PtrsB []*S
''', '''
	ps := make(PtrsB, 0, 100)
	for j := 0; j < 100; j++ {
		ps = append(ps, &S{int32(j), ""})
	}
	return ps[99].a
''')
BURST_BODIES["string_slice_burst_150"] = ("", '''
	ss := make([]string, 0, 150)
	for j := 0; j < 150; j++ {
		ss = append(ss, digits[j%10:j%10+1]+"x")
	}
	return int32(len(ss[149]))
''')
BURST_BODIES["closure_burst_90"] = ('''
type FnsB []func() int32

func mkFnB(k int32) func() int32 {
	return func() int32 { return k }
}
''', '''
	fs := make(FnsB, 0, 90)
	for j := 0; j < 90; j++ {
		fs = append(fs, mkFnB(int32(j)))
	}
	return fs[89]()
''')


def burst_programs(n, per=2):
    """[(name, src, [body names])] — shape-constant bodies (the body does not depend on i)"""
    items = [(k,) + v for k, v in BURST_BODIES.items()]
    out = []
    for j in range(0, len(items), per):
        part = items[j:j + per]
        out.append(("bursts:%d" % (j // per), loop_program(part, n), [p[0] for p in part]))
    return out


# ------------------------------------------------------------------------------------------------
# "discarded result" family (systematic, deterministic): every call kind x every statement position that discards
# results x every reference-bearing result type, each as one loop body.  The discarded value owns heap data built at
# run time, so whoever takes it off the stack (the statement, the defer thunk, the tuple extraction) must release it.

DISCARD_DECLS = '''
type MapD map[string]int32

type DErr struct {
	msg string
}

func (e *DErr) Error() string { return e.msg }
'''

# name -> ([result types], [value expressions in k], [use expression of variable {v}])
DISCARD_TYPES = {
    "str": (["string"], ['"r" + itoa(k)'], ["int32(len({v}))"]),
    "slice": (["I32s"], ["I32s{int32(k), 2, 3}"], ["int32(len({v}))"]),
    "map": (["MapD"], ['MapD{"a": int32(k), "b" + itoa(k): 2}'], ["int32(len({v}))"]),
    "ptr": (["*S"], ['&S{int32(k), "p" + itoa(k)}'], ["{v}.a"]),
    "iface": (["interface{}"], ['interface{}(&S{int32(k), "i" + itoa(k)})'], ["{v}.(*S).a"]),
    "error": (["error"], ['error(&DErr{"e" + itoa(k)})'], ["int32(len({v}.Error()))"]),
    "struct": (["W"], ['W{s: I32s{int32(k)}, name: "w" + itoa(k), p: &S{1, "q" + itoa(k)}}'], ["int32(len({v}.name))"]),
    "multi_str_slice": (["string", "I32s"], ['"r" + itoa(k)', "I32s{int32(k), 2}"], ["int32(len({v}))", "int32(len({v}))"]),
    "multi_struct_error": (["W", "error"], ['W{s: I32s{int32(k)}, name: "w" + itoa(k), p: &S{1, "q" + itoa(k)}}', 'error(&DErr{"e" + itoa(k)})'],
                           ["int32(len({v}.name))", "int32(len({v}.Error()))"]),
    "multi_ptr_iface_str": (["*S", "interface{}", "string"], ['&S{int32(k), "p" + itoa(k)}', 'interface{}("boxed" + itoa(k))', '"t" + itoa(k)'],
                            ["{v}.a", "int32(len({v}.(string)))", "int32(len({v}))"]),
}

# call kind -> (setup statements in the body, call expression with {a} = argument); {X} = type tag
DISCARD_KINDS = {
    "static": ("", "ds{X}({a})"),
    "method": ("\tobj := &DObj{X}{{}}\n", "obj.M({a})"),
    "iface": ("\tvar it DIface{X} = &DObj{X}{{}}\n", "it.M({a})"),
    "closure": ('\tbase := "c" + itoa(i)\n\tcl := func(k int) {R} {{\n\t\tif len(base) > 99 {{\n\t\t\tk++\n\t\t}}\n\t\treturn {RET}\n\t}}\n', "cl({a})"),
    "field": ("\thf := HoldFn{X}{{f: ds{X}}}\n", "hf.f({a})"),
    "mapelem": ('\tfm := map[string]Fn{X}{{"a": ds{X}}}\n', 'fm["a"]({a})'),
    "sliceelem": ("\tfs := []Fn{X}{{ds{X}}}\n", "fs[0]({a})"),
}


def _discard_positions(nres):
    """position name -> statement template ({c:ARG} = the call with argument ARG); uses `n` as accumulator"""
    pos = {
        "exprstmt": "\t{c:i}\n",
        "defer": "\tdefer {c:i}\n",
        "defer_in_loop": "\tfor j := 0; j < 3; j++ {{\n\t\tdefer {c:i + j}\n\t}}\n",
    }
    blanks = ", ".join(["_"] * nres)
    pos["assign_blank"] = "\t%s = {c:i}\n" % blanks
    if nres >= 2:
        # multi-value, partially discarded: keep exactly one result (each in turn)
        for keep in range(nres):
            lhs = ", ".join("x" if j == keep else "_" for j in range(nres))
            pos["keep%d" % keep] = "\t%s := {c:i}\n\tn += {use%d}\n" % (lhs, keep)
    return pos


def discard_programs(n, types=None):
    """[(name, src, [construct names])]: one program per result type, one loop per (call kind, position)"""
    out = []
    for tname in (types or DISCARD_TYPES):
        rts, vals, uses = DISCARD_TYPES[tname]
        X = "".join(p.capitalize() for p in tname.split("_"))
        R = rts[0] if len(rts) == 1 else "(" + ", ".join(rts) + ")"
        RET = ", ".join(vals)
        decls = ["func ds%s(k int) %s {\n\treturn %s\n}\n" % (X, R, RET),
                 "type DObj%s struct {\n\tn int32\n}\n" % X,
                 "func (o *DObj%s) M(k int) %s {\n\to.n++\n\treturn %s\n}\n" % (X, R, RET),
                 "type DIface%s interface {\n\tM(k int) %s\n}\n" % (X, R),
                 "type Fn%s func(int) %s\n" % (X, R),
                 "type HoldFn%s struct {\n\tf Fn%s\n}\n" % (X, X)]
        bodies, names = [], []
        for kname, (setup, call) in DISCARD_KINDS.items():
            for pname, stmt in _discard_positions(len(rts)).items():
                def sub(m):
                    return call.format(a=m.group(1), X=X)
                s = re.sub(r"\{c:([^}]*)\}", sub, stmt)
                for j, u in enumerate(uses):
                    s = s.replace("{use%d}" % j, u.format(v="x"))
                s = s.replace("{{", "{").replace("}}", "}")
                body = "\n\tvar n int32\n" + setup.format(X=X, R=R, RET=RET) + s + "\treturn n + 1\n"
                bodies.append(("%s/%s/%s" % (tname, kname, pname), "", body))
                names.append("discard:%s/%s/%s" % (tname, kname, pname))
        src = loop_program(bodies, n, extra_decls=DISCARD_DECLS + "\n".join(decls))
        out.append(("discard:" + tname, src, names))
    return out

# builtins whose reference-bearing result is discarded (Go allows them only under `_ =`; copy also as a statement / defer)
LOOP_BODIES8 = {
    "discard_builtin_results": ('''
type BytesD []byte
''', '''
	base := I32s{int32(i), 1}
	_ = append(base, 2, 3, 4)
	_ = append(I32s{}, base...)
	_ = make(I32s, i%5+1)
	_ = make(MapDB)
	_ = new(S)
	_ = string(BytesD("ab" + itoa(i)))
	_ = BytesD("cd" + itoa(i))
	_ = "x" + itoa(i)
	_ = &S{int32(i), "lit" + itoa(i)}
	_ = Strs{"a" + itoa(i)}
	_ = interface{}("boxed" + itoa(i))
	dst := make(Strs, 2)
	src := Strs{"s" + itoa(i), "t"}
	copy(dst, src)
	defer copy(dst, Strs{"u" + itoa(i)})
	return base[0]
'''),
}
LOOP_BODIES8["discard_builtin_results"] = ("type MapDB map[string]int32\n" + LOOP_BODIES8["discard_builtin_results"][0],
                                           LOOP_BODIES8["discard_builtin_results"][1])
LOOP_BODIES.update(LOOP_BODIES8)
