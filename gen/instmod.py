"""Per-instruction WebAssembly test modules for the Wa assembler's instruction subset (owner: C31).

`build()` returns (wat_text, funcs): one exported function per numeric / conversion / memory /
parametric / control instruction that internal/wat (token.go) can assemble, i.e. every instruction a
module produced by the Wa compiler or assembler can contain.  All exported functions take and return
only i32 / i64: float operands cross the host boundary as bit patterns and are reinterpreted inside
the module (`f32.reinterpret_i32` ...), so NaN payloads and signalling NaNs reach the instruction
unchanged on every engine (the JS API of V8 cannot pass them faithfully as numbers).

funcs: name -> F(sig, cls, instr, off, lean, body)
  sig   "ii:i"  (i = i32, I = i64; carriers for f32 / f64)
  cls   ibin irel iun ieqz icvt | fbin frel fun ftrunc fconv fcvt reint | load store | msize mgrow mfill mcopy |
        select brtable callind unreachable rec
  lean  True when the Lean reference (Model/C31.lean) implements every instruction of the body
  body  the WAT instruction list; `lean_prog(f)` renders it for the Lean driver (`wamodel_c31`)

`ops(funcs, rng, tier)` generates the operand grid as protocol lines:
  c <func> <sig> <hex args>        pure call
  m <func> <sig> <hex args>        reset first page to PATTERN, call, append whole-memory hash
  g <d1> <d2> ...                  fresh instance; for each d: memory.grow d, memory.size, probe last byte / one past
"""
import collections, struct

F = collections.namedtuple("F", "sig cls instr off lean body")

PAGE = 65536
MEM_MIN, MEM_MAX = 1, 4          # (memory 1 4)

IBIN = "add sub mul div_s div_u rem_s rem_u and or xor shl shr_s shr_u rotl rotr".split()
IREL = "eq ne lt_s lt_u gt_s gt_u le_s le_u ge_s ge_u".split()
IUN = "clz ctz popcnt".split()
FBIN = "add sub mul div min max copysign".split()
FREL = "eq ne lt gt le ge".split()
FUN = "abs neg ceil floor trunc nearest sqrt".split()
# loads: (mnemonic, value carrier, bytes)
LOADS = [("i32.load", "i", 4), ("i64.load", "I", 8), ("f32.load", "i", 4), ("f64.load", "I", 8),
         ("i32.load8_s", "i", 1), ("i32.load8_u", "i", 1), ("i32.load16_s", "i", 2), ("i32.load16_u", "i", 2),
         ("i64.load8_s", "I", 1), ("i64.load8_u", "I", 1), ("i64.load16_s", "I", 2), ("i64.load16_u", "I", 2),
         ("i64.load32_s", "I", 4), ("i64.load32_u", "I", 4)]
STORES = [("i32.store", "i", 4), ("i64.store", "I", 8), ("f32.store", "i", 4), ("f64.store", "I", 8),
          ("i32.store8", "i", 1), ("i32.store16", "i", 2), ("i64.store8", "I", 1), ("i64.store16", "I", 2),
          ("i64.store32", "I", 4)]
OFFSETS = [0, 1, 7, 65528, 65535, 65536, 2147483640, 2147483648, 4294967288, 4294967295]
WIDTH = dict((m, n) for m, _, n in LOADS + STORES)

# instructions whose NaN results are nondeterministic in sign / payload (spec 4.3.3 "nans_N{z*}")
NAN_NONDET = set("add sub mul div min max ceil floor trunc nearest sqrt".split())

BRT_TARGETS = [100, 101, 102, 103]    # br_table 0 1 2 3 4 : index k -> 100+k, default -> 199
BRT_DEFAULT = 199


def pattern_byte(i):
    return (i * 7 + (i >> 8) * 13 + 1) & 0xff


def pattern(n=PAGE):
    return bytes(pattern_byte(i) for i in range(n))


def fnv32(bs):
    h = 0x811c9dc5
    for b in bs:
        h = ((h ^ b) * 16777619) & 0xffffffff
    return h


def _carrier(t):
    return {"i32": "i", "i64": "I", "f32": "i", "f64": "I"}[t]


def _wt(c):
    return "i32" if c == "i" else "i64"


def _get(k, t):
    """push param k, which carries a value of type t"""
    s = ["local.get %d" % k]
    if t == "f32":
        s.append("f32.reinterpret_i32")
    if t == "f64":
        s.append("f64.reinterpret_i64")
    return s


def _ret(t):
    if t == "f32":
        return ["i32.reinterpret_f32"]
    if t == "f64":
        return ["i64.reinterpret_f64"]
    return []


def _func(name, ptypes, rtypes, body):
    ps = "".join(" (param %s)" % _wt(_carrier(t)) for t in ptypes)
    rs = "".join(" (result %s)" % _wt(_carrier(t)) for t in rtypes)
    return '(func $%s (export "%s")%s%s\n  %s\n)\n' % (
        "f%d" % _func.n, name, ps, rs, "\n  ".join(body)), \
        "%s:%s" % ("".join(_carrier(t) for t in ptypes), "".join(_carrier(t) for t in rtypes))


_LEAN_OPS = set(["select", "drop", "memory.size", "memory.grow", "memory.fill", "memory.copy", "i32.wrap_i64", "i64.extend_i32_s",
                 "i64.extend_i32_u", "i32.eqz", "i64.eqz"]
                + ["%s.%s" % (t, k) for t in ("i32", "i64") for k in IBIN + IREL + IUN]
                + [m for m, _, _ in LOADS + STORES if not m.startswith("f")])


def lean_tok(ins):
    """'i32.load offset=7' -> 'i32.load=7'; 'local.get 0' -> 'local.get=0'; None if the reference does not model it"""
    p = ins.split()
    if p[0] in ("local.get", "i32.const", "i64.const") and len(p) == 2:
        return "%s=%d" % (p[0], int(p[1]))
    if p[0] in _LEAN_OPS:
        if len(p) == 1:
            return p[0]
        if len(p) == 2 and p[1].startswith("offset="):
            return "%s=%s" % (p[0], p[1][7:])
    return None


def lean_ok(body):
    return all(lean_tok(i) is not None for i in body)


def lean_prog(f):
    return ",".join(lean_tok(i) for i in f.body)


def build_grow():
    """the small module the `g` lines run on (fresh instance per line): same memory declaration, five functions"""
    out = ["(module $c31_growmod", "(memory $memory %d %d)" % (MEM_MIN, MEM_MAX), '(export "memory" (memory $memory))']
    out.append('(func $g1 (export "memory.size") (result i32)\n  memory.size\n)')
    out.append('(func $g2 (export "memory.grow") (param i32) (result i32)\n  local.get 0\n  memory.grow\n)')
    out.append('(func $g3 (export "i32.store8@0") (param i32) (param i32)\n  local.get 0\n  local.get 1\n  i32.store8 offset=0\n)')
    out.append('(func $g4 (export "i32.load8_u@0") (param i32) (result i32)\n  local.get 0\n  i32.load8_u offset=0\n)')
    out.append('(func $g5 (export "i32.load8_u@1") (param i32) (result i32)\n  local.get 0\n  i32.load8_u offset=1\n)')
    out.append(")")
    return "\n".join(out) + "\n"


# --------------------------------------------------------------------------- pending-comparison stream
# An engine that compiles to machine code may keep the result of a comparison only in the CPU flags until it is consumed.
# Every instruction kind K must then either materialise a pending comparison before emitting flag-clobbering code (shape A:
# `cmp; K...; return (cmp result, K result)`, the comparison result stays on the operand stack while K executes) or consume it
# correctly as its top operand (shape B: `...; cmp; K`).  One function per (comparison, K, shape).
PEND_ARGS = {}     # function name -> (list of comparison operand tuples, list of K operand tuples)  (filled by build())

_WT_BITS = {"i32": 32, "i64": 64, "f32": 32, "f64": 64}


def _numeric_sig(instr):
    """(operand wasm types, result wasm type) of a numeric / conversion instruction of the catalogue"""
    t, op = instr.split(".", 1)
    if op in IBIN or op in FBIN:
        return [t, t], t
    if op in IREL or op in FREL:
        return [t, t], "i32"
    if op in IUN or op in FUN:
        return [t], t
    if op == "eqz":
        return [t], "i32"
    src = {"wrap_i64": "i64", "extend_i32_s": "i32", "extend_i32_u": "i32", "demote_f64": "f64", "promote_f32": "f32"}.get(op)
    if src is None:
        src = op.split("_")[1]                     # trunc_f32_s, convert_i64_u, reinterpret_f32
    return [src], t


def _numeric_catalogue():
    c = []
    for t in ("i32", "i64"):
        c += ["%s.%s" % (t, k) for k in IBIN + IREL + IUN + ["eqz"]]
    c += ["i32.wrap_i64", "i64.extend_i32_s", "i64.extend_i32_u"]
    for t in ("f32", "f64"):
        c += ["%s.%s" % (t, k) for k in FBIN + FREL + FUN]
    for it in ("i32", "i64"):
        for ft in ("f32", "f64"):
            for sg in ("s", "u"):
                c += ["%s.trunc_%s_%s" % (it, ft, sg), "%s.convert_%s_%s" % (ft, it, sg)]
    c += ["f32.demote_f64", "f64.promote_f32", "i32.reinterpret_f32", "i64.reinterpret_f64", "f32.reinterpret_i32", "f64.reinterpret_i64"]
    return c


_KVAL = {   # operand values per wasm type: (first, second) in the default set and in the alternative sets (thorough tier)
    "i32": [(0x12345, 3), (0xffffffff, 0x1f), (0x80000000, 0xffffffff)],
    "i64": [(0x123456789, 3), (0xffffffffffffffff, 0x3f), (0x8000000000000000, 0xffffffffffffffff)],
    "f32": [(0x40200000, 0x3f400000), (0x80000000, 0x7f800000), (0x7fc00000, 0x4f000000)],
    "f64": [(0x4004000000000000, 0x3fe8000000000000), (0x8000000000000000, 0x7ff0000000000000), (0x7ff8000000000000, 0x41e0000000000000)],
}


def _pending(out, funcs):
    out.append("(func $k77 (result i32)\n  i32.const 77\n)\n")
    out.append("(func $add2 (param i32) (param i32) (result i32)\n  local.get 0\n  i32.const 3\n  i32.mul\n  local.get 1\n  i32.add\n)\n")
    car = {"i32": "i32", "i64": "i64", "f32": "i32", "f64": "i64"}
    ones = {"i32": 0xffffffff, "i64": 0xffffffffffffffff}
    # ---- comparison families: (name, carrier param types, tokens, operand cases)
    cmps = []
    for t in ("i32", "i64"):
        cases = [(5, 5), (5, 7), (7, 5), (ones[t], 1)]
        for k in IREL:
            cmps.append(("%s.%s" % (t, k), [t, t], ["local.get 0", "local.get 1", "%s.%s" % (t, k)], cases))
        cmps.append(("%s.eqz" % t, [t], ["local.get 0", "%s.eqz" % t], [(0,), (5,)]))
    for t, one, two, nan in (("f32", 0x3f800000, 0x40000000, 0x7fc00000), ("f64", 0x3ff0000000000000, 0x4000000000000000, 0x7ff8000000000000)):
        r = "%s.reinterpret_%s" % (t, car[t])
        cases = [(one, one), (one, two), (two, one), (nan, one)]
        for k in FREL:
            cmps.append(("%s.%s" % (t, k), [car[t], car[t]], ["local.get 0", r, "local.get 1", r, "%s.%s" % (t, k)], cases))

    def push(idx, t):
        return ["local.get %d" % idx] + ({"f32": ["f32.reinterpret_i32"], "f64": ["f64.reinterpret_i64"]}.get(t, []))

    def back(t):
        return {"f32": ["i32.reinterpret_f32"], "f64": ["i64.reinterpret_f64"]}.get(t, [])

    def kvals(types):
        """operand tuples for K parameters of the given wasm types: position j takes the (j mod 2)-th value of each set"""
        return [tuple(_KVAL[t][s][j % 2] for j, t in enumerate(types)) for s in range(3)]

    # ---- K kinds.  Each entry: (kname, shape, K param wasm types, extra locals (wasm types), pre, before, after, result wasm type | None,
    #                             memory line?, K operand cases | None (= kvals), late?)
    #   pre    : tokens before the comparison (b = index of the first K parameter, l = index of the first extra local)
    #   before : tokens between `pre` and the comparison that push operands UNDER the comparison result (shape B)
    #   after  : tokens after the comparison
    K = []

    def kadd(kname, shape, ktypes, after, res, locs=(), pre=(), before=(), mem=False, cases=None, late=False):
        K.append((kname, shape, list(ktypes), list(locs), list(pre), list(before), list(after), res, mem, cases, late))

    P = "{b%d}"          # placeholder for "index of K parameter d"
    LC = "{l%d}"         # placeholder for "index of extra local d"

    def pk(j, t):
        return ["local.get " + P % j] + ({"f32": ["f32.reinterpret_i32"], "f64": ["f64.reinterpret_i64"]}.get(t, []))

    for ins in _numeric_catalogue():
        ots, rt = _numeric_sig(ins)
        a = []
        for j, t in enumerate(ots):
            a += pk(j, t)
        kadd(ins, "A", ots, a + [ins] + back(rt), rt)
        if ots[-1] == "i32":                        # the comparison result is K's top operand
            bf = []
            for j, t in enumerate(ots[:-1]):
                bf += pk(j, t)
            kadd(ins, "B", ots[:-1], [ins] + back(rt), rt, before=bf)
    for m, c, n in LOADS:
        vt = m.split(".")[0]
        kadd(m, "A", ["i32"], pk(0, "i32") + [m + " offset=0"] + back(vt), vt, mem=True, cases=[(16,), (65535,), (0xfffffffc,)])
        kadd(m, "B", [], [m + " offset=3"] + back(vt), vt, mem=True, cases=[()])
    for m, c, n in STORES:
        vt = m.split(".")[0]
        kadd(m, "A", ["i32", vt], pk(0, "i32") + pk(1, vt) + [m + " offset=0"], None, mem=True,
             cases=[(16, _KVAL[vt][1][0]), (65535, _KVAL[vt][0][0]), (0xfffffffc, 1)])
        if vt == "i32":
            kadd(m, "B", ["i32"], [m + " offset=5"], None, before=pk(0, "i32"), mem=True, cases=[(16,), (65533,)])
    kadd("memory.size", "A", [], ["memory.size"], "i32", cases=[()])
    kadd("memory.grow", "A", ["i32"], pk(0, "i32") + ["memory.grow"], "i32", cases=[(0,), (0x10000,), (0xffff0000,)])
    kadd("memory.grow", "B", [], ["memory.grow"], "i32", cases=[()], late=True)       # grows by the comparison result: run last
    kadd("memory.fill", "A", ["i32", "i32", "i32"], pk(0, "i32") + pk(1, "i32") + pk(2, "i32") + ["memory.fill"], None, mem=True,
         cases=[(8, 0xab, 40), (65530, 1, 7), (0, 0x7f, 0)])
    kadd("memory.fill", "B", ["i32", "i32"], ["memory.fill"], None, before=pk(0, "i32") + pk(1, "i32"), mem=True, cases=[(9, 0xcd), (65535, 0xef), (65536, 1)])
    kadd("memory.copy", "A", ["i32", "i32", "i32"], pk(0, "i32") + pk(1, "i32") + pk(2, "i32") + ["memory.copy"], None, mem=True,
         cases=[(8, 100, 40), (100, 90, 30), (65530, 0, 7)])
    kadd("memory.copy", "B", ["i32", "i32"], ["memory.copy"], None, before=pk(0, "i32") + pk(1, "i32"), mem=True, cases=[(9, 200), (65535, 3), (65536, 0)])
    kadd("nop", "A", [], ["nop"], None, cases=[()])
    for t, lit in (("i32", "7"), ("i32", "0"), ("i64", "7"), ("i64", "0"), ("f32", "1.5"), ("f64", "1.5")):
        kadd("%s.const(%s)" % (t, lit), "A", [], ["%s.const %s" % (t, lit)] + back(t), t, cases=[()])
    for t in ("i32", "i64", "f32", "f64"):
        setl = pk(0, t) + ["local.set " + LC % 0]
        kadd("local.get(%s)" % t, "A", [t], ["local.get " + LC % 0] + back(t), t, locs=[t], pre=setl)
        kadd("local.set(%s)" % t, "A", [t], pk(0, t) + ["local.set " + LC % 0, "local.get " + LC % 0] + back(t), t, locs=[t])
        kadd("local.tee(%s)" % t, "A", [t], pk(0, t) + ["local.tee " + LC % 0] + back(t), t, locs=[t])
        kadd("global.get(%s)" % t, "A", [], ["global.get $g_%s" % t] + back(t), t, cases=[()])
        kadd("global.set(%s)" % t, "A", [t], pk(0, t) + ["global.set $g_%s" % t, "global.get $g_%s" % t] + back(t), t)
        kadd("select(%s)" % t, "A", [t, t, "i32"], pk(0, t) + pk(1, t) + pk(2, "i32") + ["select"] + back(t), t,
             cases=[v[:2] + (c,) for v in kvals([t, t]) for c in (0, 1)][:4])
        kadd("select(%s)" % t, "B", [t, t], ["select"] + back(t), t, before=pk(0, t) + pk(1, t))
    kadd("local.set(i32)", "B", [], ["local.set " + LC % 0, "local.get " + LC % 0], "i32", locs=["i32"], cases=[()])
    kadd("local.tee(i32)", "B", [], ["local.tee " + LC % 0, "local.get " + LC % 0, "i32.add"], "i32", locs=["i32"], cases=[()])
    kadd("global.set(i32)", "B", [], ["global.set $g_i32", "global.get $g_i32"], "i32", cases=[()])
    kadd("select-value", "A", ["i32", "i32"], pk(0, "i32") + pk(1, "i32") + ["select"], None, cases=[(9, 0), (9, 1)])   # the result is a select operand
    kadd("drop", "A", ["i32"], pk(0, "i32") + ["drop"], None, cases=[(9,)])
    kadd("drop", "B", ["i32"], ["drop"], "i32", before=pk(0, "i32"), cases=[(9,)])            # returns the value under the dropped comparison
    kadd("return", "B", [], ["return"], "i32", cases=[()])
    kadd("call0", "A", [], ["call $k77"], "i32", cases=[()])
    kadd("call1", "A", ["i32"], pk(0, "i32") + ["call $inc"], "i32")
    kadd("call1", "B", [], ["call $inc"], "i32", cases=[()])
    kadd("call2", "B", ["i32"], ["call $add2"], "i32", before=pk(0, "i32"))
    kadd("call_indirect", "A", ["i32", "i32"], pk(0, "i32") + pk(1, "i32") + ["call_indirect (type $t_i_i)"], "i32", cases=[(5, 1), (5, 2), (5, 0)])
    kadd("call_indirect", "B", ["i32"], ["call_indirect (type $t_i_i)"], "i32", before=pk(0, "i32"), cases=[(5,), (0xffffffff,)])
    kadd("block", "A", ["i32"], ["block"] + pk(0, "i32") + ["drop", "end"], None, cases=[(9,)])
    kadd("block-result", "A", ["i32"], ["block (result i32)"] + pk(0, "i32") + ["end"], "i32", cases=[(9,)])
    kadd("loop", "A", ["i32"], ["loop"] + pk(0, "i32") + ["drop", "end"], None, cases=[(9,)])
    kadd("loop-counted", "A", ["i32"], pk(0, "i32") + ["local.set " + LC % 0, "loop", "local.get " + LC % 0, "i32.const 1", "i32.sub",
                                                       "local.tee " + LC % 0, "br_if 0", "end", "local.get " + LC % 0], "i32",
         locs=["i32"], cases=[(3,), (1,)])
    kadd("if", "A", ["i32"], pk(0, "i32") + ["if (result i32)", "i32.const 40", "else", "i32.const 50", "end"], "i32", cases=[(0,), (2,)])
    kadd("if", "B", [], ["if (result i32)", "i32.const 40", "else", "i32.const 50", "end"], "i32", cases=[()])
    kadd("if-no-else", "B", ["i32"], ["if", "i32.const 60", "local.set " + P % 0, "end", "local.get " + P % 0], "i32", cases=[(9,)])
    kadd("br", "B", [], ["block (result i32)", "{cmp}", "br 0", "end"], "i32", cases=[()])            # the branch carries the comparison result
    kadd("br-carry", "A", [], ["br 0"], None, cases=[()])
    kadd("br_if", "A", ["i32"], pk(0, "i32") + ["br_if 0", "i32.const 1000", "i32.add"], None, cases=[(0,), (1,)])   # the branch carries the comparison result
    kadd("br_if", "B", ["i32"], ["br_if 0", "i32.const 1000", "i32.add"], "i32", before=pk(0, "i32"), cases=[(9,)])
    kadd("br_table", "A", ["i32"], ["block (result i32)", "block (result i32)"] + ["{cmp}"] + pk(0, "i32") + ["br_table 0 1 1", "end", "i32.const 1000", "i32.add", "end"],
         None, cases=[(0,), (1,), (7,)])
    kadd("br_table", "B", [], ["block", "block", "block", "{cmp}", "br_table 0 1 2", "end", "i32.const 100", "return", "end", "i32.const 101", "return", "end",
                               "i32.const 199"], "i32", cases=[()])
    kadd("unreachable-after", "A", ["i32"], pk(0, "i32") + ["if", "unreachable", "end"], None, cases=[(0,), (1,)])

    for cname, cpts, ctoks, ccases in cmps:
        nb = len(cpts)
        for kname, shape, ktypes, locs, pre, before, after, res, mem, kcases, late in K:
            nl = nb + len(ktypes)

            def fix(toks):
                o = []
                for tk in toks:
                    for j in range(len(ktypes)):
                        tk = tk.replace("{b%d}" % j, str(nb + j))
                    for j in range(len(locs)):
                        tk = tk.replace("{l%d}" % j, str(nl + j))
                    o.append(tk)
                return o
            aft = fix(after)
            if "{cmp}" in aft:                     # the comparison sits inside the K construct
                i = aft.index("{cmp}")
                body = fix(pre) + fix(before) + aft[:i] + ctoks + aft[i + 1:]
            else:
                body = fix(pre) + fix(before) + ctoks + aft
            if shape == "A":
                rts = ["i32"] + ([car[res]] if res else [])
            else:
                rts = [car[res]] if res else []
            name = "%s:%s|%s" % ("p" if shape == "A" else "q", cname, kname)
            _func.n += 1
            ptypes = cpts + [car[t] for t in ktypes]
            ldecl = "".join("\n  (local %s)" % t for t in locs)
            ps = "".join(" (param %s)" % t for t in ptypes)
            rs = (" (result %s)" % " ".join(rts)) if rts else ""
            out.append('(func $f%d (export "%s")%s%s%s\n  %s\n)\n' % (_func.n, name, ps, rs, ldecl, "\n  ".join(body)))
            sig = "%s:%s" % ("".join("i" if t == "i32" else "I" for t in ptypes), "".join("i" if t == "i32" else "I" for t in rts))
            cls = ("mpend" if mem else "pend") + ("-late" if late else "")
            funcs[name] = F(sig, cls, kname + ("@A" if shape == "A" else "@B"), 0, (not locs) and (not late) and lean_ok(body), body)
            PEND_ARGS[name] = (ccases, kcases if kcases is not None else kvals(ktypes))


def build():
    """-> (wat text, OrderedDict name -> F)"""
    out = ["(module $c31_instmod"]
    out.append("(memory $memory %d %d)" % (MEM_MIN, MEM_MAX))
    out.append('(export "memory" (memory $memory))')
    out.append("(table 8 funcref)")
    out.append("(type $t_i_i (func (param i32) (result i32)))")
    out.append("(type $t_I_I (func (param i64) (result i64)))")
    out.append("(global $g_i32 (mut i32) (i32.const 11))")
    out.append("(global $g_i64 (mut i64) (i64.const 12))")
    out.append("(global $g_f32 (mut f32) (f32.const 1.5))")
    out.append("(global $g_f64 (mut f64) (f64.const 2.5))")
    funcs = collections.OrderedDict()
    _func.n = 0

    def add(name, ptypes, rtypes, body, cls, instr, off=0, lean=False):
        _func.n += 1
        txt, sig = _func(name, ptypes, rtypes, body)
        out.append(txt)
        funcs[name] = F(sig, cls, instr, off, lean and lean_ok(body), list(body))

    def simple(instr, ptypes, rtypes, cls, lean=False):
        body = []
        for k, t in enumerate(ptypes):
            body += _get(k, t)
        body.append(instr)
        for t in rtypes:
            body += _ret(t)
        add(instr, ptypes, rtypes, body, cls, instr, lean=lean)

    for t in ("i32", "i64"):
        for k in IBIN:
            simple("%s.%s" % (t, k), [t, t], [t], "ibin", True)
        for k in IREL:
            simple("%s.%s" % (t, k), [t, t], ["i32"], "irel", True)
        for k in IUN:
            simple("%s.%s" % (t, k), [t], [t], "iun", True)
        simple("%s.eqz" % t, [t], ["i32"], "ieqz", True)
    simple("i32.wrap_i64", ["i64"], ["i32"], "icvt", True)
    simple("i64.extend_i32_s", ["i32"], ["i64"], "icvt", True)
    simple("i64.extend_i32_u", ["i32"], ["i64"], "icvt", True)
    for t in ("f32", "f64"):
        for k in FBIN:
            simple("%s.%s" % (t, k), [t, t], [t], "fbin")
        for k in FREL:
            simple("%s.%s" % (t, k), [t, t], ["i32"], "frel")
        for k in FUN:
            simple("%s.%s" % (t, k), [t], [t], "fun")
    for it in ("i32", "i64"):
        for ft in ("f32", "f64"):
            for s in ("s", "u"):
                simple("%s.trunc_%s_%s" % (it, ft, s), [ft], [it], "ftrunc")
                simple("%s.convert_%s_%s" % (ft, it, s), [it], [ft], "fconv")
    simple("f32.demote_f64", ["f64"], ["f32"], "fcvt")
    simple("f64.promote_f32", ["f32"], ["f64"], "fcvt")
    simple("i32.reinterpret_f32", ["f32"], ["i32"], "reint")
    simple("i64.reinterpret_f64", ["f64"], ["i64"], "reint")
    # f32.reinterpret_i32 / f64.reinterpret_i64 are exercised by every float row; these two rows are the round trip
    add("f32.reinterpret_i32", ["i32"], ["i32"], ["local.get 0", "f32.reinterpret_i32", "i32.reinterpret_f32"], "reint", "f32.reinterpret_i32")
    add("f64.reinterpret_i64", ["i64"], ["i64"], ["local.get 0", "f64.reinterpret_i64", "i64.reinterpret_f64"], "reint", "f64.reinterpret_i64")

    # ---- memory
    for m, c, n in LOADS:
        vt = m.split(".")[0]
        for off in OFFSETS:
            body = ["local.get 0", "%s offset=%d" % (m, off)] + _ret(vt)
            add("%s@%d" % (m, off), ["i32"], [vt], body, "load", m, off, lean=not m.startswith("f"))
    for m, c, n in STORES:
        vt = m.split(".")[0]
        for off in OFFSETS:
            body = ["local.get 0"] + _get(1, vt) + ["%s offset=%d" % (m, off)]
            add("%s@%d" % (m, off), ["i32", vt], [], body, "store", m, off, lean=not m.startswith("f"))
    add("memory.size", [], ["i32"], ["memory.size"], "msize", "memory.size", lean=True)
    add("memory.grow", ["i32"], ["i32"], ["local.get 0", "memory.grow"], "mgrow", "memory.grow", lean=True)
    add("memory.fill", ["i32", "i32", "i32"], [], ["local.get 0", "local.get 1", "local.get 2", "memory.fill"], "mfill", "memory.fill", lean=True)
    add("memory.copy", ["i32", "i32", "i32"], [], ["local.get 0", "local.get 1", "local.get 2", "memory.copy"], "mcopy", "memory.copy", lean=True)
    # store followed by a differently-sized load at the same address, inside one function
    add("st32_ld8s", ["i32", "i32"], ["i32"], ["local.get 0", "local.get 1", "i32.store", "local.get 0", "i32.load8_s offset=3"], "store", "st32_ld8s", 0, lean=True)

    # ---- composites: a 32-bit result produced from 64-bit operands (or by 32-bit overflow) feeds an instruction that must
    # see exactly 32 bits (an engine that keeps i32 values in 64-bit registers must not let the upper half leak)
    W = ["local.get 0", "i32.wrap_i64"]
    add("wrap;extend_u", ["i64"], ["i64"], W + ["i64.extend_i32_u"], "combo", "i64.extend_i32_u", lean=True)
    add("wrap;extend_s", ["i64"], ["i64"], W + ["i64.extend_i32_s"], "combo", "i64.extend_i32_s", lean=True)
    for k in ("shr_u", "shr_s", "div_u", "rem_u", "div_s", "rotl", "rotr", "lt_u", "ge_s", "eq"):
        add("wrap;i32.%s" % k, ["i64", "i32"], ["i32"], W + ["local.get 1", "i32.%s" % k], "combo", "i32.%s" % k, lean=True)
        add("wrap2;i32.%s" % k, ["i32", "i64"], ["i32"], ["local.get 0", "local.get 1", "i32.wrap_i64", "i32.%s" % k], "combo", "i32.%s" % k, lean=True)
    for k in ("clz", "ctz", "popcnt", "eqz"):
        add("wrap;i32.%s" % k, ["i64"], ["i32"], W + ["i32.%s" % k], "combo", "i32.%s" % k, lean=True)
    add("wrap;f64.convert_i32_u", ["i64"], ["f64"], W + ["f64.convert_i32_u", "i64.reinterpret_f64"], "combo", "f64.convert_i32_u")
    add("wrap;f32.convert_i32_s", ["i64"], ["f32"], W + ["f32.convert_i32_s", "i32.reinterpret_f32"], "combo", "f32.convert_i32_s")
    add("wrap;select", ["i32", "i32", "i64"], ["i32"], ["local.get 0", "local.get 1", "local.get 2", "i32.wrap_i64", "select"], "combo", "select", lean=True)
    add("wrap;i32.load8_u", ["i64"], ["i32"], W + ["i32.load8_u offset=0"], "mcombo", "i32.load8_u", lean=True)
    add("wrap;i32.load@65535", ["i64"], ["i32"], W + ["i32.load offset=65535"], "mcombo", "i32.load", lean=True)
    add("wrap;i64.store", ["i64", "i64"], [], W + ["local.get 1", "i64.store offset=0"], "mcombo", "i64.store", lean=True)
    add("wrap;memory.fill", ["i64", "i64", "i64"], [], W + ["local.get 1", "i32.wrap_i64", "local.get 2", "i32.wrap_i64", "memory.fill"], "mcombo", "memory.fill", lean=True)
    for k in ("add", "sub", "mul", "shl"):
        A = ["local.get 0", "local.get 1", "i32.%s" % k]
        add("i32.%s;extend_u" % k, ["i32", "i32"], ["i64"], A + ["i64.extend_i32_u"], "combo", "i64.extend_i32_u", lean=True)
        add("i32.%s;shr_u" % k, ["i32", "i32", "i32"], ["i32"], A + ["local.get 2", "i32.shr_u"], "combo", "i32.shr_u", lean=True)
        add("i32.%s;div_u" % k, ["i32", "i32", "i32"], ["i32"], A + ["local.get 2", "i32.div_u"], "combo", "i32.div_u", lean=True)
        add("i32.%s;lt_u" % k, ["i32", "i32", "i32"], ["i32"], A + ["local.get 2", "i32.lt_u"], "combo", "i32.lt_u", lean=True)
        add("i32.%s;i32.load8_u" % k, ["i32", "i32"], ["i32"], A + ["i32.load8_u offset=0"], "mcombo", "i32.load8_u", lean=True)
        add("i32.%s;i32.load16_s@65534" % k, ["i32", "i32"], ["i32"], A + ["i32.load16_s offset=65534"], "mcombo", "i32.load16_s", lean=True)
        add("i32.%s;i32.store8" % k, ["i32", "i32", "i32"], [], A + ["local.get 2", "i32.store8 offset=0"], "mcombo", "i32.store8", lean=True)
    for k in ("eq", "lt_u", "gt_s"):
        add("i64.%s;extend_u" % k, ["i64", "i64"], ["i64"], ["local.get 0", "local.get 1", "i64.%s" % k, "i64.extend_i32_u"], "combo", "i64.extend_i32_u", lean=True)
        add("i64.%s;i32.sub" % k, ["i64", "i64", "i32"], ["i32"], ["local.get 2", "local.get 0", "local.get 1", "i64.%s" % k, "i32.sub"], "combo", "i32.sub", lean=True)
    add("i64.eqz;i32.load8_u", ["i64"], ["i32"], ["local.get 0", "i64.eqz", "i32.load8_u offset=0"], "mcombo", "i32.load8_u", lean=True)

    # ---- parametric
    for t in ("i32", "i64", "f32", "f64"):
        add("select.%s" % t, [t, t, "i32"], [t], _get(0, t) + _get(1, t) + ["local.get 2", "select"] + _ret(t), "select", "select",
            lean=t in ("i32", "i64"))
    # NOTE: `select (result t)` is not generated: watutil.Wat2Wasm encodes it as 0x1C <valtype> without the vector length
    # (spec: 0x1C vec(valtype)), and its own validator then rejects the module ("too many type immediates for typed_select");
    # no module produced by the Wa tool chain can contain it.

    # ---- control
    body = ["block $d", "block $b3", "block $b2", "block $b1", "block $b0",
            "local.get 0", "br_table 0 1 2 3 4",
            "end", "i32.const %d" % BRT_TARGETS[0], "return",
            "end", "i32.const %d" % BRT_TARGETS[1], "return",
            "end", "i32.const %d" % BRT_TARGETS[2], "return",
            "end", "i32.const %d" % BRT_TARGETS[3], "return",
            "end", "i32.const %d" % BRT_DEFAULT]
    add("br_table", ["i32"], ["i32"], body, "brtable", "br_table")
    # table: 0 null, 1 $inc (i32->i32), 2 $dbl (i32->i32), 3 $inc64 (i64->i64), 4..7 null
    out.append("(func $inc (param i32) (result i32)\n  local.get 0\n  i32.const 1\n  i32.add\n)\n")
    out.append("(func $dbl (param i32) (result i32)\n  local.get 0\n  i32.const 1\n  i32.shl\n)\n")
    out.append("(func $inc64 (param i64) (result i64)\n  local.get 0\n  i64.const 1\n  i64.add\n)\n")
    out.append("(elem (i32.const 1) $inc)")
    out.append("(elem (i32.const 2) $dbl)")
    out.append("(elem (i32.const 3) $inc64)")
    add("call_indirect", ["i32", "i32"], ["i32"], ["local.get 1", "local.get 0", "call_indirect (type $t_i_i)"], "callind", "call_indirect")
    add("unreachable", [], [], ["unreachable"], "unreachable", "unreachable")
    _func.n += 1
    out.append('(func $rec (export "rec") (param i32) (result i32)\n  local.get 0\n  i32.eqz\n  if (result i32)\n    i32.const 7\n  else\n'
               '    local.get 0\n    i32.const 1\n    i32.sub\n    call $rec\n    i32.const 1\n    i32.add\n  end\n)\n')
    funcs["rec"] = F("i:i", "rec", "call", 0, False, [])
    _pending(out, funcs)
    out.append(")")
    return "\n".join(out) + "\n", funcs


# --------------------------------------------------------------------------- operand pools
def _u(v, bits):
    return v & ((1 << bits) - 1)


def int_pool(bits, rng, nrand, small=False):
    m = (1 << bits) - 1
    vals = [0, 1, 2, 3, m, m - 1, 1 << (bits - 1), (1 << (bits - 1)) - 1, (1 << (bits - 1)) + 1,
            7, 8, 15, 16, 31, 32, 33, 63, 64, 65, 127, 128, 255, 256, 0x7fff, 0x8000, 0xffff, 0x10000]
    if bits == 64:
        vals += [0x7fffffff, 0x80000000, 0xffffffff, 0x100000000, 0xffffffff00000000, 0x0123456789abcdef, 0xfedcba9876543210]
    else:
        vals += [0x12345678, 0x87654321, 0x00ff00ff]
    if not small:
        vals += [1 << k for k in range(2, bits - 1, 5)]
        vals += [m ^ (1 << k) for k in range(0, bits, 7)]
    vals += [rng.getrandbits(bits) for _ in range(nrand)]
    vals += [rng.getrandbits(rng.randrange(1, bits + 1)) for _ in range(nrand)]
    seen, out = set(), []
    for v in vals:
        v = _u(v, bits)
        if v not in seen:
            seen.add(v)
            out.append(v)
    return out


def f32b(x):
    return struct.unpack("<I", struct.pack("<f", x))[0]


def f64b(x):
    return struct.unpack("<Q", struct.pack("<d", x))[0]


F32_POOL = [
    0x00000000, 0x80000000, 0x3f800000, 0xbf800000, 0x00000001, 0x80000001, 0x007fffff, 0x807fffff, 0x00800000, 0x80800000,
    0x7f7fffff, 0xff7fffff, 0x7f800000, 0xff800000,
    0x7fc00000, 0xffc00000,                         # canonical NaNs
    0x7fa00000, 0xffa00001, 0x7f800001,             # signalling NaNs with payloads
    0x7fc00001, 0xffdeadbe, 0x7fffffff,             # quiet NaNs with payloads
    0x3f000000, 0xbf000000, 0x3fc00000, 0xbfc00000, 0x40200000, 0xc0200000, 0x40600000,   # .5 1.5 2.5 3.5 (nearest ties)
    0x3effffff, 0x3f000001, 0xbf7fffff, 0x3f7fffff,
    0x4b000000, 0x4b000001, 0x4b7fffff, 0x4b800000, 0xcb000001, 0x4a800001, 0x4affffff,   # 2^23 .. 2^24 (integrality edge)
    0x4effffff, 0x4f000000, 0xcf000000, 0xcf000001, 0x4f7fffff, 0x4f800000,               # i32 / u32 trunc limits
    0x5effffff, 0x5f000000, 0xdf000000, 0xdf000001, 0x5f7fffff, 0x5f800000,               # i64 / u64 trunc limits
    0x40490fdb, 0xc0490fdb, 0x3eaaaaab, 0x42f6e979, 0x00400000, 0x7f000000, 0x01000000,
]
F64_POOL = [
    0x0000000000000000, 0x8000000000000000, 0x3ff0000000000000, 0xbff0000000000000,
    0x0000000000000001, 0x8000000000000001, 0x000fffffffffffff, 0x800fffffffffffff, 0x0010000000000000, 0x8010000000000000,
    0x7fefffffffffffff, 0xffefffffffffffff, 0x7ff0000000000000, 0xfff0000000000000,
    0x7ff8000000000000, 0xfff8000000000000,
    0x7ff4000000000000, 0xfff4000000000001, 0x7ff0000000000001,
    0x7ff8000000000001, 0xfffdeadbeefcafe0, 0x7fffffffffffffff,
    0x3fe0000000000000, 0xbfe0000000000000, 0x3ff8000000000000, 0xbff8000000000000, 0x4004000000000000, 0xc004000000000000, 0x400c000000000000,
    0x3fdfffffffffffff, 0x3fe0000000000001, 0xbfefffffffffffff, 0x3fefffffffffffff,
    0x4330000000000000, 0x4330000000000001, 0x433fffffffffffff, 0x4340000000000000, 0xc330000000000001, 0x4320000000000001, 0x432fffffffffffff,
    0x41dfffffffc00000, 0x41dfffffffffffff, 0x41e0000000000000, 0xc1e0000000000000, 0xc1e00000001fffff, 0xc1e0000000200000,   # i32 limits
    0x41efffffffe00000, 0x41efffffffffffff, 0x41f0000000000000,                                                              # u32 limits
    0x43dfffffffffffff, 0x43e0000000000000, 0xc3e0000000000000, 0xc3e0000000000001, 0x43efffffffffffff, 0x43f0000000000000,   # i64 / u64 limits
    0x47efffffe0000000, 0x47efffffefffffff, 0x47effffff0000000, 0x47effffff0000001, 0xc7effffff0000000,                     # demote: around f32 max
    0x36a0000000000000, 0x3690000000000000, 0x3690000000000001, 0x36a8000000000000, 0x380fffffffffffff, 0x3810000000000000, # demote: f32 subnormals
    0x3ff0000010000000, 0x3ff0000030000000, 0x3ff0000010000001,                                                              # demote: ties
    0x400921fb54442d18, 0xc00921fb54442d18, 0x3fd5555555555555, 0x405edd2f1a9fbe77, 0x0008000000000000, 0x7fe0000000000000,
]
I32_CONV = [0x7fffffff, 0x80000000, 0xffffffff, 16777216, 16777217, 16777219, 0x7fffffc0, 0x7fffff80, 0xffffff80, 0xfffffe80, 33554434, 33554438]
I64_CONV = [(1 << 53) + 1, (1 << 53) + 3, (1 << 63) - 1, 1 << 63, (1 << 64) - 1, (1 << 60) + (1 << 36) + 1, (1 << 60) + (1 << 36),
            (1 << 63) + (1 << 39) + 1, (1 << 63) + (1 << 39), 0xffffff7fffffffff, 0xffffff8000000000, 0x7fffffbfffffffff, 0x7fffffc000000000,
            0xfffffffffffffbff, 0xfffffffffffffc00, 0xfffffffffffff800, 0x7ffffffffffffdff, 0x7ffffffffffffe00,
            (1 << 24) + 1, (1 << 54) + 2, (1 << 54) + 6, 0x8000008000000001, 0x8000000000000401, 0x8000000000000400, 0x0020000020000001]


def float_pool(ft, rng, nrand):
    bits = 32 if ft == "f32" else 64
    base = list(F32_POOL if ft == "f32" else F64_POOL)
    for _ in range(nrand):
        base.append(rng.getrandbits(bits))                                     # any pattern (incl. NaNs, huge, tiny)
        x = rng.uniform(-1, 1) * 10 ** rng.randrange(-3, 22)                    # ordinary magnitudes
        base.append(f32b(x) if ft == "f32" else f64b(x))
        k = rng.randrange(0, 66)                                                # near 2^k (integer conversion edges)
        x = (2.0 ** k) * rng.choice([1, -1]) + rng.choice([-1.5, -1, -0.5, 0, 0.5, 1])
        try:
            base.append(f32b(x) if ft == "f32" else f64b(x))
        except OverflowError:
            pass
    seen, out = set(), []
    for v in base:
        if v not in seen:
            seen.add(v)
            out.append(v)
    return out


def is_nan(ft, b):
    if ft == "f32":
        return (b & 0x7f800000) == 0x7f800000 and (b & 0x007fffff) != 0
    return (b & 0x7ff0000000000000) == 0x7ff0000000000000 and (b & 0x000fffffffffffff) != 0


def is_canon_nan(ft, b):
    return (b & 0x7fffffff) == 0x7fc00000 if ft == "f32" else (b & 0x7fffffffffffffff) == 0x7ff8000000000000


def is_arith_nan(ft, b):
    return is_nan(ft, b) and bool(b & (0x00400000 if ft == "f32" else 0x0008000000000000))


def mem_addrs(rng, nrand):
    a = [0, 1, 2, 3, 4, 7, 8, 9, 255, 256, 4096, 32768]
    a += [PAGE - k for k in range(0, 10)] + [PAGE + 1, PAGE + 8, 2 * PAGE - 1, 2 * PAGE]
    a += [0x7fffffff, 0x80000000, 0xffff0000, 0xffffffff - 65536, 0xffffffff - 65535] + [0xffffffff - k for k in range(0, 9)]
    a += [rng.randrange(0, PAGE) for _ in range(nrand)] + [rng.getrandbits(32) for _ in range(nrand // 2)]
    return a


def ops(funcs, rng, tier):
    """-> list of protocol lines"""
    big = tier != "quick"
    nr = 40 if big else 6
    L = []
    p32, p64 = int_pool(32, rng, nr), int_pool(64, rng, nr)
    s32, s64 = int_pool(32, rng, 3, small=True), int_pool(64, rng, 3, small=True)
    pool = {"i": p32, "I": p64}
    fp = {"f32": float_pool("f32", rng, 60 if big else 8), "f64": float_pool("f64", rng, 60 if big else 8)}

    def hx(*vs):
        return " ".join("%x" % v for v in vs)

    def sub(xs, n):
        return xs if len(xs) <= n else xs[:n // 2] + rng.sample(xs[n // 2:], n - n // 2)

    for name, f in funcs.items():
        pt = f.sig.split(":")[0]
        if f.cls in ("ibin", "irel"):
            xs = pool[pt[0]]
            ys = xs
            if not big:
                xs, ys = sub(xs, 26), sub(ys, 26)
            for x in xs:
                for y in ys:
                    L.append("c %s %s %s" % (name, f.sig, hx(x, y)))
            for _ in range(400 if big else 40):
                b = 32 if pt[0] == "i" else 64
                L.append("c %s %s %s" % (name, f.sig, hx(rng.getrandbits(b), rng.getrandbits(b))))
        elif f.cls in ("iun", "ieqz", "icvt"):
            b = 32 if pt[0] == "i" else 64
            xs = list(pool[pt[0]]) + [1 << k for k in range(b)] + [((1 << b) - 1) >> k for k in range(b)] + [(((1 << b) - 1) << k) & ((1 << b) - 1) for k in range(b)]
            for x in xs:
                L.append("c %s %s %s" % (name, f.sig, hx(x)))
        elif f.cls in ("fbin", "frel"):
            ft = name[:3]
            xs = fp[ft]
            ys = xs
            if not big:
                xs, ys = sub(xs, 44), sub(ys, 44)
            for x in xs:
                for y in ys:
                    L.append("c %s %s %s" % (name, f.sig, hx(x, y)))
        elif f.cls in ("fun", "ftrunc", "fcvt") or name in ("i32.reinterpret_f32", "i64.reinterpret_f64"):
            ft = "f32" if pt == "i" else "f64"
            for x in fp[ft]:
                L.append("c %s %s %s" % (name, f.sig, hx(x)))
        elif f.cls == "fconv" or f.cls == "reint":
            xs = list(pool[pt]) + (I32_CONV if pt == "i" else I64_CONV)
            if f.cls == "reint":
                xs += fp["f32" if pt == "i" else "f64"]
            b = 32 if pt == "i" else 64
            xs += [rng.getrandbits(b) for _ in range(200 if big else 30)]
            xs += [(rng.getrandbits(25) << rng.randrange(0, b - 24)) & ((1 << b) - 1) | rng.getrandbits(1) for _ in range(200 if big else 30)]
            for x in xs:
                L.append("c %s %s %s" % (name, f.sig, hx(x)))
        elif f.cls == "load":
            for a in mem_addrs(rng, 20 if big else 4):
                L.append("m %s %s %s" % (name, f.sig, hx(a)))
        elif f.cls == "store":
            vs = (s32 if pt[1] == "i" else s64)
            for a in mem_addrs(rng, 20 if big else 4):
                for v in rng.sample(vs, 3) + [vs[4]]:
                    L.append("m %s %s %s" % (name, f.sig, hx(a, v)))
        elif f.cls == "msize":
            L.append("m %s %s" % (name, f.sig))
        elif f.cls in ("mfill", "mcopy"):
            pts = [0, 1, 5, 100, PAGE - 9, PAGE - 1, PAGE, PAGE + 1, 0x80000000, 0xffffffff]
            lens = [0, 1, 2, 8, 9, 300, PAGE - 1, PAGE, PAGE + 1, 0x7fffffff, 0xffffffff]
            for d in pts:
                for n in lens:
                    if f.cls == "mfill":
                        for v in (0, 0xab, 0x1ff):
                            L.append("m %s %s %s" % (name, f.sig, hx(d, v, n)))
                    else:
                        for s in (0, 3, 100, 104, PAGE - 8, PAGE, 0xffffffff):
                            L.append("m %s %s %s" % (name, f.sig, hx(d, s, n)))
            for _ in range(300 if big else 40):            # overlapping copies, both directions
                d, s = rng.randrange(0, 600), rng.randrange(0, 600)
                n = rng.randrange(0, 700)
                L.append("m memory.copy iii: %s" % hx(d, s, n) if f.cls == "mcopy" else "m memory.fill iii: %s" % hx(d, rng.getrandbits(9), n))
        elif f.cls in ("combo", "mcombo"):
            his = [0, 1, 0xffffffff, 0xdeadbeef, 0x80000000]
            los = [0, 1, 2, 31, 32, 33, 255, 65535, 65536, 65537, 0x7fffffff, 0x80000000, 0x80000001, 0xffff0000, 0xfffffffe, 0xffffffff]
            cand = {"i": los + [rng.getrandbits(32) for _ in range(3)],
                    "I": [(h << 32) | l for h in his for l in los] + [rng.getrandbits(64) for _ in range(4)]}
            per = {1: 400, 2: 16, 3: 6}[len(pt)] if not big else {1: 400, 2: 40, 3: 12}[len(pt)]
            cols = [sub(cand[c], per) for c in pt]
            tag = "c" if f.cls == "combo" else "m"

            def rec(k, acc):
                if k == len(cols):
                    L.append("%s %s %s %s" % (tag, name, f.sig, hx(*acc)))
                    return
                for v in cols[k]:
                    rec(k + 1, acc + [v])
            rec(0, [])
            for _ in range(200 if big else 30):
                L.append("%s %s %s %s" % (tag, name, f.sig, hx(*[rng.choice(cand[c]) if rng.random() < .7 else rng.getrandbits(32 if c == "i" else 64) for c in pt])))
        elif f.cls == "select":
            c = pt[0]
            vs = pool[c][:12]
            if name.endswith(("f32", "f64")):
                vs = fp["f32" if c == "i" else "f64"][14:24] + vs[:4]
            for x in vs:
                for y in vs[:6]:
                    for cnd in (0, 1, 2, 0x80000000, 0xffffffff, 0x100):
                        L.append("c %s %s %s" % (name, f.sig, hx(x, y, cnd)))
        elif f.cls == "brtable":
            for i in list(range(0, 9)) + [0x7fffffff, 0x80000000, 0xfffffffe, 0xffffffff, 0x100, 0x10000, 0x10003]:
                L.append("c %s %s %s" % (name, f.sig, hx(i)))
        elif f.cls == "callind":
            for i in list(range(0, 10)) + [0x7fffffff, 0x80000000, 0xffffffff, 0x10001]:
                for x in (0, 5, 0x7fffffff, 0xffffffff):
                    L.append("c %s %s %s" % (name, f.sig, hx(i, x)))
        elif f.cls == "unreachable":
            L.append("c %s %s" % (name, f.sig))
        elif f.cls == "rec":
            for d in (0, 1, 10, 1000):
                L.append("c %s %s %s" % (name, f.sig, hx(d)))
            if big:
                L.append("c %s %s %s" % (name, f.sig, hx(0xffffffff)))      # exhausts the call stack (10-50 s on the compiler engine)
    # pending-comparison stream: every comparison outcome x (quick: the first, thorough: every) K operand set
    late = []
    for name, f in funcs.items():
        if not f.cls.startswith(("pend", "mpend")):
            continue
        ccases, kcases = PEND_ARGS[name]
        tag = "m" if f.cls.startswith("mpend") else "c"
        for ci, cc in enumerate(ccases):
            ks = kcases if big else [kcases[ci % len(kcases)]]
            for kc in ks:
                (late if f.cls.endswith("-late") else L).append("%s %s %s %s" % (tag, name, f.sig, hx(*(tuple(cc) + tuple(kc)))))
    # memory.grow sequences (each on a fresh instance)
    seqs = [[0], [1], [3], [4], [1, 1, 1, 1], [2, 2], [0, 3, 0, 1], [65535], [65536], [0x7fffffff], [0xffffffff], [1, 0xffffffff, 2, 1],
            [3, 0, 1], [2, 1, 1]]
    for _ in range(20 if big else 4):
        seqs.append([rng.choice([0, 1, 2, 3, 4, 5, 65536, 0xffffffff]) for _ in range(rng.randrange(1, 5))])
    for s in seqs:
        L.append("g " + hx(*s))
    return L + late        # `late` lines change the size of the shared instance's memory: nothing that needs one page may follow


if __name__ == "__main__":
    import sys
    wat, fs = build()
    sys.stdout.write(wat)
    sys.stderr.write("%d functions\n" % len(fs))
