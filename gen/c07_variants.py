"""C07: redundant / untidy renderings of a program (inputs for the formatter).

`messy(rng, text, lang)` rewrites a cleanly rendered program (gen/c09_render.py) line by line without
changing its token sequence (except for comments): comments before / after / inside constructs, runs
of blank lines, trailing blanks, broken indentation, CRLF.  `import_block` makes an unsorted import
block with duplicates, comments and blank-line separated runs.  Both spellings of a struct
declaration, optional `var`, parenthesised conditions and `;` come from Render(redundant=...).
"""
import re

PKGS = ["errors", "strconv", "strings", "bytes", "math", "os", "io", "unicode/utf8", "math/bits", "sort"]


def import_block(rng, lang):
    """returns (text, has_alias); .wz has no parenthesised form: one `引入` per line.
    A block has EITHER aliased specs OR comments: an aliased spec next to a comment inside a
    parenthesised block is the known ImportSpec.Pos/End defect (covered by fixed inputs of the check)."""
    n = rng.randrange(1, 7)
    specs = []
    aliases = rng.random() < 0.5
    for _ in range(n):
        p = rng.choice(PKGS)
        name = rng.choice(["", "", "_", "x%d" % rng.randrange(3)]) if aliases else ""
        cm = "" if aliases else rng.choice(["", "", " // i%d" % rng.randrange(9)])
        specs.append((p, name, cm))
    if rng.random() < 0.4 and specs:
        specs.append(rng.choice(specs))                       # exact duplicate
    if rng.random() < 0.3 and specs and not aliases:
        p, name, cm = rng.choice(specs)
        specs.append((p, name, "" if cm else " // dup"))     # duplicate differing only in the comment
    rng.shuffle(specs)
    lines = []
    if lang == "wz":
        for p, name, cm in specs:
            lines.append('引入 "%s"%s%s' % (p, (" => " + name) if name else "", cm.replace("//", "注:") if rng.random() < 0.5 else cm))
            if rng.random() < 0.2:
                lines.append("")
        return "\n".join(lines) + "\n\n", aliases
    form = rng.random()
    if form < 0.25:
        for p, name, cm in specs:
            lines.append('import "%s"%s%s' % (p, (" => " + name) if name else "", cm))
        return "\n".join(lines) + "\n\n", aliases
    lines.append("import (")
    for i, (p, name, cm) in enumerate(specs):
        if i and rng.random() < 0.2:
            lines.append("")                                  # new run
        if rng.random() < 0.15 and not aliases:
            lines.append("\t// lead %d" % i)
        lines.append('\t"%s"%s%s' % (p, (" => " + name) if name else "", cm))
    lines.append(")")
    if form > 0.85:
        lines.append('import "io"')
        lines.append("import (")
        lines.append('\t"sort"')
        lines.append('\t"bytes"')
        lines.append(")")
    return "\n".join(lines) + "\n\n", aliases


BLOCK_SHAPES = 9


def block_comment(rng, label, ind, shape=None, col1=None):
    """a multi-line general comment placed on lines of its own before a statement indented by `ind`:
    `/*` alone on its first line or followed by text, continuation lines un-indented / indented like the
    code / deeper / `*`-prefixed, closing `*/` on its own line or not; the whole comment starts either in
    column 1 or at the indentation of the code."""
    shape = rng.randrange(BLOCK_SHAPES) if shape is None else shape
    col1 = (rng.random() < 0.4) if col1 is None else col1
    start = "" if col1 else ind
    if shape == 0:
        lines = ["/*", label + " text", "second line", "*/"]                       # text in column 1
    elif shape == 1:
        lines = ["/* " + label, "more", "*/"]
    elif shape == 2:
        lines = ["/*", ind + label + " text", ind + "second", ind + "*/"]           # indented like the code
    elif shape == 3:
        lines = ["/*", ind + "\t" + label + " deeper", ind + "\t\tand deeper", ind + "*/"]
    elif shape == 4:
        lines = ["/*", " * " + label + " starred", " * second", " */"]
    elif shape == 5:
        lines = ["/* " + label, ind + " * starred indented", ind + " */"]
    elif shape == 6:
        lines = ["/*", "", label + " after an empty line", "", "*/"]
    elif shape == 7:
        lines = ["/* " + label, "   more */"]
    else:
        lines = ["/*", "    " + label + " spaces", "  two", "*/"]
    return start + lines[0] + "".join("\n" + l for l in lines[1:])


def plan_edits(rng, text, lang, level=0.25, protect=0):
    """a list of independent edits of the cleanly rendered `text`; each edit is a dict with
    'id', 'cat' ('comment' | 'layout') and what `apply_edits` needs.  Comment texts are unique (cN)."""
    cnt = [0]

    def cm():
        cnt[0] += 1
        return "c%d" % cnt[0]

    def line_comment():
        if lang == "wz" and rng.random() < 0.6:
            return "注: " + cm()
        return "// " + cm()
    edits = []

    def add(cat, kind, **kw):
        if cat == "comment" and kw.get("line", protect) < protect:
            return          # no comments inside the first `protect` lines (an import block with aliases)
        kw.update(id=len(edits), cat=cat, kind=kind)
        edits.append(kw)
    lines = text.split("\n")
    if lines and lines[-1] == "":
        lines.pop()
    for i, ln in enumerate(lines):
        ind = re.match(r"^\t*", ln).group(0)
        body = ln[len(ind):]
        if body and rng.random() < level * 0.6:
            k = rng.random()
            if k < 0.5:
                add("comment", "before", line=i, text=ind + line_comment())
            elif k < 0.75:
                add("comment", "before", line=i, text=ind + "/* " + cm() + " */")
            elif k < 0.9:
                shape, col1 = rng.randrange(BLOCK_SHAPES), rng.random() < 0.4
                add("comment", "before", line=i, text=block_comment(rng, cm(), ind, shape, col1),
                    mlc="shape%d-%s" % (shape, "col1" if col1 or not ind else "ind"))
            else:
                add("comment", "before", line=i, text=line_comment())
        if rng.random() < level * 0.4:
            add("layout", "blank", line=i, n=rng.randrange(1, 4))
        if body and '"' not in body and "'" not in body and rng.random() < level * 0.3 and " " in body:
            pos = [m.start() for m in re.finditer(" ", body)]
            add("comment", "inline", line=i, pos=rng.choice(pos), text=" /* " + cm() + " */")
        if body and rng.random() < level * 0.8:
            lc = line_comment()
            # `完毕注: c` would be ONE identifier: the Chinese comment marker needs a blank before it
            add("comment", "trailing", line=i, text=" " * rng.randrange(1 if lc.startswith("注") else 0, 3) + lc)
        k = rng.random()
        if k < level * 0.3:
            add("layout", "indent", line=i, indent="    " * len(ind))
        elif k < level * 0.45:
            add("layout", "indent", line=i, indent="")
        elif k < level * 0.55:
            add("layout", "indent", line=i, indent=ind + "\t")
        if rng.random() < level * 0.4:
            add("layout", "trail", line=i, n=rng.randrange(1, 4))
    if rng.random() < level:
        add("comment", "eof", text=line_comment())
    add("layout", "eofnl", n=(rng.randrange(1, 4 if rng.random() < level else 2) if rng.random() < 0.8 else 0))
    if rng.random() < level * 0.6:
        add("layout", "crlf")
    return edits


def apply_edits(text, edits, enabled=None):
    """the text with the edits whose id is in `enabled` (default: all)"""
    lines = text.split("\n")
    if lines and lines[-1] == "":
        lines.pop()
    by_line = {}
    glob = []
    for e in edits:
        if enabled is not None and e["id"] not in enabled:
            continue
        if "line" in e:
            by_line.setdefault(e["line"], []).append(e)
        else:
            glob.append(e)
    out = []
    for i, ln in enumerate(lines):
        ind = re.match(r"^\t*", ln).group(0)
        body = ln[len(ind):]
        es = by_line.get(i, [])
        for e in es:
            if e["kind"] == "before":
                out.append(e["text"])
        for e in es:
            if e["kind"] == "blank":
                out.extend([""] * e["n"])
        for e in es:
            if e["kind"] == "inline":
                body = body[:e["pos"]] + e["text"] + body[e["pos"]:]
        for e in es:
            if e["kind"] == "trailing":
                body = body + e["text"]
        for e in es:
            if e["kind"] == "indent":
                ind = e["indent"]
        for e in es:
            if e["kind"] == "trail":
                body = body + " " * e["n"]
        out.append(ind + body if body else "")
    for e in glob:
        if e["kind"] == "eof":
            out.append(e["text"])
    res = "\n".join(out)
    nl = 1
    for e in glob:
        if e["kind"] == "eofnl":
            nl = e["n"]
    res += "\n" * nl
    if any(e["kind"] == "crlf" for e in glob):
        res = res.replace("\n", "\r\n")
    return res


def messy(rng, text, lang, level=0.25):
    return apply_edits(text, plan_edits(rng, text, lang, level))


def struct_spelling(rng, text):
    """`type T :struct {` -> `type T struct {` at random (.wa only)"""
    return re.sub(r"^type (\w+) :(struct|interface) \{", lambda m: ("type %s %s {" % (m.group(1), m.group(2))) if rng.random() < 0.5 else m.group(0),
                  text, flags=re.M)
