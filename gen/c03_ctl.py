"""C03: generator of structured control-flow WAT functions (owner: C03 check).

Random functions over i32/i64 with nested block / loop / if scopes (no result, one result, two results), values PARKED on the
operand stack while nested scopes are entered, and exits at every depth: `br` carrying 0..2 results to the current or any outer
scope, `br_if`, `br_table`, `return`, plus locals, bounded loops and calls to small helper functions (one and two results).

The generator tracks the operand stack statically the way wat2c does, and stays inside the forms the UNCHANGED translator accepts
(each limit below is an assert / panic in wat2c_func.go, recorded as a C03 finding where it rejects valid WebAssembly):
  * `br` with results: the current scope holds exactly the carried values (assert currentBase+len(results) >= stk.Len());
  * `br_if`: only to a scope without results, and only when the stack (without the condition) is at that scope's base;
  * `return`: only when nothing but the function's results is on the whole stack;
  * after an unconditional exit the rest of the scope is dead: the scope's result values are re-pushed as constants, because wat2c
    has no stack-polymorphic typing of unreachable code;
  * `br` to a loop only when the loop has no result types (wat2c treats a loop's results as branch operands).
  * `if … else` with results of DIFFERENT types is avoided (wat2c pops the then-branch results in the wrong order and panics).
Two forms are optional features, selected by letters in `mode`: "B" allows `br_table` WITH results, "C" allows a `br` that carries
two results down over FEWER parked values than it carries (the register copies overlap).  While the tree mistranslates one of them
(findings gen-ctl:br_table-result / gen-ctl:br-multi-result-overlap listed in known_findings.json) the check generates it in a
separate stream, so that the known finding cannot mask anything else; once the finding is gone the feature is part of the main
stream (mode "ABC").

gen_function(rng, name, mode) -> Fn(name, params, result, text, tags);  module_text(fns) adds the helper functions.
"""
import collections

Fn = collections.namedtuple("Fn", "name params result text tags mode")

HELPERS = """
  (func $h_add (param $a i32) (param $b i32) (result i32)
    local.get $a local.get $b i32.add i32.const 3 i32.xor)
  (func $h_pair (param $a i32) (result i32 i32)
    local.get $a i32.const 1 i32.add
    local.get $a i32.const 5 i32.mul
    return)
  (func $h_mix (param $a i64) (param $b i32) (result i64 i32)
    local.get $a i64.const 7 i64.add
    local.get $b i32.const 2 i32.shl)
  (func $h_sel (param $c i32) (param $x i64) (param $y i64) (result i64)
    local.get $c
    if (result i64)
      local.get $x
    else
      local.get $y
    end)
"""
RESULT_SHAPES = [[], [], ["i32"], ["i32"], ["i64"], ["i32", "i64"], ["i32", "i32"], ["i64", "i32"]]
SIGS = [["i32"], ["i32", "i32"], ["i32", "i64"], ["i64"], ["i64", "i32"]]
NTEMP = 3


class G:
    def __init__(self, rng, name, mode):
        self.rng, self.name, self.mode = rng, name, mode
        self.params = list(rng.choice(SIGS))
        self.result = rng.choice(["i32", "i32", "i64"])
        self.lines, self.ind = [], 2
        self.stack, self.scopes = [], []
        self.nlabel, self.nloop = 0, 0
        self.tags = set()
        self.budget = rng.randint(14, 40)

    # ---- emission helpers
    def emit(self, s):
        self.lines.append("  " * self.ind + s)

    def push(self, t):
        self.stack.append(t)

    def pop(self, t=None):
        x = self.stack.pop()
        assert t is None or x == t, (x, t)
        return x

    def locals_of(self, t):
        ls = ["$p%d" % i for i, p in enumerate(self.params) if p == t]
        ls += ["$%s%d" % ("t" if t == "i32" else "u", k) for k in range(NTEMP)]
        return ls

    def value(self, t, depth=0):
        """emit code that pushes ONE value of type t"""
        r = self.rng
        k = r.random()
        if depth >= 2 or k < 0.25:
            if r.random() < 0.45:
                self.emit("%s.const %d" % (t, r.choice([0, 1, 2, 3, 7, 10, 42, 77, 100, 255, -1, -5, 1000, 65537])))
            else:
                self.emit("local.get %s" % r.choice(self.locals_of(t)))
            self.push(t)
            return
        if k < 0.70:
            op = r.choice(["add", "sub", "xor", "and", "or", "mul"])
            self.value(t, depth + 1)
            self.value(t, depth + 1)
            self.emit("%s.%s" % (t, op))
            self.pop(t); self.pop(t); self.push(t)
            return
        if t == "i32" and k < 0.80:
            s = r.choice(["i32", "i64"])
            self.value(s, depth + 1)
            self.value(s, depth + 1)
            self.emit("%s.%s" % (s, r.choice(["eq", "ne", "lt_s", "lt_u", "gt_s", "ge_u", "le_s"])))
            self.pop(s); self.pop(s); self.push("i32")
            return
        if t == "i32" and k < 0.86:
            self.value("i64", depth + 1)
            self.emit(r.choice(["i32.wrap_i64", "i64.eqz"]))
            self.pop("i64"); self.push("i32")
            return
        if t == "i64" and k < 0.82:
            self.value("i32", depth + 1)
            self.emit(r.choice(["i64.extend_i32_s", "i64.extend_i32_u"]))
            self.pop("i32"); self.push("i64")
            return
        if t == "i32" and k < 0.93:
            self.value("i32", depth + 1)
            self.value("i32", depth + 1)
            self.emit("call $h_add")
            self.pop("i32"); self.pop("i32"); self.push("i32")
            self.tags.add("call")
            return
        if t == "i64" and k < 0.92:
            self.value("i32", depth + 1)
            self.value("i64", depth + 1)
            self.value("i64", depth + 1)
            self.emit("call $h_sel")
            self.pop("i64"); self.pop("i64"); self.pop("i32"); self.push("i64")
            self.tags.add("call")
            return
        self.value(t, 2)

    def cond(self):
        """an i32 condition that depends on the arguments"""
        r = self.rng
        p = r.randrange(len(self.params))
        t = self.params[p]
        self.emit("local.get $p%d" % p)
        self.emit("%s.const %d" % (t, r.choice([0, 1, 2, 3, 5])))
        self.emit("%s.%s" % (t, r.choice(["eq", "ne", "gt_s", "lt_u", "ge_s", "and"]) if t == "i32" else r.choice(["eq", "ne", "gt_s", "lt_u", "ge_s"])))
        self.push("i32")

    def label(self, kind):
        self.nlabel += 1
        return "$%s%d" % (kind, self.nlabel)

    def results_txt(self, res):
        return (" (result %s)" % " ".join(res)) if res else ""

    # ---- scopes
    def cur_base(self):
        return self.scopes[-1]["base"] if self.scopes else 0

    def cur_results(self):
        return self.scopes[-1]["results"] if self.scopes else [self.result]

    def in_scope(self):
        return self.stack[self.cur_base():]

    def sink(self):
        """consume the top value of the current scope into a temporary (keeps the data flow alive)"""
        t = self.stack[-1]
        tmp = "$%s%d" % ("t" if t == "i32" else "u", self.rng.randrange(NTEMP))
        if self.rng.random() < 0.5:
            self.emit("local.get %s" % tmp)
            self.emit("%s.%s" % (t, self.rng.choice(["add", "xor"])))
        self.emit("local.set %s" % tmp)
        self.pop()

    def settle(self, want):
        """make the current scope's own stack exactly `want`"""
        while len(self.in_scope()) > 0 and self.in_scope() != want:
            ins = self.in_scope()
            if len(ins) >= 2 and ins[-1] == ins[-2] and self.rng.random() < 0.6:
                t = self.pop(); self.pop()
                self.emit("%s.%s" % (t, self.rng.choice(["add", "xor", "sub"])))
                self.push(t)
            else:
                self.sink()
        if self.in_scope() != want:
            for t in want:
                self.value(t)

    def dead_fill(self):
        """after an unconditional exit: wat2c has dropped the scope's stack; re-push its results as constants"""
        del self.stack[self.cur_base():]
        for t in self.cur_results():
            self.emit("%s.const 0" % t)
            self.push(t)

    # ---- exits
    def targets(self):
        """scopes a `br` may name, innermost first"""
        return list(reversed(self.scopes))

    def overlaps(self, sc):
        """would a br to sc (from the current scope, its own stack emptied) move n >= 2 results down by less than n registers?"""
        n = len(sc["results"])
        d = self.cur_base() - sc["base"]
        return n >= 2 and 0 < d < n

    def exit_br(self, sc):
        """br to scope sc carrying its results; current scope stack must be empty before the results are pushed"""
        while self.in_scope():
            self.sink()
        res = [] if sc["kind"] == "loop" else sc["results"]
        if self.overlaps(sc):
            self.tags.add("br-multi-result-overlap")
        for t in res:
            self.value(t)
        if res:
            self.tags.add("br-result")
            first = len(self.stack) - len(res)
            if first > sc["base"]:
                self.tags.add("br-result-copy")
                if self.cur_base() > sc["base"]:
                    self.tags.add("br-result-parked")       # values parked below the carried ones, in a scope between
        if sc is not self.scopes[-1]:
            self.tags.add("br-outer")
        self.emit("br %s" % sc["label"])

    def exit_return(self):
        self.value(self.result)
        self.emit("return")
        self.tags.add("return-nested" if self.scopes else "return")

    def exit_br_table(self, with_results):
        cands = [s for s in self.scopes if s["kind"] != "loop"]
        if with_results:
            shapes = [tuple(s["results"]) for s in cands if s["results"]]
            if not shapes:
                return False
            shape = self.rng.choice(shapes)
            cands = [s for s in cands if tuple(s["results"]) == shape]
        else:
            cands = [s for s in cands if not s["results"]]
        if not cands:
            return False
        while self.in_scope():
            self.sink()
        n = self.rng.randint(2, 4)
        tl = [self.rng.choice(cands) for _ in range(n)]
        res = list(tl[0]["results"])
        for t in res:
            self.value(t)
        p = [i for i, t in enumerate(self.params) if t == "i32"]
        if p:
            self.emit("local.get $p%d" % self.rng.choice(p))
        else:
            self.emit("local.get $p0")
            self.emit("i32.wrap_i64")
        self.emit("i32.const 3")
        self.emit("i32.and")
        self.emit("br_table %s" % " ".join(s["label"] for s in tl))
        self.tags.add("br_table-result" if res else "br_table")
        return True

    def unconditional_exit(self):
        """emit an exit the generator may use here; returns False if none is possible"""
        r = self.rng
        opts = []
        if self.scopes:
            opts += ["br"] * 4
            if any(not s["results"] and s["kind"] != "loop" for s in self.scopes):
                opts.append("br_table")
            if "B" in self.mode:
                opts += ["br_table_res"] * (4 if self.mode == "B" else 1)
        if len(self.stack) - len(self.in_scope()) == 0:
            opts.append("return")
        if not opts:
            return False
        o = r.choice(opts)
        if o == "br":
            ts = [s for s in self.targets() if s["kind"] != "loop"]        # an unconditional br to a loop would not terminate
            if "C" not in self.mode:
                ts = [s for s in ts if not self.overlaps(s)]
            elif self.mode == "C" and any(self.overlaps(s) for s in ts) and r.random() < 0.7:
                ts = [s for s in ts if self.overlaps(s)]
            if not ts:
                return False
            self.exit_br(r.choice(ts))
        elif o == "return":
            while self.in_scope():
                self.sink()
            self.exit_return()
        else:
            if not self.exit_br_table(o == "br_table_res"):
                return False
        self.dead_fill()
        return True

    def guarded_exit(self):
        """cond; if $g  <exit>  end      — the exit leaves from inside the guard scope"""
        self.cond()
        self.pop("i32")
        lab = self.label("g")
        self.emit("if %s" % lab)
        self.scopes.append({"label": lab, "results": [], "base": len(self.stack), "kind": "if"})
        self.ind += 1
        if self.rng.random() < 0.3:
            self.stmt_set()
        if not self.unconditional_exit():
            self.stmt_set()
        self.ind -= 1
        self.scopes.pop()
        self.emit("end")

    # ---- statements
    def stmt_set(self):
        t = self.rng.choice(["i32", "i32", "i64"])
        self.value(t)
        self.sink()

    def stmt_park(self):
        self.value(self.rng.choice(["i32", "i32", "i64"]))
        self.tags.add("park")

    def stmt_call_multi(self):
        if self.rng.random() < 0.5:
            self.value("i32")
            self.emit("call $h_pair")
            self.pop("i32"); self.push("i32"); self.push("i32")
        else:
            self.value("i64")
            self.value("i32")
            self.emit("call $h_mix")
            self.pop("i32"); self.pop("i64"); self.push("i64"); self.push("i32")
        self.tags.add("call-multi")

    def stmt_br_if(self):
        cands = [s for s in self.scopes if not s["results"] and s["base"] == len(self.stack) and s["kind"] != "loop"]
        if not cands:
            return False
        self.cond()
        self.emit("br_if %s" % self.rng.choice(cands)["label"])
        self.pop("i32")
        self.tags.add("br_if")
        return True

    def nested(self, depth):
        r = self.rng
        kind = r.choice(["block", "block", "if", "if", "loop"])
        res = list(r.choice(RESULT_SHAPES))
        if kind == "if" and len(set(res)) > 1:
            res = [res[0], res[0]]
        lab = self.label(kind[0])
        if kind == "if":
            self.cond()
            self.pop("i32")
        counter = None
        if kind == "loop" and not res:
            self.nloop += 1
            counter = "$c%d" % self.nloop
            self.emit("i32.const 0")
            self.emit("local.set %s" % counter)
        self.emit("%s %s%s" % (kind, lab, self.results_txt(res)))
        sc = {"label": lab, "results": res, "base": len(self.stack), "kind": kind}
        self.scopes.append(sc)
        self.ind += 1
        self.body(depth + 1)
        if counter:      # bounded back edge; the loop's own stack is empty here
            self.settle([])
            self.emit("local.get %s" % counter)
            self.emit("i32.const 1")
            self.emit("i32.add")
            self.emit("local.tee %s" % counter)
            self.emit("i32.const %d" % r.randint(2, 4))
            self.emit("i32.lt_u")
            self.emit("br_if %s" % lab)
            self.tags.add("loop")
        else:
            self.settle(res)
        if kind == "if" and (res or r.random() < 0.5):
            del self.stack[sc["base"]:]
            self.ind -= 1
            self.emit("else")
            self.ind += 1
            self.body(depth + 1)
            self.settle(res)
        self.ind -= 1
        self.scopes.pop()
        self.emit("end")
        del self.stack[sc["base"]:]
        for t in res:
            self.push(t)
        if len(res) > 1:
            self.tags.add("multi-result-scope")

    def body(self, depth):
        r = self.rng
        n = r.randint(1, 4)
        for _ in range(n):
            if self.budget <= 0:
                break
            self.budget -= 1
            k = r.random()
            if k < 0.20:
                self.stmt_set()
            elif k < 0.38 and len(self.in_scope()) < 3:
                self.stmt_park()
            elif k < 0.44 and len(self.in_scope()) < 2:
                self.stmt_call_multi()
            elif k < 0.68 and depth < 4:
                self.nested(depth)
            elif k < 0.86 and self.scopes:
                self.guarded_exit()
            elif k < 0.92:
                self.stmt_br_if()
            elif k < 0.96 and self.scopes and depth > 0:
                if self.unconditional_exit():
                    return              # the rest of this scope is dead
            elif self.in_scope():
                self.sink()

    def function(self):
        self.ind = 2
        self.body(0)
        # function end: fold what is on the stack and mix every temporary in, so that a stale value anywhere shows in the result
        self.settle([self.result])
        t = self.result
        for k in range(NTEMP):
            for s, pre in (("i32", "t"), ("i64", "u")):
                self.emit("local.get $%s%d" % (pre, k))
                if s != t:
                    self.emit("i32.wrap_i64" if t == "i32" else "i64.extend_i32_u")
                self.emit("%s.const %d" % (t, 31 + 2 * k))
                self.emit("%s.mul" % t)
                self.emit("%s.add" % t)
        head = "  (func $f_%s (export \"f_%s\")%s (result %s)" % (
            self.name, self.name, "".join(" (param $p%d %s)" % (i, p) for i, p in enumerate(self.params)), self.result)
        decl = ["    (local $t%d i32) (local $u%d i64)" % (k, k) for k in range(NTEMP)]
        decl += ["    (local $c%d i32)" % k for k in range(1, self.nloop + 1)]
        return "\n".join([head] + decl + self.lines) + ")\n"


def gen_function(rng, name, mode="A"):
    g = G(rng, name, mode)
    text = g.function()
    return Fn(name, g.params, g.result, text, frozenset(g.tags), mode)


def module_text(fns):
    return "(module\n" + HELPERS + "\n" + "\n".join(f.text for f in fns) + ")\n"


ARGS = {"i32": [0, 1, 2, 3, 5, 0xffffffff], "i64": [0, 1, 2, 5, 0xffffffffffffffff, 1 << 32]}


def arg_tuples(fn, rng, n):
    out = [tuple(ARGS[p][0] for p in fn.params), tuple(ARGS[p][1] for p in fn.params)]
    while len(out) < n:
        t = tuple(rng.choice(ARGS[p]) for p in fn.params)
        if t not in out:
            out.append(t)
    return out


def risk_key(fn):
    """root-cause label of a diverging generated function: its most specific exit feature"""
    if fn.mode == "B":
        return "br_table-result"
    if fn.mode == "C":
        return "br-multi-result-overlap"
    for t in ("br_table-result", "br-multi-result-overlap"):
        if t in fn.tags:
            return t
    for t in ("br-result-parked", "br-result-copy", "br-result", "br_table", "return-nested", "br_if", "multi-result-scope", "call-multi", "loop"):
        if t in fn.tags:
            return t
    return "plain"
