#!/usr/bin/env python3
"""gen/matrix3.py -- control-flow shapes for C16 (every accepted program compiles to a VALID module).

The back end turns the SSA control-flow graph into one `loop $BlockDisp` with a block selector plus
forward `br`s (compile_func.go genJumpID / genIf / genBlock).  Which of the two forms a jump takes depends
on the ORDER of source and destination block, so the shapes below enumerate: a block that is its own
successor, empty bodies, back edges from every position (body end, both arms of an if, continue at the top,
nested loop exits), labelled break/continue to every enclosing level, switch/break interplay, short-circuit
conditions as loop/if conditions, early returns, and range loops over every rangeable kind with and
without variables.  Each shape is one small program; all of them are valid Go as well."""

PRE = '''package main

var cnt int32

func cond() bool {
	cnt++
	return cnt < 10
}

func odd(i int32) bool { return i%2 == 1 }

'''


def prog(body, extra=""):
    return PRE + extra + "func work(n int32) int32 {\n\tvar s int32\n" + body + "\treturn s\n}\n\nfunc main() {\n\tprintln(work(5))\n}\n"


SHAPES = {
    # a block that jumps to itself
    "self-loop-call-cond": "\tfor cond() {\n\t}\n",
    "self-loop-cmp-cond": "\tfor cnt < n {\n\t\tcnt++\n\t}\n",
    "self-loop-postonly": "\tfor i := int32(0); i < n; i++ {\n\t}\n",
    "self-loop-and": "\tfor cond() && cnt < n {\n\t}\n",
    "self-loop-or": "\tfor cond() || cnt < n {\n\t}\n",
    "self-loop-not": "\tfor !cond() {\n\t}\n",
    "forever-empty-after-return": "\tif n > 100 {\n\t\tfor {\n\t\t}\n\t}\n",
    "forever-break-first": "\tfor {\n\t\tbreak\n\t}\n",
    "forever-if-break": "\tfor {\n\t\tif !cond() {\n\t\t\tbreak\n\t\t}\n\t}\n",
    "forever-if-continue-break": "\tfor {\n\t\tif cond() {\n\t\t\tcontinue\n\t\t}\n\t\tbreak\n\t}\n",
    "forever-return-inside": "\tfor {\n\t\ts++\n\t\tif s > n {\n\t\t\treturn s\n\t\t}\n\t}\n",
    # back edges from different positions
    "continue-at-top": "\tfor i := int32(0); i < n; i++ {\n\t\tcontinue\n\t}\n",
    "continue-in-both-arms": "\tfor i := int32(0); i < n; i++ {\n\t\tif odd(i) {\n\t\t\ts++\n\t\t\tcontinue\n\t\t} else {\n\t\t\ts += 2\n\t\t\tcontinue\n\t\t}\n\t}\n",
    "if-else-chain-in-loop": "\tfor i := int32(0); i < n; i++ {\n\t\tif i == 0 {\n\t\t\ts++\n\t\t} else if i == 1 {\n\t\t\ts += 2\n\t\t} else if odd(i) {\n\t\t} else {\n\t\t\ts += 3\n\t\t}\n\t}\n",
    "empty-if-in-loop": "\tfor i := int32(0); i < n; i++ {\n\t\tif odd(i) {\n\t\t}\n\t}\n",
    "empty-if-else-in-loop": "\tfor i := int32(0); i < n; i++ {\n\t\tif odd(i) {\n\t\t} else {\n\t\t}\n\t}\n",
    "loop-no-cond-with-post": "\tfor i := int32(0); ; i++ {\n\t\tif i >= n {\n\t\t\tbreak\n\t\t}\n\t\ts += i\n\t}\n",
    "loop-cond-only-nested-empty": "\tfor cond() {\n\t\tfor cond() {\n\t\t}\n\t}\n",
    "nested-empty-3": "\tfor i := int32(0); i < n; i++ {\n\t\tfor j := int32(0); j < n; j++ {\n\t\t\tfor k := int32(0); k < n; k++ {\n\t\t\t}\n\t\t}\n\t}\n",
    "two-loops-in-sequence": "\tfor cond() {\n\t}\n\tfor cond() {\n\t}\n\tfor i := int32(0); i < n; i++ {\n\t\ts++\n\t}\n",
    "loop-in-if-in-loop": "\tfor i := int32(0); i < n; i++ {\n\t\tif odd(i) {\n\t\t\tfor cond() {\n\t\t\t}\n\t\t} else {\n\t\t\tfor j := i; j < n; j++ {\n\t\t\t\ts++\n\t\t\t}\n\t\t}\n\t}\n",
    # labels
    "labelled-break-outer": "outer:\n\tfor i := int32(0); i < n; i++ {\n\t\tfor j := int32(0); j < n; j++ {\n\t\t\tif i*j > 6 {\n\t\t\t\tbreak outer\n\t\t\t}\n\t\t\ts++\n\t\t}\n\t}\n",
    "labelled-continue-outer": "outer:\n\tfor i := int32(0); i < n; i++ {\n\t\tfor j := int32(0); j < n; j++ {\n\t\t\tif j > i {\n\t\t\t\tcontinue outer\n\t\t\t}\n\t\t\ts++\n\t\t}\n\t}\n",
    "labelled-3-levels": "a:\n\tfor i := int32(0); i < n; i++ {\n\tb:\n\t\tfor j := int32(0); j < n; j++ {\n\t\t\tfor k := int32(0); k < n; k++ {\n\t\t\t\tif k == 1 {\n\t\t\t\t\tcontinue b\n\t\t\t\t}\n\t\t\t\tif j == 2 {\n\t\t\t\t\tcontinue a\n\t\t\t\t}\n\t\t\t\tif i == 3 {\n\t\t\t\t\tbreak a\n\t\t\t\t}\n\t\t\t\tif i == 4 {\n\t\t\t\t\tbreak b\n\t\t\t\t}\n\t\t\t\ts++\n\t\t\t}\n\t\t}\n\t}\n",
    "labelled-continue-self": "l:\n\tfor cond() {\n\t\tcontinue l\n\t}\n",
    "labelled-break-from-switch": "l:\n\tfor i := int32(0); i < n; i++ {\n\t\tswitch i {\n\t\tcase 1:\n\t\t\tcontinue l\n\t\tcase 3:\n\t\t\tbreak l\n\t\tcase 2:\n\t\t\tbreak\n\t\tdefault:\n\t\t\ts++\n\t\t}\n\t}\n",
    # switch
    "switch-empty": "\tswitch n {\n\t}\n",
    "switch-default-only": "\tswitch n {\n\tdefault:\n\t\ts = 1\n\t}\n",
    "switch-empty-cases": "\tswitch n {\n\tcase 1:\n\tcase 2, 3:\n\tdefault:\n\t}\n",
    "switch-no-tag": "\tswitch {\n\tcase n > 3:\n\t\ts = 1\n\tcase n > 1 && odd(n):\n\t\ts = 2\n\tcase cond() || odd(n):\n\t\ts = 3\n\t}\n",
    "switch-init": "\tswitch m := n * 2; m {\n\tcase 10:\n\t\ts = m\n\t}\n",
    "switch-in-loop-return": "\tfor i := int32(0); i < n; i++ {\n\t\tswitch {\n\t\tcase i == 3:\n\t\t\treturn s\n\t\tcase odd(i):\n\t\t\tcontinue\n\t\t}\n\t\ts++\n\t}\n",
    "switch-nested": "\tswitch n {\n\tcase 5:\n\t\tswitch {\n\t\tcase odd(n):\n\t\t\ts = 1\n\t\tdefault:\n\t\t\ts = 2\n\t\t}\n\tdefault:\n\t\ts = 3\n\t}\n",
    "switch-default-first": "\tswitch n {\n\tdefault:\n\t\ts = 9\n\tcase 1:\n\t\ts = 1\n\tcase 5:\n\t\ts = 5\n\t}\n",
    # short circuit
    "cond-chain-if": "\tif n > 0 && (odd(n) || cond()) && !(n > 9 || cond()) {\n\t\ts = 1\n\t}\n",
    "cond-chain-value": "\tb := n > 0 && odd(n) || cond() && n < 3\n\tif b {\n\t\ts = 1\n\t}\n",
    "cond-chain-loop": "\tfor i := int32(0); i < n && (cond() || odd(i)); i++ {\n\t\tif odd(i) && cond() {\n\t\t\tcontinue\n\t\t}\n\t\ts++\n\t}\n",
    "cond-in-return": "\tif n > 100 {\n\t\treturn 1\n\t}\n\tif odd(n) && cond() {\n\t\treturn 2\n\t} else if cond() {\n\t\treturn 3\n\t}\n",
    # returns
    "return-in-every-arm": "\tif odd(n) {\n\t\treturn 1\n\t} else if cond() {\n\t\treturn 2\n\t} else {\n\t\treturn 3\n\t}\n",
    "return-first": "\treturn n\n",
    "early-return-in-nested-loop": "\tfor i := int32(0); i < n; i++ {\n\t\tfor j := int32(0); j < n; j++ {\n\t\t\tif i+j == 7 {\n\t\t\t\treturn i\n\t\t\t}\n\t\t}\n\t}\n",
    # range loops
    "range-slice-empty-body": "\txs := []int32{1, 2, 3}\n\tfor range xs {\n\t}\n",
    "range-slice-index": "\txs := []int32{1, 2, 3}\n\tfor i := range xs {\n\t\ts += int32(i)\n\t}\n",
    "range-slice-break-continue": "\txs := []int32{1, 2, 3}\n\tfor _, x := range xs {\n\t\tif x == 1 {\n\t\t\tcontinue\n\t\t}\n\t\tif x == 3 {\n\t\t\tbreak\n\t\t}\n\t\ts += x\n\t}\n",
    "range-array": "\txs := [3]int32{1, 2, 3}\n\tfor _, x := range xs {\n\t\ts += x\n\t}\n\tfor range xs {\n\t}\n",
    "range-string": "\tfor _, c := range \"héllo\" {\n\t\tif c == 'l' {\n\t\t\tcontinue\n\t\t}\n\t\ts++\n\t}\n\tfor range \"ab\" {\n\t}\n",
    "range-map": "\tm := map[int32]int32{1: 2, 3: 4}\n\tfor k, v := range m {\n\t\tif k == 1 {\n\t\t\tcontinue\n\t\t}\n\t\ts += v\n\t}\n\tfor range m {\n\t}\n\tfor k := range m {\n\t\ts += k\n\t}\n",
    "range-nested-labelled": "\txs := []int32{1, 2, 3}\nl:\n\tfor _, x := range xs {\n\t\tfor _, y := range xs {\n\t\t\tif x == y {\n\t\t\t\tcontinue l\n\t\t\t}\n\t\t\tif x+y == 5 {\n\t\t\t\tbreak l\n\t\t\t}\n\t\t\ts++\n\t\t}\n\t}\n",
    # defer / closures inside loops
    "defer-in-loop": "\tfor i := int32(0); i < n; i++ {\n\t\tdefer func() { cnt++ }()\n\t}\n",
    "closure-in-self-loop-cond": "\tf := func() bool { cnt++; return cnt < n }\n\tfor f() {\n\t}\n",
    "loop-var-captured": "\tvar fs []func() int32\n\tfor i := int32(0); i < n; i++ {\n\t\tj := i\n\t\tfs = append(fs, func() int32 { return j })\n\t}\n\tfor _, f := range fs {\n\t\ts += f()\n\t}\n",
}


def all_programs():
    return [(("cfg", k), prog(v)) for k, v in sorted(SHAPES.items())]


if __name__ == "__main__":
    import os
    import sys
    d = sys.argv[1]
    os.makedirs(d, exist_ok=True)
    for (a, b), src in all_programs():
        open(os.path.join(d, b + ".go"), "w").write(src)
