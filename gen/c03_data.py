"""C03: deterministic data-segment stream (owner: C03 check).

wat2c writes every data segment as a C string literal (buildMemory_data); what can go wrong is the escaping of a byte IN THE CONTEXT
of its neighbours: a `\\xNN` escape absorbing a following hex-digit-like character, an unescaped quote / backslash, trigraphs (`??=`),
printf-style `%`, state carried from one segment into the next.  This module builds one WAT module whose segments contain
  * every ordered pair (a, b) of representative bytes of every class — non-printable (\\x escapes, incl. the \\n \\t special cases),
    digit, lower hex letter, upper hex letter, other lower / upper letters, double quote, apostrophe, backslash, `?`, `%`, other
    punctuation, space — laid out as  a b a  so that both adjacencies and the pair in the middle of text occur,
  * all 256 byte values ascending and descending, a run of each single class, the nine trigraph spellings,
  * several segments at different (also adjacent) offsets, one of them starting right after a segment that ends in a hex escape,
    and an empty segment,
and returns, next to the text, the expected initial memory (computed here from the bytes, independently of any engine) as
{address: byte}.  The check reads the memory of the compiled C (and of wazero) back byte by byte through an exported peek function.
"""
CLASSES = [
    ("nonprintable", [0x00, 0x01, 0x05, 0x0a, 0x09, 0x0d, 0x1b, 0x7f, 0x80, 0xab, 0xff]),
    ("digit", [0x30, 0x37, 0x39]),
    ("lowerhex", [0x61, 0x65, 0x66]),
    ("upperhex", [0x41, 0x44, 0x46]),
    ("lower", [0x67, 0x78, 0x7a]),
    ("upper", [0x47, 0x58, 0x5a]),
    ("quote", [0x22]),
    ("apostrophe", [0x27]),
    ("backslash", [0x5c]),
    ("question", [0x3f]),
    ("percent", [0x25]),
    ("punct", [0x3d, 0x2f, 0x28, 0x3c, 0x21, 0x2d, 0x7e, 0x7b]),
    ("space", [0x20]),
]
CLASS_OF = dict((b, n) for n, bs in CLASSES for b in bs)


def class_of(b):
    if b in CLASS_OF:
        return CLASS_OF[b]
    if b < 0x20 or b >= 0x7f:
        return "nonprintable"
    c = chr(b)
    if c.isdigit():
        return "digit"
    if c in "abcdef":
        return "lowerhex"
    if c in "ABCDEF":
        return "upperhex"
    if c.islower():
        return "lower"
    if c.isupper():
        return "upper"
    return "punct"


def wat_string(bs):
    out = []
    for b in bs:
        c = chr(b)
        if c.isalnum() and b < 0x80 or c in " ?%=/()<>!-~{}'":
            out.append(c)
        else:
            out.append("\\%02x" % b)
    return "".join(out)


def segments():
    """[(offset, bytes, tag)]"""
    reps = [b for _, bs in CLASSES for b in bs]
    pairs = bytearray()
    for a in reps:
        for b in reps:
            pairs += bytes([a, b, a])
    segs = [(64, bytes(pairs), "pairs")]
    off = 64 + len(pairs)
    off = (off + 63) // 64 * 64
    segs.append((off, bytes(range(256)), "ascending"))
    segs.append((off + 256, bytes(range(255, -1, -1)), "descending"))           # adjacent to the previous one
    off += 512 + 16
    runs = bytearray()
    for _, bs in CLASSES:
        runs += bytes(bs) * 3
    segs.append((off, bytes(runs), "class-runs"))
    off += len(runs) + 7
    tri = b"??=??(??/??)??'??<??!??>??-??/n??/\"x"
    segs.append((off, tri, "trigraphs"))
    off += len(tri) + 5
    segs.append((off, b"%d%s%%%n%x %5c", "percent"))
    off += 32
    segs.append((off, b"\x05\x00\x00\x00ABCDEabcdef0123456789\x00F\xffE\x01D\x7fA", "length-prefixed-hexlike"))
    off += 48
    segs.append((off, b"ends-in-escape\x01", "tail-escape"))
    segs.append((off + 15, b"Feed after escape", "after-tail-escape"))        # starts right after a segment ending in \x01
    off += 48
    segs.append((off, b"", "empty"))
    segs.append((off, b"BAD\x00CAFE\x00face\x00", "after-empty"))
    segs.append((65536 - 8, b"\xfeEDCBA9\x00", "end-of-memory"))
    return segs


def build():
    segs = segments()
    expect = {}
    lines = ["(module", "  (memory 1)"]
    for off, bs, tag in segs:
        lines.append("  (data (i32.const %d) \"%s\") ;; %s" % (off, wat_string(bs), tag))
        for i, b in enumerate(bs):
            expect[off + i] = b
    lines.append('  (func $f_peek (export "f_peek") (param $a i32) (result i32) local.get $a i32.load8_u)')
    lines.append(")")
    where = {}
    for off, bs, tag in segs:
        for i in range(len(bs)):
            where[off + i] = (tag, off, bs)
    return "\n".join(lines) + "\n", expect, where
